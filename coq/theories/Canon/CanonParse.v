(** Verified inverse parsers for parts of the printers of the Canon model:
      - [parse_head]: annotations, name, tag and template arguments of a listing line (C25);
      - [parse_tr]:   type expressions as printed by TypeRef.String (C21, expression sub-grammar).
    These are specification-side functions (not transcriptions of Go code): they show that the printed text
    determines the AST part it was printed from. *)
From Coq Require Import List NArith ZArith Bool Lia ZifyN ZifyNat ZifyBool Permutation.
From TLV Require Import Canon.CanonModel Canon.CanonProofs.
Import ListNotations.
Open Scope N_scope.
Ltac Zify.zify_post_hook ::= Z.div_mod_to_equations.

(** * Lexical helpers *)
Fixpoint span (p : N -> bool) (s : str) : str * str :=
  match s with
  | [] => ([], [])
  | b :: r => if p b then let (w, r') := span p r in (b :: w, r') else ([], s)
  end.

Definition stops (p : N -> bool) (r : str) : Prop :=
  match r with [] => True | b :: _ => p b = false end.

Lemma span_app : forall p w r, forallb p w = true -> stops p r -> span p (w ++ r) = (w, r).
Proof.
  induction w as [|b w IH]; intros r Hw Hr.
  - destruct r as [|b r]; [reflexivity|]. cbn in *. now rewrite Hr.
  - cbn in *. apply andb_true_iff in Hw. destruct Hw as [Hb Hw]. rewrite Hb, (IH r Hw Hr). reflexivity.
Qed.

Definition parse_ident (s : str) : option (str * str) :=
  match s with
  | b :: r => if is_idstart b then let (w, r') := span is_idchar r in Some (b :: w, r') else None
  | [] => None
  end.

Lemma parse_ident_ok : forall w r, is_ident w = true -> stops is_idchar r -> parse_ident (w ++ r) = Some (w, r).
Proof.
  intros [|b w] r H Hr; [discriminate|]. cbn in *. apply andb_true_iff in H. destruct H as [H1 H2].
  rewrite H1, (span_app _ _ _ H2 Hr). reflexivity.
Qed.

Definition parse_name (s : str) : option (name * str) :=
  match parse_ident s with
  | Some (w, r) =>
      match r with
      | b :: r2 =>
          if b =? 46 then
            match parse_ident r2 with
            | Some (w2, r3) => Some (Name w w2, r3)
            | None => Some (Name [] w, r)
            end
          else Some (Name [] w, r)
      | [] => Some (Name [] w, r)
      end
  | None => None
  end.

(* what may follow a printed name: nothing, or a byte that is neither an identifier character nor '.' *)
Definition nstop (r : str) : Prop :=
  match r with [] => True | b :: _ => is_idchar b = false /\ b <> 46 end.

Lemma nstop_stops : forall r, nstop r -> stops is_idchar r.
Proof. intros [|b r] H; [exact I|]. apply H. Qed.

Lemma parse_name_ok : forall n r, wf_name n = true -> nstop r -> parse_name (print_name n ++ r) = Some (n, r).
Proof.
  intros [ns nm] r W Hr. unfold wf_name in W. cbn [n_ns n_name] in W.
  apply andb_true_iff in W. destruct W as [W1 W2]. unfold print_name, parse_name. cbn [n_ns n_name].
  destruct ns as [|b ns].
  - cbn [nonempty app]. rewrite (parse_ident_ok nm r W2 (nstop_stops r Hr)).
    destruct r as [|c r]; [reflexivity|]. destruct Hr as [_ Hc].
    destruct (c =? 46) eqn:E; [apply N.eqb_eq in E; congruence|reflexivity].
  - cbn [nonempty]. rewrite <- !app_assoc.
    rewrite (parse_ident_ok (b :: ns) ([ch_dot] ++ nm ++ r) W1) by reflexivity.
    cbn [app]. change (ch_dot =? 46) with true. cbv iota.
    now rewrite (parse_ident_ok nm r W2 (nstop_stops r Hr)).
Qed.

Fixpoint strip_prefix (p s : str) : option str :=
  match p with
  | [] => Some s
  | x :: p' => match s with y :: s' => if x =? y then strip_prefix p' s' else None | [] => None end
  end.

Lemma strip_prefix_app : forall p r, strip_prefix p (p ++ r) = Some r.
Proof. induction p as [|x p IH]; intro r; [reflexivity|]. cbn. now rewrite N.eqb_refl. Qed.

(** * The head of a listing line *)
Fixpoint parse_mods (fuel : nat) (s : str) : list str * str :=
  match fuel with
  | O => ([], s)
  | S f =>
      match s with
      | b :: r =>
          if b =? 64 then
            match parse_ident r with
            | Some (m, b2 :: r2) =>
                if b2 =? 32 then let (ms, r3) := parse_mods f r2 in (m :: ms, r3) else ([], s)
            | _ => ([], s)
            end
          else ([], s)
      | [] => ([], s)
      end
  end.

Definition mods_text (ms : list str) : str := flat_map (fun m => [ch_at] ++ m ++ [ch_space]) ms.

Lemma parse_mods_ok : forall ms fuel rest,
  forallb is_ident ms = true -> stops (N.eqb 64) rest -> (length ms <= fuel)%nat ->
  parse_mods fuel (mods_text ms ++ rest) = (ms, rest).
Proof.
  induction ms as [|m ms IH]; intros fuel rest H Hr Hf.
  - cbn [mods_text flat_map app]. destruct fuel; [reflexivity|]. cbn [parse_mods].
    destruct rest as [|b r]; [reflexivity|]. unfold stops in Hr. now rewrite N.eqb_sym, Hr.
  - destruct fuel as [|f]; [cbn in Hf; lia|]. cbn [forallb] in H. apply andb_true_iff in H. destruct H as [Hm Hms].
    unfold mods_text. cbn [flat_map]. rewrite <- !app_assoc. cbn [app parse_mods].
    change (ch_at =? 64) with true. cbv iota.
    rewrite (parse_ident_ok m _ Hm) by reflexivity.
    change (ch_space =? 32) with true. cbv iota.
    change (flat_map (fun m0 : list N => ch_at :: m0 ++ [ch_space]) ms) with (mods_text ms). rewrite (IH f rest Hms Hr) by (cbn in Hf; lia). reflexivity.
Qed.

Definition parse_hex8 (s : str) : option (N * str) :=
  let ds := firstn 8 s in
  if (length ds =? 8)%nat && forallb is_hex ds then Some (hexval ds, skipn 8 s) else None.

Lemma parse_hex8_ok : forall n r, n < 4294967296 -> parse_hex8 (hex8 n ++ r) = Some (n, r).
Proof.
  intros n r H. unfold parse_hex8. pose proof (hex8_length n) as L.
  rewrite firstn_app, L, Nat.sub_diag, firstn_O, app_nil_r, firstn_all2 by lia.
  rewrite L. cbn [Nat.eqb andb].
  assert (Hh : forallb is_hex (hex8 n) = true) by apply (hexk_spec 8 n).
  rewrite Hh, (hex8_value n H). rewrite skipn_app, L, Nat.sub_diag, skipn_all2 by lia. reflexivity.
Qed.

Definition s_nat_close : str := s_nat ++ s_rcur_sp.     (* ":#} " *)
Definition s_type_close : str := s_type ++ s_rcur_sp.   (* ":Type} " *)

Fixpoint parse_targs (fuel : nat) (s : str) : list targ * str :=
  match fuel with
  | O => ([], s)
  | S f =>
      match s with
      | b :: r =>
          if b =? 123 then
            match parse_ident r with
            | Some (n, r1) =>
                match strip_prefix s_nat_close r1 with
                | Some r2 => let (ts, r3) := parse_targs f r2 in (TArg n true :: ts, r3)
                | None =>
                    match strip_prefix s_type_close r1 with
                    | Some r2 => let (ts, r3) := parse_targs f r2 in (TArg n false :: ts, r3)
                    | None => ([], s)
                    end
                end
            | None => ([], s)
            end
          else ([], s)
      | [] => ([], s)
      end
  end.

Definition targs_text (ts : list targ) : str :=
  flat_map (fun x => [ch_lcur] ++ ta_name x ++ (if ta_isnat x then s_nat else s_type) ++ s_rcur_sp) ts.

Lemma parse_targs_ok : forall ts fuel rest,
  forallb (fun x => is_ident (ta_name x)) ts = true -> stops (N.eqb 123) rest -> (length ts <= fuel)%nat ->
  parse_targs fuel (targs_text ts ++ rest) = (ts, rest).
Proof.
  induction ts as [|[n isnat] ts IH]; intros fuel rest H Hr Hf.
  - cbn [targs_text flat_map app]. destruct fuel; [reflexivity|]. cbn [parse_targs].
    destruct rest as [|b r]; [reflexivity|]. unfold stops in Hr. now rewrite N.eqb_sym, Hr.
  - destruct fuel as [|f]; [cbn in Hf; lia|]. cbn [forallb ta_name] in H.
    apply andb_true_iff in H. destruct H as [Hn Hts].
    unfold targs_text. cbn [flat_map ta_name ta_isnat]. rewrite <- !app_assoc. cbn [app parse_targs].
    change (ch_lcur =? 123) with true. cbv iota.
    change (flat_map (fun x : targ => ch_lcur :: ta_name x ++ (if ta_isnat x then s_nat else s_type) ++ s_rcur_sp) ts)
      with (targs_text ts). destruct isnat.
    + rewrite (parse_ident_ok n _ Hn) by reflexivity.
      change (s_nat ++ s_rcur_sp ++ targs_text ts ++ rest) with (s_nat_close ++ targs_text ts ++ rest).
      rewrite strip_prefix_app. rewrite (IH f rest Hts Hr) by (cbn in Hf; lia). reflexivity.
    + rewrite (parse_ident_ok n _ Hn) by reflexivity.
      change (strip_prefix s_nat_close (s_type ++ s_rcur_sp ++ targs_text ts ++ rest)) with (@None str).
      change (s_type ++ s_rcur_sp ++ targs_text ts ++ rest) with (s_type_close ++ targs_text ts ++ rest).
      rewrite strip_prefix_app. rewrite (IH f rest Hts Hr) by (cbn in Hf; lia). reflexivity.
Qed.

Definition parse_head (s : str) : option (list str * name * N * list targ * str) :=
  let (ms, r0) := parse_mods (length s) s in
  match parse_name r0 with
  | Some (nm, b :: r1) =>
      if b =? 35 then
        match parse_hex8 r1 with
        | Some (id, b2 :: r2) =>
            if b2 =? 32 then
              let (ts, r3) := parse_targs (length r2) r2 in Some (ms, nm, id, ts, r3)
            else None
        | _ => None
        end
      else None
  | _ => None
  end.

Lemma length_flat_map_ge : forall {A} (f : A -> str) l,
  (forall x, (1 <= length (f x))%nat) -> (length l <= length (flat_map f l))%nat.
Proof.
  induction l as [|x l IH]; intro H; [cbn; lia|]. cbn [flat_map length]. rewrite app_length.
  specialize (IH H). specialize (H x). lia.
Qed.

Lemma line_head_eq : forall c,
  line_head c = mods_text (line_mods (c_mods c)) ++ print_name (c_name c) ++ [ch_hash] ++ hex8 (c_id c) ++
                [ch_space] ++ targs_text (c_targs c).
Proof. reflexivity. Qed.

Lemma canon_tail_stops : forall c, wf_comb c = true -> stops (N.eqb 123) (canon_tail c).
Proof.
  intros c W.
  assert (H : forallb is_canon_char (canon_tail c) = true).
  { apply ok_canon_tail; [| |exact W]; intros b Hb; unfold is_canon_char; rewrite Hb;
      [reflexivity|apply orb_true_r]. }
  destruct (canon_tail c) as [|b r]; [exact I|]. cbn [forallb] in H. apply andb_true_iff in H. destruct H as [H _].
  unfold stops. destruct (123 =? b) eqn:E; [|reflexivity]. apply N.eqb_eq in E. subst. discriminate.
Qed.

Theorem parse_head_ok : forall c, wf_comb c = true ->
  parse_head (canon_line c) = Some (mod_sort (c_mods c), c_name c, c_id c, c_targs c, canon_tail c).
Proof.
  intros c W. pose proof (canon_tail_stops c W) as Hstop.
  pose proof W as W0. unfold wf_comb in W. repeat (apply andb_true_iff in W; destruct W as [W ?]).
  unfold parse_head. rewrite canon_line_split, line_head_eq, (line_mods_idents _ W).
  rewrite <- !app_assoc.
  assert (Hn : exists b w, print_name (c_name c) = b :: w /\ is_idstart b = true).
  { destruct (c_name c) as [ns nm]. unfold wf_name in H4. cbn [n_ns n_name] in H4.
    apply andb_true_iff in H4. destruct H4 as [H4 H5]. unfold print_name. cbn [n_ns n_name].
    destruct ns as [|b ns]; cbn [nonempty app].
    - destruct nm as [|b nm]; [discriminate|]. exists b, nm. split; [reflexivity|].
      cbn in H5. now apply andb_true_iff in H5.
    - eexists b, _. split; [reflexivity|]. cbn in H4. now apply andb_true_iff in H4. }
  destruct Hn as (b & w & En & Hb).
  rewrite parse_mods_ok.
  - rewrite parse_name_ok; [| assumption | cbn; split; [reflexivity|discriminate]].
    cbn [app]. change (ch_hash =? 35) with true. cbv iota.
    rewrite parse_hex8_ok by lia. cbn [app]. change (ch_space =? 32) with true. cbv iota.
    rewrite parse_targs_ok; [reflexivity | assumption | assumption |].
    rewrite app_length. pose proof (length_flat_map_ge
      (fun x => [ch_lcur] ++ ta_name x ++ (if ta_isnat x then s_nat else s_type) ++ s_rcur_sp) (c_targs c)) as L.
    unfold targs_text. assert (forall x : targ, (1 <= length ([ch_lcur] ++ ta_name x ++ (if ta_isnat x then s_nat else s_type) ++ s_rcur_sp))%nat)
      by (intro x; cbn; lia). specialize (L H5). eapply Nat.le_trans; [exact L|apply Nat.le_add_r].
  - now apply mod_sort_idents.
  - rewrite En. cbn [app]. unfold stops. destruct (64 =? b) eqn:E; [|reflexivity]. apply N.eqb_eq in E. subst. discriminate.
  - rewrite app_length. unfold mods_text.
    pose proof (length_flat_map_ge (fun m => [ch_at] ++ m ++ [ch_space]) (mod_sort (c_mods c))) as L.
    assert (forall m : str, (1 <= length ([ch_at] ++ m ++ [ch_space]))%nat) by (intro m; cbn; lia).
    specialize (L H5). eapply Nat.le_trans; [exact L|apply Nat.le_add_r].
Qed.

(** the text of a listing line determines annotations (sorted), name, tag, template arguments and the
    canonical form of the combinator it was printed from *)
Corollary canon_line_head_inj : forall c1 c2, wf_comb c1 = true -> wf_comb c2 = true ->
  canon_line c1 = canon_line c2 ->
  mod_sort (c_mods c1) = mod_sort (c_mods c2) /\ c_name c1 = c_name c2 /\ tag c1 = tag c2 /\
  c_targs c1 = c_targs c2 /\ canon c1 = canon c2.
Proof.
  intros c1 c2 W1 W2 E. pose proof (parse_head_ok c1 W1) as P1. pose proof (parse_head_ok c2 W2) as P2.
  rewrite E, P2 in P1. injection P1 as Em En Ei Et Etl.
  assert (I1 : parsed_id c1 = true) by (unfold wf_comb in W1; now apply andb_true_iff in W1).
  assert (I2 : parsed_id c2 = true) by (unfold wf_comb in W2; now apply andb_true_iff in W2).
  repeat split; try congruence.
  - rewrite <- (parsed_id_tag c1 I1), <- (parsed_id_tag c2 I2). congruence.
  - rewrite !canon_shares_tail. congruence.
Qed.

(** an implicit tag printed in the listing can be recomputed from the line itself *)
Corollary listing_tag_recomputable : forall c, wf_comb c = true -> c_explicit c = false ->
  exists ms nm id ts tail,
    parse_head (canon_line c) = Some (ms, nm, id, ts, tail) /\
    id = crc32 (print_name nm ++ [ch_space] ++
                flat_map (fun x => ta_name x ++ (if ta_isnat x then s_nat_sp else s_type_sp)) ts ++ tail).
Proof.
  intros c W E. eexists _, _, _, _, _. split; [now apply parse_head_ok|].
  rewrite <- canon_shares_tail.
  assert (I : parsed_id c = true) by (unfold wf_comb in W; now apply andb_true_iff in W).
  rewrite (parsed_id_tag c I). now apply tag_implicit.
Qed.

(** * Type expressions: a parser that inverts TypeRef.String on well-formed type references *)
Definition parse_dec (s : str) : option (N * str) :=
  let (ds, r) := span is_digit s in
  match ds with [] => None | _ => Some (dval ds, r) end.

Lemma parse_dec_ok : forall n r, stops is_digit r -> parse_dec (dec n ++ r) = Some (n, r).
Proof.
  intros n r Hr. unfold parse_dec. destruct (dec_spec n) as (Hne & Hd & Hv).
  rewrite (span_app _ _ _ Hd Hr). destruct (dec n); [congruence|]. now rewrite Hv.
Qed.

(* numbers joined by " + " *)
Fixpoint parse_nums (fuel : nat) (s : str) : option (list N * str) :=
  match fuel with
  | O => None
  | S f =>
      match parse_dec s with
      | Some (n, r) =>
          match r with
          | b1 :: b2 :: b3 :: r' =>
              if (b1 =? 32) && (b2 =? 43) && (b3 =? 32) then
                match parse_nums f r' with
                | Some (ns, r'') => Some (n :: ns, r'')
                | None => None
                end
              else Some ([n], r)
          | _ => Some ([n], r)
          end
      | None => None
      end
  end.

(* what may follow printed arithmetic: no digit, and not " + " *)
Definition astop (r : str) : Prop :=
  stops is_digit r /\ (forall r', r <> s_plus ++ r').

Lemma parse_nums_ok : forall l fuel r, l <> [] -> astop r -> (length l <= fuel)%nat ->
  parse_nums fuel (print_nums l ++ r) = Some (l, r).
Proof.
  induction l as [|x [|y l] IH]; intros fuel r Hne [Hr1 Hr2] Hf; [congruence| |].
  - destruct fuel as [|f]; [cbn in Hf; lia|]. cbn [print_nums parse_nums].
    rewrite (parse_dec_ok x r Hr1).
    destruct r as [|b1 [|b2 [|b3 r']]]; try reflexivity.
    destruct ((b1 =? 32) && (b2 =? 43) && (b3 =? 32)) eqn:E; [|reflexivity].
    apply andb_true_iff in E. destruct E as [E E3]. apply andb_true_iff in E. destruct E as [E1 E2].
    apply N.eqb_eq in E1, E2, E3. subst. exfalso. apply (Hr2 r'). reflexivity.
  - destruct fuel as [|f]; [cbn in Hf; lia|].
    change (print_nums (x :: y :: l)) with (dec x ++ s_plus ++ print_nums (y :: l)).
    cbn [parse_nums]. rewrite <- !app_assoc. rewrite (parse_dec_ok x) by reflexivity.
    cbn [s_plus app]. change ((32 =? 32) && (43 =? 43) && (32 =? 32)) with true. cbv iota.
    rewrite (IH f r) by (try discriminate; try (split; assumption); cbn in *; lia). reflexivity.
Qed.

Definition the_empty_tr : typeref := TypeRef (Name [] []) [] false.

Fixpoint parse_tr (fuel : nat) (s : str) : option (typeref * str) :=
  match fuel with
  | O => None
  | S f =>
      let '(bare, s1) := match s with
                         | b :: r => if b =? 37 then (true, r) else (false, s)
                         | [] => (false, s)
                         end in
      match s1 with
      | b :: r =>
          if b =? 35 then Some (TypeRef (Name [] [ch_hash]) [] bare, r)
          else if b =? 40 then
            match parse_name r with
            | Some (nm, r1) =>
                match parse_args f r1 with
                | Some (args, r2) => Some (TypeRef nm args bare, r2)
                | None => None
                end
            | None => None
            end
          else
            match parse_name s1 with
            | Some (nm, r1) => Some (TypeRef nm [] bare, r1)
            | None => None
            end
      | [] => None
      end
  end
with parse_args (fuel : nat) (s : str) : option (list aot * str) :=
  match fuel with
  | O => None
  | S f =>
      match s with
      | b :: r =>
          if b =? 32 then
            match r with
            | d :: _ =>
                if is_digit d then
                  match parse_nums (length r) r with
                  | Some (ns, r1) =>
                      match parse_args f r1 with
                      | Some (l, r2) => Some (Aot true (Arith ns (sumN ns)) the_empty_tr :: l, r2)
                      | None => None
                      end
                  | None => None
                  end
                else
                  match parse_tr f r with
                  | Some (t, r1) =>
                      match parse_args f r1 with
                      | Some (l, r2) => Some (Aot false (Arith [] 0) t :: l, r2)
                      | None => None
                      end
                  | None => None
                  end
            | [] => None
            end
          else if b =? 41 then Some ([], r) else None
      | [] => None
      end
  end.

Lemma idstart_facts : forall b, is_idstart b = true ->
  (b =? 35) = false /\ (b =? 40) = false /\ (b =? 37) = false /\ is_digit b = false /\ b <> 43 /\ b <> 32.
Proof. intros b H. unfold is_idstart, is_letter, is_digit in *. lia. Qed.

Lemma wf_name_first : forall n, wf_name n = true -> exists b w, print_name n = b :: w /\ is_idstart b = true.
Proof.
  intros [ns nm] H. unfold wf_name in H. cbn [n_ns n_name] in H.
  apply andb_true_iff in H. destruct H as [H4 H5]. unfold print_name. cbn [n_ns n_name].
  destruct ns as [|b ns]; cbn [nonempty app].
  - destruct nm as [|b nm]; [discriminate|]. exists b, nm. split; [reflexivity|].
    cbn in H5. now apply andb_true_iff in H5.
  - eexists b, _. split; [reflexivity|]. cbn in H4. now apply andb_true_iff in H4.
Qed.

(* first byte of a printed type expression: not a digit, not '+', not a space *)
Lemma print_tr_first : forall t, wf_tr t = true ->
  exists b w, print_tr t = b :: w /\ is_digit b = false /\ b <> 43 /\ b <> 32.
Proof.
  intros [ty args bare] W. rewrite wf_tr_eq in W. rewrite print_tr_eq.
  destruct bare; [eexists _, _; split; [reflexivity|]; repeat split; discriminate|].
  cbn [app]. destruct (is_hash_name ty) eqn:Eh.
  - apply is_hash_name_eq in Eh. subst. apply andb_true_iff in W. destruct W as [_ W].
    destruct args; [|discriminate]. eexists _, _; split; [reflexivity|]. repeat split; discriminate.
  - destruct args as [|a l]; [|eexists _, _; split; [reflexivity|]; repeat split; discriminate].
    apply andb_true_iff in W. destruct W as [Wn _].
    destruct (wf_name_first ty Wn) as (b & w & E & Hb). exists b, w. split; [exact E|].
    destruct (idstart_facts b Hb) as (_ & _ & _ & H1 & H2 & H3). auto.
Qed.

(* what may follow a printed type expression *)
Definition tstop (r : str) : Prop := nstop r.

Definition args_text (l : list aot) : str := flat_map (fun x => ch_space :: print_aot x) l.

Lemma astop_args : forall l r, forallb wf_aot l = true -> astop (args_text l ++ [ch_rpar] ++ r).
Proof.
  intros [|[i ar t] l] r W.
  - cbn. split; [reflexivity|]. intros r' E. discriminate.
  - cbn [args_text flat_map app]. split; [reflexivity|]. intros r' E. cbn [s_plus app] in E.
    cbn [forallb wf_aot] in W. apply andb_true_iff in W. destruct W as [W _]. cbn [print_aot] in E. destruct i.
    + apply andb_true_iff in W. destruct W as [W _]. unfold print_arith in E.
      destruct (a_nums ar) as [|x nums] eqn:En; [now apply wf_arith_nums in W|].
      destruct (dec_spec x) as (Hne & Hd & _).
      assert (exists d w, print_nums (x :: nums) = d :: w /\ is_digit d = true) as (d & w & Ed & Hdig).
      { destruct nums; cbn [print_nums]; destruct (dec x) as [|d w] eqn:Edx; try congruence;
          cbn [forallb] in Hd; apply andb_true_iff in Hd; destruct Hd as [Hd _]; eexists _, _; split; try reflexivity; assumption. }
      rewrite Ed in E. cbn [app] in E. inversion E; subst. discriminate.
    + apply andb_true_iff in W. destruct W as [_ W].
      destruct (print_tr_first t W) as (b & w & Eb & _ & H43 & _). rewrite Eb in E. cbn [app] in E.
      inversion E; subst. congruence.
Qed.

Lemma nstop_args : forall l r, nstop (args_text l ++ [ch_rpar] ++ r).
Proof. intros [|x l] r; cbn; split; (reflexivity || discriminate). Qed.

Lemma length_nums_le : forall l r, (length l <= length (print_nums l ++ r))%nat.
Proof.
  induction l as [|x [|y l] IH]; intro r; [cbn; lia| |].
  - cbn [print_nums length]. destruct (dec_spec x) as (Hne & _). rewrite app_length.
    destruct (dec x); [congruence|]. cbn [length]. apply le_n_S, Nat.le_0_l.
  - change (print_nums (x :: y :: l)) with (dec x ++ s_plus ++ print_nums (y :: l)).
    rewrite <- !app_assoc. rewrite app_length. specialize (IH r).
    change (length (x :: y :: l)) with (S (length (y :: l))).
    cbn [s_plus app length]. rewrite !Nat.add_succ_r. apply le_n_S.
    eapply Nat.le_trans; [exact IH|]. do 2 apply Nat.le_le_succ_r. apply Nat.le_add_l.
Qed.

(** for all sufficiently large fuel the parser returns the AST the text was printed from *)
Theorem parse_print_tr : forall t, wf_tr t = true ->
  exists k, forall fuel r, (k <= fuel)%nat -> tstop r -> parse_tr fuel (print_tr t ++ r) = Some (t, r).
Proof.
  induction t as [ty args bare IH] using typeref_ind'. intro W.
  rewrite wf_tr_eq in W.
  destruct (is_hash_name ty) eqn:Eh.
  - apply is_hash_name_eq in Eh. subst. apply andb_true_iff in W. destruct W as [Wb W].
    destruct args; [|discriminate]. destruct bare; [discriminate|].
    exists 1%nat. intros [|f] r Hf _; [lia|]. reflexivity.
  - apply andb_true_iff in W. destruct W as [Wn Wa].
    (* the argument list *)
    assert (A : exists k, forall fuel r, (k <= fuel)%nat ->
                 parse_args fuel (args_text args ++ [ch_rpar] ++ r) = Some (args, r)).
    { clear Eh Wn. induction args as [|[i ar t] l IHl].
      - exists 1%nat. intros [|f] r Hf; [lia|]. reflexivity.
      - cbn [forallb wf_aot] in Wa. apply andb_true_iff in Wa. destruct Wa as [Wx Wl].
        inversion IH as [|? ? IHx IHr]; subst. cbn [aot_tr] in IHx.
        destruct (IHl IHr Wl) as (kl & Hl).
        destruct i.
        + apply andb_true_iff in Wx. destruct Wx as [Wx We]. apply empty_tr_eq in We. subst t.
          exists (S kl). intros [|f] r Hf; [lia|].
          cbn [args_text flat_map print_aot]. rewrite <- app_assoc. cbn [app parse_args].
          change (ch_space =? 32) with true. cbv iota.
          pose proof (wf_arith_nums ar Wx) as Hne.
          assert (exists d w, print_arith ar ++ args_text l ++ [ch_rpar] ++ r = d :: w /\ is_digit d = true)
            as (d & w & Ed & Hdig).
          { unfold print_arith. destruct (a_nums ar) as [|x nums]; [congruence|].
            destruct (dec_spec x) as (Hne' & Hd & _).
            destruct nums; cbn [print_nums]; destruct (dec x) as [|d w] eqn:Edx; try congruence;
              cbn [forallb] in Hd; apply andb_true_iff in Hd; destruct Hd as [Hd _];
              eexists _, _; (split; [reflexivity|assumption]). }
          fold (args_text l). change (ch_rpar :: r) with ([ch_rpar] ++ r). rewrite Ed, Hdig, <- Ed. unfold print_arith.
          rewrite parse_nums_ok; [| assumption | now apply astop_args | apply length_nums_le].
          rewrite Hl by lia.
          destruct ar as [nums res]. unfold wf_arith in Wx. cbn [a_nums a_res] in *.
          apply andb_true_iff in Wx. destruct Wx as [Wx _]. apply andb_true_iff in Wx. destruct Wx as [_ Wx].
          apply N.eqb_eq in Wx. subst res. reflexivity.
        + apply andb_true_iff in Wx. destruct Wx as [We Wt]. apply empty_arith_eq in We. subst ar.
          destruct (IHx Wt) as (kx & Hx).
          exists (S (kx + kl)). intros [|f] r Hf; [lia|].
          cbn [args_text flat_map print_aot]. rewrite <- app_assoc. cbn [app parse_args].
          change (ch_space =? 32) with true. cbv iota.
          destruct (print_tr_first t Wt) as (b & w & Eb & Hnd & _ & _).
          fold (args_text l). change (ch_rpar :: r) with ([ch_rpar] ++ r).
          assert (Ed : print_tr t ++ args_text l ++ [ch_rpar] ++ r = b :: (w ++ args_text l ++ [ch_rpar] ++ r))
            by (now rewrite Eb).
          rewrite Ed, Hnd, <- Ed.
          rewrite Hx; [| lia | apply nstop_args]. rewrite Hl by lia. reflexivity. }
    destruct A as (ka & Ha).
    exists (S ka). intros [|f] r Hf Hr; [lia|]. rewrite print_tr_eq.
    destruct (wf_name_first ty Wn) as (b & w & En & Hb).
    destruct (idstart_facts b Hb) as (F35 & F40 & F37 & _).
    destruct args as [|a l].
    + (* plain name *)
      cbn [parse_tr]. destruct bare.
      * cbn [app]. change (ch_pct =? 37) with true. cbv iota. rewrite En. cbn [app].
        rewrite F35, F40. rewrite (app_comm_cons w r b), <- En. now rewrite parse_name_ok.
      * cbn [app]. rewrite En. cbn [app]. rewrite F37. cbv iota. rewrite F35, F40.
        rewrite (app_comm_cons w r b), <- En. now rewrite parse_name_ok.
    + cbn [parse_tr]. fold (args_text (a :: l)). rewrite <- !app_assoc. destruct bare.
      * cbn [app]. change (ch_pct =? 37) with true. cbv iota.
        change (ch_lpar =? 35) with false. change (ch_lpar =? 40) with true. cbv iota.
        rewrite parse_name_ok; [| assumption | apply nstop_args]. change (ch_rpar :: r) with ([ch_rpar] ++ r). now rewrite Ha by lia.
      * cbn [app]. change (ch_lpar =? 37) with false. cbv iota.
        change (ch_lpar =? 35) with false. change (ch_lpar =? 40) with true. cbv iota.
        rewrite parse_name_ok; [| assumption | apply nstop_args]. change (ch_rpar :: r) with ([ch_rpar] ++ r). now rewrite Ha by lia.
Qed.

(** hence TypeRef.String is injective on well-formed type references *)
Corollary print_tr_inj : forall t1 t2, wf_tr t1 = true -> wf_tr t2 = true -> print_tr t1 = print_tr t2 -> t1 = t2.
Proof.
  intros t1 t2 W1 W2 E. destruct (parse_print_tr t1 W1) as (k1 & H1). destruct (parse_print_tr t2 W2) as (k2 & H2).
  specialize (H1 (k1 + k2)%nat [] ltac:(lia) I). specialize (H2 (k1 + k2)%nat [] ltac:(lia) I).
  rewrite E, H2 in H1. congruence.
Qed.

Corollary print_name_inj : forall n1 n2, wf_name n1 = true -> wf_name n2 = true ->
  print_name n1 = print_name n2 -> n1 = n2.
Proof.
  intros n1 n2 W1 W2 E. pose proof (parse_name_ok n1 [] W1 I) as H1. pose proof (parse_name_ok n2 [] W2 I) as H2.
  rewrite E, H2 in H1. congruence.
Qed.

Corollary print_nums_inj : forall l1 l2, l1 <> [] -> l2 <> [] -> print_nums l1 = print_nums l2 -> l1 = l2.
Proof.
  intros l1 l2 N1 N2 E.
  assert (A : astop []) by (split; [exact I|intros r' H; destruct r'; discriminate]).
  pose proof (parse_nums_ok l1 (length l1 + length l2) [] N1 A ltac:(apply Nat.le_add_r)) as H1.
  pose proof (parse_nums_ok l2 (length l1 + length l2) [] N2 A ltac:(apply Nat.le_add_l)) as H2.
  rewrite E, H2 in H1. congruence.
Qed.

(** * Refutations (findings) *)

(** F5: Constructor.String() omits an explicit tag that is zero, so two different combinators print alike and the
    re-parsed one gets the implicit tag:  foo#00000000 = Foo;  prints as  foo = Foo; *)
Lemma print1_refuted_zero_tag :
  exists c1 c2, wf_comb c1 = true /\ wf_comb c2 = true /\ c_explicit c1 = true /\ c_id c1 = 0 /\
    c_explicit c2 = false /\ print1 c1 = print1 c2 /\ tag c1 = 0 /\ tag c2 = 135614071 /\ c1 <> c2.
Proof.
  exists (w_foo [] 0 true), (w_foo [] 135614071 false).
  repeat split; try (vm_compute; reflexivity). intro H. discriminate.
Qed.

(** F12: the listing prints field (and result) types in the bracket-free CRC spelling, so combinators with
    different field lists have the same line:
      dictionary#1f4c618f {t:Type} %(Vector %(DictionaryField t)) = Dictionary t;     (one field)
      dictionary#1f4c618f {t:Type} %Vector %DictionaryField t = Dictionary t;         (three fields) *)
Definition w_str_Vector : str := [86; 101; 99; 116; 111; 114].
Definition w_str_DictionaryField : str := [68; 105; 99; 116; 105; 111; 110; 97; 114; 121; 70; 105; 101; 108; 100].
Definition w_str_dictionary : str := [100; 105; 99; 116; 105; 111; 110; 97; 114; 121].
Definition w_str_Dictionary : str := [68; 105; 99; 116; 105; 111; 110; 97; 114; 121].
Definition w_anon (t : typeref) : field := Field [] None false false false w_nofield_rep [] t.
Definition w_t : typeref := TypeRef (Name [] [116]) [] false.
Definition w_dict (fields : list field) : comb :=
  Comb false false [] (Name [] w_str_dictionary) 525099407 true [TArg [116] false] fields
       (TypeDecl (Name [] w_str_Dictionary) [[116]]) w_empty_tr.
Definition w_dict1 : comb :=
  w_dict [w_anon (TypeRef (Name [] w_str_Vector)
                    [Aot false (Arith [] 0) (TypeRef (Name [] w_str_DictionaryField) [Aot false (Arith [] 0) w_t] true)]
                    true)].
Definition w_dict3 : comb :=
  w_dict [w_anon (TypeRef (Name [] w_str_Vector) [] true);
          w_anon (TypeRef (Name [] w_str_DictionaryField) [] true); w_anon w_t].

Lemma canon_line_refuted :
  exists c1 c2, wf_comb c1 = true /\ wf_comb c2 = true /\
    length (c_fields c1) = 1%nat /\ length (c_fields c2) = 3%nat /\ canon_line c1 = canon_line c2.
Proof. exists w_dict1, w_dict3. repeat split; vm_compute; reflexivity. Qed.

(** ... and the '!' marker of a field is not listed:  foo#00000001 x:!X = Foo  vs  foo#00000001 x:X = Foo *)
Lemma canon_line_refuted_excl :
  exists c1 c2, wf_comb c1 = true /\ wf_comb c2 = true /\ c1 <> c2 /\
    c_fields c2 = map (set_excl false) (c_fields c1) /\ canon_line c1 = canon_line c2.
Proof.
  exists (w_foo [Field [120] None true false false w_nofield_rep [] (TypeRef (Name [] [88]) [] false)] 1 true),
         (w_foo [Field [120] None false false false w_nofield_rep [] (TypeRef (Name [] [88]) [] false)] 1 true).
  repeat split; try (vm_compute; reflexivity). intro H. discriminate.
Qed.
