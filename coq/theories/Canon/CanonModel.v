(** M7c [Canon] -- printers of the TL1 combinator AST (internal/tlast):
      - [print1]      Combinator.String()            (qt_tlparser.qtpl)
      - [print_tl]    TL.String()                    (qt_tlparser.qtpl)
      - [canon]       Combinator.canonicalForm()     (qt_tlparser.qtpl)
      - [crc32]       hash/crc32.ChecksumIEEE        (tlcrc32.go: crc32())
      - [tag]         the tag the parser stores in Construct.ID (tlparser_code.go: parseCombinator)
      - [canon_line]  Combinator.canonicalFormWithTag() (qt_combined2tl.qtpl)
      - [listing]     TL.Generate2TL()                (qt_combined2tl.qtpl), i.e. tl2gen --language=canonical
    Executable definitions only (transcribed branch by branch from the generated Go of the templates);
    proofs live in CanonProofs.v.  Strings are byte lists ([N] < 256).
    The AST mirrors tlast.Combinator / Field / TypeRef / ArithmeticOrType / ... field by field, minus
    positions, comments and the fields only type resolution sets (that erasure is the harness dump). *)
From Coq Require Export List NArith Bool.
From TLV Require Export Gen.CanonConsts.
Export ListNotations.
Open Scope N_scope.

Definition str := list N.

(** ** AST *)
Record name := Name { n_ns : str; n_name : str }.
Record arith := Arith { a_nums : list N; a_res : N }.

Inductive typeref :=
| TypeRef (ty : name) (args : list aot) (bare : bool)
with aot :=
| Aot (isarith : bool) (ar : arith) (t : typeref).

Record fieldmask := FieldMask { m_name : str; m_bit : N }.
Record scalefactor := ScaleFactor { s_isarith : bool; s_arith : arith; s_scale : str }.

(** Field with its RepeatWithScale inlined: [rexplicit], [rscale], [rrep] are ScaleRepeat.ExplicitScale /
    .Scale / .Rep. *)
Inductive field :=
| Field (fname : str) (mask : option fieldmask) (excl : bool) (isrep : bool)
        (rexplicit : bool) (rscale : scalefactor) (rrep : list field) (ftype : typeref).

Record targ := TArg { ta_name : str; ta_isnat : bool }.
Record typedecl := TypeDecl { td_name : name; td_args : list str }.

Record comb := Comb {
  c_builtin : bool;
  c_isfunc : bool;
  c_mods : list str;          (* Modifier.Name, without '@' *)
  c_name : name;              (* Construct.Name *)
  c_id : N;                   (* Construct.ID *)
  c_explicit : bool;          (* Construct.IDExplicit *)
  c_targs : list targ;
  c_fields : list field;
  c_typedecl : typedecl;
  c_funcdecl : typeref }.

(** ** small string helpers *)
Definition nonempty {A} (s : list A) : bool := match s with [] => false | _ => true end.

Fixpoint str_eqb (a b : str) : bool :=
  match a, b with
  | [], [] => true
  | x :: a', y :: b' => (x =? y) && str_eqb a' b'
  | _, _ => false
  end.

(* byte values of the ASCII characters the templates emit *)
Definition ch_space : N := 32.
Definition ch_excl : N := 33.   (* ! *)
Definition ch_hash : N := 35.   (* # *)
Definition ch_pct : N := 37.    (* % *)
Definition ch_lpar : N := 40.
Definition ch_rpar : N := 41.
Definition ch_star : N := 42.
Definition ch_dot : N := 46.
Definition ch_colon : N := 58.
Definition ch_semi : N := 59.
Definition ch_qm : N := 63.     (* ? *)
Definition ch_at : N := 64.
Definition ch_lsq : N := 91.
Definition ch_rsq : N := 93.
Definition ch_lcur : N := 123.
Definition ch_rcur : N := 125.
Definition ch_nl : N := 10.

Definition s_plus : str := [32; 43; 32].                 (* " + " *)
Definition s_eq : str := [61; 32].                       (* "= " *)
Definition s_qm : str := [63; 32].                       (* "? " *)
Definition s_nat_sp : str := [58; 35; 32].               (* ":# " *)
Definition s_type_sp : str := [58; 84; 121; 112; 101; 32]. (* ":Type " *)
Definition s_nat : str := [58; 35].                      (* ":#" *)
Definition s_type : str := [58; 84; 121; 112; 101].      (* ":Type" *)
Definition s_rcur_sp : str := [125; 32].                 (* "} " *)
Definition s_sp_rsq : str := [32; 93].                   (* " ]" *)
Definition s_atkphp : str := [64; 107; 112; 104; 112].   (* "@kphp" *)
Definition s_atany : str := [64; 97; 110; 121].          (* "@any" *)
Definition s_any : str := [97; 110; 121].
Definition s_read : str := [114; 101; 97; 100].
Definition s_write : str := [119; 114; 105; 116; 101].
Definition s_readwrite : str := [114; 101; 97; 100; 119; 114; 105; 116; 101].
Definition s_internal : str := [105; 110; 116; 101; 114; 110; 97; 108].
Definition s_kphp : str := [107; 112; 104; 112].
Definition s_int : str := [105; 110; 116].
Definition s_long : str := [108; 111; 110; 103].
Definition s_float : str := [102; 108; 111; 97; 116].
Definition s_double : str := [100; 111; 117; 98; 108; 101].
Definition s_string : str := [115; 116; 114; 105; 110; 103].
Definition s_comment : str := [32; 47; 47; 32; 32].      (* " //  " : space "//" space space *)

(** ** numbers *)
(* %dul : decimal of a uint64 *)
Fixpoint dec_aux (fuel : nat) (n : N) (acc : str) : str :=
  match fuel with
  | O => acc
  | S f => let acc' := (48 + n mod 10) :: acc in
           if n <? 10 then acc' else dec_aux f (n / 10) acc'
  end.
Definition dec (n : N) : str := dec_aux (S (N.size_nat n)) n [].

Definition hexdigit (d : N) : N := if d <? 10 then 48 + d else 87 + d.
(* fmt.Sprintf("%08x", uint32) *)
Fixpoint hexk (k : nat) (n : N) : str :=
  match k with
  | O => []
  | S k' => hexk k' (n / 16) ++ [hexdigit (n mod 16)]
  end.
Definition hex8 (n : N) : str := hexk 8 n.

(** ** CRC-32/IEEE (hash/crc32.ChecksumIEEE), bitwise, reflected polynomial 0xEDB88320 *)
Definition crc_poly : N := 3988292384.
Definition crc_mask : N := 4294967295.
Definition crc_step (c : N) : N :=
  if N.odd c then N.lxor (N.shiftr c 1) crc_poly else N.shiftr c 1.
Definition crc_byte (c b : N) : N :=
  let c := N.lxor c b in
  crc_step (crc_step (crc_step (crc_step (crc_step (crc_step (crc_step (crc_step c))))))).
Definition crc32 (s : str) : N := N.lxor (fold_left crc_byte s crc_mask) crc_mask.

(** ** Name.String, Constructor.String, TemplateArgument.String *)
Definition print_name (n : name) : str :=
  (if nonempty (n_ns n) then n_ns n ++ [ch_dot] else []) ++ n_name n.

Definition print_constructor (nm : name) (id : N) (explicit : bool) : str :=
  print_name nm ++ (if explicit && negb (id =? 0) then ch_hash :: hex8 id else []).

Definition print_targ (x : targ) : str :=
  if ta_isnat x then [ch_lcur] ++ ta_name x ++ s_nat ++ [ch_rcur]
  else [ch_lcur] ++ ta_name x ++ s_type ++ [ch_rcur].

(** ** Arithmetic.String : numbers joined by " + " *)
Fixpoint print_nums (l : list N) : str :=
  match l with
  | [] => []
  | [x] => dec x
  | x :: r => dec x ++ s_plus ++ print_nums r
  end.
Definition print_arith (a : arith) : str := print_nums (a_nums a).

(** ** TypeRef.String / ArithmeticOrType.String *)
Fixpoint print_tr (t : typeref) : str :=
  match t with
  | TypeRef ty args bare =>
      (if bare then [ch_pct] else []) ++
      match args with
      | [] => print_name ty
      | _ => [ch_lpar] ++ print_name ty ++
             (fix go (l : list aot) : str :=
                match l with
                | [] => []
                | Aot isar ar t' :: r =>
                    ch_space :: (if isar then print_arith ar else print_tr t') ++ go r
                end) args ++ [ch_rpar]
      end
  end.
Definition print_aot (x : aot) : str :=
  match x with Aot isar ar t => if isar then print_arith ar else print_tr t end.

(** TypeRef.TopLevelString *)
Definition print_tr_top (t : typeref) : str :=
  match t with
  | TypeRef ty args bare =>
      (if bare then [ch_pct] else []) ++ print_name ty ++ flat_map (fun x => ch_space :: print_aot x) args
  end.

(** ** unicode.IsLower(rune(b)) for a byte b (Latin-1 range of the Unicode tables) *)
Definition is_lower (b : N) : bool :=
  ((97 <=? b) && (b <=? 122)) || (b =? 181) || ((223 <=? b) && (b <=? 255) && negb (b =? 247)).

(** ** TypeRef.toCrc32 / ArithmeticOrType.toCrc32 *)
Definition bare_marker (ty : name) (bare : bool) : bool :=
  bare && match n_name ty with [] => true | b :: _ => negb (is_lower b) end.

Fixpoint crc_tr (t : typeref) : str :=
  match t with
  | TypeRef ty args bare =>
      (if bare_marker ty bare then [ch_pct] else []) ++ print_name ty ++
      (fix go (l : list aot) : str :=
         match l with
         | [] => []
         | Aot isar ar t' :: r => ch_space :: (if isar then dec (a_res ar) else crc_tr t') ++ go r
         end) args
  end.
Definition crc_aot (x : aot) : str :=
  match x with Aot isar ar t => if isar then dec (a_res ar) else crc_tr t end.

(** ** FieldMask.String, ScaleFactor.String *)
Definition print_mask (m : fieldmask) : str := m_name m ++ [ch_dot] ++ dec (m_bit m) ++ [ch_qm].
Definition print_mask_opt (m : option fieldmask) : str :=
  match m with Some m => print_mask m | None => [] end.
Definition print_scale (s : scalefactor) : str :=
  if s_isarith s then [ch_lpar] ++ print_arith (s_arith s) ++ [ch_rpar] else s_scale s.
Definition print_fname (n : str) : str := if nonempty n then n ++ [ch_colon] else [].

(** ** Field.String with RepeatWithScale.String inlined *)
Fixpoint print_field (f : field) : str :=
  match f with
  | Field fname mask excl isrep rexp rsc rrep fty =>
      print_fname fname ++ print_mask_opt mask ++ (if excl then [ch_excl] else []) ++
      if isrep then
        (if rexp then print_scale rsc ++ [ch_star] else []) ++ [ch_lsq] ++
        (fix go (first : bool) (l : list field) : str :=
           match l with
           | [] => []
           | g :: r => (if first then [] else [ch_space]) ++ print_field g ++ go false r
           end) true rrep ++ [ch_rsq]
      else print_tr fty
  end.

(** ** RepeatWithScale.toCrc32 of the ScaleRepeat of field [f] *)
Definition crc_scale (rexp : bool) (rsc : scalefactor) : str :=
  if rexp then (if s_isarith rsc then dec (a_res (s_arith rsc)) else s_scale rsc) ++ [ch_star] else [].

Fixpoint crc_rws (f : field) : str :=
  match f with
  | Field _ _ _ _ rexp rsc rrep _ =>
      crc_scale rexp rsc ++ [ch_lsq] ++
      (fix go (l : list field) : str :=
         match l with
         | [] => []
         | g :: r =>
             ch_space ::
             (match g with
              | Field gname _ _ gisrep _ _ _ _ =>
                  if gisrep then print_fname gname ++ crc_rws g else print_field g
              end) ++ go r
         end) rrep ++ s_sp_rsq
  end.

(** Field.ToCrc32 (used by canonicalFormWithTag) *)
Definition crc_field (f : field) : str :=
  match f with
  | Field fname mask _ isrep _ _ _ fty =>
      print_fname fname ++ print_mask_opt mask ++ (if isrep then crc_rws f else crc_tr fty)
  end.

(** TypeDeclaration.String *)
Definition print_typedecl (d : typedecl) : str :=
  print_name (td_name d) ++ flat_map (fun x => ch_space :: x) (td_args d).

(** ** Combinator.String *)
Definition print1 (c : comb) : str :=
  flat_map (fun m => [ch_at] ++ m ++ [ch_space]) (c_mods c) ++
  print_constructor (c_name c) (c_id c) (c_explicit c) ++ [ch_space] ++
  flat_map (fun x => print_targ x ++ [ch_space]) (c_targs c) ++
  (if c_builtin c then s_qm else flat_map (fun x => print_field x ++ [ch_space]) (c_fields c)) ++
  s_eq ++
  (if c_isfunc c then print_tr_top (c_funcdecl c) else print_typedecl (c_typedecl c)) ++
  [ch_semi].

(** ** TL.String : combinators one per line, section markers where function-ness changes *)
Fixpoint print_tl_aux (fsec : bool) (l : list comb) : str :=
  match l with
  | [] => []
  | c :: r =>
      (if c_isfunc c && negb fsec then cn_functionsSectionString ++ [ch_nl] else []) ++
      (if negb (c_isfunc c) && fsec then cn_typesSectionString ++ [ch_nl] else []) ++
      print1 c ++ [ch_nl] ++ print_tl_aux (c_isfunc c) r
  end.
Definition print_tl (l : list comb) : str := print_tl_aux false l.

(** ** Combinator.canonicalForm (the per-field part is written out in the template; same text as Field.ToCrc32) *)
Definition canon_field (f : field) : str :=
  match f with
  | Field fname mask _ isrep _ _ _ fty =>
      print_fname fname ++ print_mask_opt mask ++ (if isrep then crc_rws f else crc_tr fty)
  end.

Definition canon_result (c : comb) : str :=
  if c_isfunc c then crc_tr (c_funcdecl c) else print_typedecl (c_typedecl c).

Definition canon (c : comb) : str :=
  print_name (c_name c) ++ [ch_space] ++
  flat_map (fun x => ta_name x ++ (if ta_isnat x then s_nat_sp else s_type_sp)) (c_targs c) ++
  (if c_builtin c then s_qm else []) ++
  flat_map (fun x => canon_field x ++ [ch_space]) (c_fields c) ++
  s_eq ++ canon_result c.

(** ** tags: parseCombinator stores crc32(canonicalForm) in Construct.ID unless the tag is explicit *)
Definition gen_crc (c : comb) : N := crc32 (canon c).                     (* Combinator.GenCrc32 *)
Definition tag (c : comb) : N := if c_explicit c then c_id c else gen_crc c.
(** what the parser establishes about the stored ID *)
Definition parsed_id (c : comb) : bool := c_explicit c || (c_id c =? gen_crc c).

(** ** canonicalFormWithTag *)
(* modifierToFlag of a one-element slice *)
Definition mod_flag (m : str) : N :=
  if str_eqb m s_any then 0
  else if str_eqb m s_read then 1
  else if str_eqb m s_write then 2
  else if str_eqb m s_readwrite then 3
  else if str_eqb m s_internal then 4
  else if str_eqb m s_kphp then 8
  else 0.

(* sort.Slice on at most 12 elements is a stable insertion sort (insertionSortLessFunc) *)
Fixpoint mod_insert (x : str) (l : list str) : list str :=
  match l with
  | [] => [x]
  | y :: r => if mod_flag x <? mod_flag y then x :: y :: r else y :: mod_insert x r
  end.
Definition mod_sort (l : list str) : list str := fold_left (fun acc x => mod_insert x acc) l [].

Definition line_mods (ms : list str) : list str :=
  let sorted := mod_sort ms in
  let have_kphp := existsb (fun m => str_eqb m s_atkphp) sorted in
  if have_kphp && negb (match sorted with m :: _ => str_eqb m s_atany | [] => false end)
  then s_atany :: sorted else sorted.

Definition canon_line (c : comb) : str :=
  flat_map (fun m => [ch_at] ++ m ++ [ch_space]) (line_mods (c_mods c)) ++
  print_name (c_name c) ++ [ch_hash] ++ hex8 (c_id c) ++ [ch_space] ++
  flat_map (fun x => [ch_lcur] ++ ta_name x ++ (if ta_isnat x then s_nat else s_type) ++ s_rcur_sp) (c_targs c) ++
  (if c_builtin c then s_qm else []) ++
  flat_map (fun x => crc_field x ++ [ch_space]) (c_fields c) ++
  s_eq ++ canon_result c.

(** ** Generate2TL: five fixed lines, then one line per combinator not named int/long/float/double/string;
    each line is followed by " //  <file of the combinator>" *)
Definition builtin_lines : str :=
  [105;110;116;35;97;56;53;48;57;98;100;97;32;63;32;61;32;73;110;116;10] ++
  [108;111;110;103;35;50;50;48;55;54;99;98;97;32;63;32;61;32;76;111;110;103;10] ++
  [102;108;111;97;116;35;56;50;52;100;97;98;50;50;32;63;32;61;32;70;108;111;97;116;10] ++
  [100;111;117;98;108;101;35;50;50;49;48;99;49;53;52;32;63;32;61;32;68;111;117;98;108;101;10] ++
  [115;116;114;105;110;103;35;98;53;50;56;54;101;50;52;32;63;32;61;32;83;116;114;105;110;103;10].

Definition is_prim_name (n : name) : bool :=
  let s := print_name n in
  str_eqb s s_int || str_eqb s s_long || str_eqb s s_float || str_eqb s s_double || str_eqb s s_string.

Definition listed (fc : str * comb) : bool := negb (is_prim_name (c_name (snd fc))).

Definition listing_line (fc : str * comb) : str :=
  canon_line (snd fc) ++ s_comment ++ fst fc ++ [ch_nl].

Definition listing (l : list (str * comb)) : str :=
  builtin_lines ++ flat_map listing_line (filter listed l).

(** ** Shape of the ASTs the parser produces (hypothesis of the theorems; evaluated on every dumped AST by the
    correspondence run).  Identifiers are what the lexer accepts as names: a letter or '_' followed by letters,
    digits and '_'. *)
Definition is_letter (b : N) : bool := ((97 <=? b) && (b <=? 122)) || ((65 <=? b) && (b <=? 90)).
Definition is_digit (b : N) : bool := (48 <=? b) && (b <=? 57).
Definition is_idstart (b : N) : bool := is_letter b || (b =? 95).
Definition is_idchar (b : N) : bool := is_letter b || is_digit b || (b =? 95).
Definition is_ident (s : str) : bool :=
  match s with
  | [] => false
  | b :: r => is_idstart b && forallb is_idchar r
  end.

Definition wf_name (n : name) : bool :=
  (match n_ns n with [] => true | _ => is_ident (n_ns n) end) && is_ident (n_name n).
Definition is_hash_name (n : name) : bool := negb (nonempty (n_ns n)) && str_eqb (n_name n) [ch_hash].
Definition empty_name (n : name) : bool := negb (nonempty (n_ns n)) && negb (nonempty (n_name n)).
Definition empty_tr (t : typeref) : bool :=
  match t with TypeRef n args bare => empty_name n && negb (nonempty args) && negb bare end.
Definition empty_arith (a : arith) : bool := negb (nonempty (a_nums a)) && (a_res a =? 0).

Definition sumN (l : list N) : N := fold_right N.add 0 l.
Definition wf_arith (a : arith) : bool :=
  nonempty (a_nums a) && (a_res a =? sumN (a_nums a)) && (a_res a <? 4294967295).

Fixpoint wf_tr (t : typeref) : bool :=
  match t with
  | TypeRef ty args bare =>
      if is_hash_name ty then negb bare && negb (nonempty args)
      else wf_name ty &&
           (fix go (l : list aot) : bool :=
              match l with
              | [] => true
              | Aot isar ar t' :: r =>
                  (if isar then wf_arith ar && empty_tr t' else empty_arith ar && wf_tr t') && go r
              end) args
  end.
Definition wf_aot (x : aot) : bool :=
  match x with Aot isar ar t => if isar then wf_arith ar && empty_tr t else empty_arith ar && wf_tr t end.

Definition wf_mask (m : option fieldmask) : bool :=
  match m with None => true | Some m => is_ident (m_name m) && (m_bit m <? 4294967296) end.
Definition wf_scale (rexp : bool) (s : scalefactor) : bool :=
  if rexp then
    (if s_isarith s then wf_arith (s_arith s) && negb (nonempty (s_scale s))
     else empty_arith (s_arith s) && is_ident (s_scale s))
  else negb (s_isarith s) && empty_arith (s_arith s) && negb (nonempty (s_scale s)).

Fixpoint wf_field (f : field) : bool :=
  match f with
  | Field fname mask excl isrep rexp rsc rrep fty =>
      (match fname with [] => true | _ => is_ident fname end) && wf_mask mask &&
      if isrep then
        wf_scale rexp rsc && empty_tr fty &&
        (fix go (l : list field) : bool :=
           match l with [] => true | g :: r => wf_field g && go r end) rrep
      else wf_scale false rsc && negb rexp && negb (nonempty rrep) && wf_tr fty
  end.

Definition wf_comb (c : comb) : bool :=
  forallb is_ident (c_mods c) && wf_name (c_name c) && (c_id c <? 4294967296) &&
  forallb (fun x => is_ident (ta_name x)) (c_targs c) &&
  forallb wf_field (c_fields c) &&
  (if c_isfunc c then wf_tr (c_funcdecl c)
   else wf_name (td_name (c_typedecl c)) && forallb is_ident (td_args (c_typedecl c)) && empty_tr (c_funcdecl c)) &&
  parsed_id c.
