(** Lint family (C24, C28, C29, C30): executable models, no proofs.

    Part 1 (C24): the tag-collision check of the kernel
      (internal/pure/kernel.go [checkTagCollisions]) and of the legacy generator
      (internal/tlcodegen/tlgen.go [checkTagCollisions]).

    Part 2 (C29/C30/C28): the backward-compatibility linter
      internal/tlcodegen/tlgen.go: [extractTypes], [checkNatUsages] (the four maps the linter
      reads), [CheckBackwardCompatibility], [checkCombinatorsBackwardCompatibility] with its
      local [compareTypes], [checkIsSelectedBitAvailable], [getUsedBitsForFieldMask],
      [checkAllTypeRefs].
    The model is a transcription: same branches, same order, first error wins.  The AST is the
    part of tlast.Combinator the linter reads (names as the strings [Name.String()] returns).

    The code is modelled AS IT IS.  The record [fixes] switches on the proposed repairs
    (F2: compare the bare flag; F3: reject a shorter argument list instead of indexing out
    of range; repeat: compare the bracket part of repeated fields); [lint] = no repair,
    [lint_fixed] = all repairs.

    What is not modelled: error positions/texts (only which error), and panics of
    [checkNatUsages] on schemas that the generator itself rejects (template arity
    mismatches); the correspondence is run on pairs of schemas each accepted on its own. *)
From Coq Require Import String List NArith ZArith Bool Arith.
Import ListNotations.
Open Scope string_scope.
Open Scope list_scope.

(* ------------------------------------------------------------------ C24: tags *)

Inductive tkind := K1 (* TL1 constructor or function *) | K2 (* TL2 declaration; tag = explicit magic, 0 = none *).
Record tagent := mkTagEnt { te_name : string; te_tag : N; te_kind : tkind }.
Inductive tagres := TagsOk | TagZero (name : string) | TagDup (name : string) (tag : N).

Definition memN (x : N) (l : list N) : bool := existsb (N.eqb x) l.

(** kernel.go checkTagCollisions: one map [constructorTags] filled while walking the TL1
    combinators, then the TL2 declarations (a TL2 magic 0 means "no magic" and is skipped). *)
Fixpoint tags_check_from (seen : list N) (l : list tagent) : tagres :=
  match l with
  | [] => TagsOk
  | e :: r =>
    match te_kind e with
    | K1 =>
      if N.eqb (te_tag e) 0 then TagZero (te_name e)
      else if memN (te_tag e) seen then TagDup (te_name e) (te_tag e)
      else tags_check_from (te_tag e :: seen) r
    | K2 =>
      if N.eqb (te_tag e) 0 then tags_check_from seen r
      else if memN (te_tag e) seen then TagDup (te_name e) (te_tag e)
      else tags_check_from (te_tag e :: seen) r
    end
  end.
Definition tags_check (l : list tagent) : tagres := tags_check_from [] l.
Definition tags_ok (l : list tagent) : bool :=
  match tags_check l with TagsOk => true | _ => false end.

(** tlgen.go checkTagCollisions (legacy generator): TL1 combinators only, same two tests. *)
Fixpoint tags_check_legacy_from (seen : list N) (l : list (string * N)) : tagres :=
  match l with
  | [] => TagsOk
  | (name, tag) :: r =>
    if N.eqb tag 0 then TagZero name
    else if memN tag seen then TagDup name tag
    else tags_check_legacy_from (tag :: seen) r
  end.
Definition tags_check_legacy (l : list (string * N)) : tagres := tags_check_legacy_from [] l.

(** the entries the kernel's check gives meaning to *)
Definition te_effective (e : tagent) : bool :=
  match te_kind e with K1 => true | K2 => negb (N.eqb (te_tag e) 0) end.

(* ------------------------------------------------------------------ linter AST *)

(** tlast.ArithmeticOrType / tlast.TypeRef *)
Inductive ty :=
| TNat (n : N)                                        (* IsArith, Arith.Res *)
| TRef (name : string) (bare : bool) (args : list ty). (* T: Type.String(), Bare, Args *)

Definition ty_name (t : ty) : string := match t with TRef n _ _ => n | TNat _ => "" end.
Definition ty_bare (t : ty) : bool := match t with TRef _ b _ => b | TNat _ => false end.
Definition ty_args (t : ty) : list ty := match t with TRef _ _ a => a | TNat _ => [] end.

Record field := mkField {
  f_name : string;
  f_mask : option (string * N);   (* Mask.MaskName, Mask.BitNumber *)
  f_rep  : string;                (* "" unless IsRepeated: printed ScaleRepeat (the linter never looks at it) *)
  f_ty   : ty }.                  (* FieldType (the empty TypeRef for repeated fields) *)
Record targ := mkTArg { ta_name : string; ta_nat : bool }.
Record comb := mkComb {
  c_name : string;       (* Construct.Name.String() *)
  c_tag : N;             (* Construct.ID *)
  c_builtin : bool;
  c_fun : bool;
  c_targs : list targ;
  c_fields : list field;
  c_tname : string;      (* TypeDecl.Name.String() *)
  c_res : ty }.          (* FuncDecl *)
Definition schema := list comb.

Definition dflt_targ := mkTArg "" false.

(* ------------------------------------------------------------------ small helpers *)

Fixpoint find_last {A} (p : A -> bool) (l : list A) : option A :=
  match l with
  | [] => None
  | x :: r => match find_last p r with Some y => Some y | None => if p x then Some x else None end
  end.

Fixpoint find_index_from {A} (p : A -> bool) (l : list A) (i : nat) : option nat :=
  match l with
  | [] => None
  | x :: r => if p x then Some i else find_index_from p r (S i)
  end.
Definition find_index {A} (p : A -> bool) (l : list A) : option nat := find_index_from p l 0.

Fixpoint dedup_str (seen : list string) (l : list string) : list string :=
  match l with
  | [] => []
  | x :: r => if existsb (String.eqb x) seen then dedup_str seen r else x :: dedup_str (x :: seen) r
  end.

Definition key := (string * nat)%type.
Definition key_eqb (a b : key) : bool := String.eqb (fst a) (fst b) && Nat.eqb (snd a) (snd b).
Definition mem_key (k : key) (l : list key) : bool := existsb (key_eqb k) l.

Definition nonempty {A} (l : list A) : bool := match l with [] => false | _ => true end.

(* ------------------------------------------------------------------ extractTypes *)

Definition is_type (c : comb) : bool := negb (c_builtin c) && negb (c_fun c).
Definition types_of (tl : schema) (name : string) : list comb :=
  filter (fun c => is_type c && String.eqb (c_tname c) name) tl.
Definition type_order (tl : schema) : list string :=
  dedup_str [] (map c_tname (filter is_type tl)).
Definition function_of (tl : schema) (name : string) : option comb :=
  find_last (fun c => c_fun c && String.eqb (c_name c) name) tl.
Definition fun_order (tl : schema) : list string := map c_name (filter c_fun tl).

(** the values of the Go map [functions] (one per name: the last declaration) *)
Definition fun_values (tl : schema) : list comb :=
  flat_map (fun n => match function_of tl n with Some c => [c] | None => [] end)
           (dedup_str [] (fun_order tl)).

(** every combinator the analysis loops visit: "for typeName in order, for combinator in
    types[typeName]" then "for combinator in functions" *)
Definition proc_list (tl : schema) : list comb :=
  flat_map (types_of tl) (type_order tl) ++ fun_values tl.

(** typeRefsToTypeNames: t -> t and constructor -> t, later assignments overwrite *)
Definition tref_assignments (tl : schema) : list (string * string) :=
  flat_map (fun T => (T, T) :: map (fun c => (c_name c, T)) (types_of tl T)) (type_order tl).
Definition tref_lookup (asg : list (string * string)) (n : string) : option string :=
  match find_last (fun p => String.eqb (fst p) n) asg with Some p => Some (snd p) | None => None end.

(* ------------------------------------------------------------------ checkNatUsages, block 1 (DFS) *)

(** typeNameToTypeArguments (A: bits used in the layout below a type's nat argument) and
    typeArgumentToAffectedTypeArguments (B: the type arguments it is passed on to), computed
    by the Go code's depth-first walk, which is run twice over the same roots, the second
    time keeping the maps of the first ("repeat to get all values missed in recursion"). *)
Record dstate := mkDState {
  ds_vis : list key;
  ds_A : list (key * list N);
  ds_B : list (key * list key) }.

Definition assoc_get {V} (k : key) (m : list (key * list V)) : list V :=
  match find (fun p => key_eqb (fst p) k) m with Some p => snd p | None => [] end.
Fixpoint assoc_add {V} (k : key) (v : list V) (m : list (key * list V)) : list (key * list V) :=
  match m with
  | [] => [(k, v)]
  | (k', v') :: r => if key_eqb k' k then (k', v' ++ v) :: r else (k', v') :: assoc_add k v r
  end.

Definition getA (k : key) (st : dstate) := assoc_get k (ds_A st).
Definition getB (k : key) (st : dstate) := assoc_get k (ds_B st).
Definition addA (k : key) (v : list N) (st : dstate) := mkDState (ds_vis st) (assoc_add k v (ds_A st)) (ds_B st).
Definition addB (k : key) (v : list key) (st : dstate) := mkDState (ds_vis st) (ds_A st) (assoc_add k v (ds_B st)).
Definition visited (k : key) (st : dstate) := mem_key k (ds_vis st).
Definition mark (k : key) (st : dstate) := mkDState (k :: ds_vis st) (ds_A st) (ds_B st).

(** iterateTypeRefArgs of block 1 *)
Fixpoint iter_ref (fillf : string -> nat -> dstate -> dstate) (look : string -> option string)
         (searching : string) (fT : string) (fI : nat) (t : ty) (st : dstate) {struct t} : dstate :=
  match t with
  | TNat _ => st
  | TRef name _ args =>
    let tn := look name in
    (fix go (args : list ty) (i : nat) (st : dstate) {struct args} : dstate :=
       match args with
       | [] => st
       | a :: rest =>
         let st' :=
           match a with
           | TNat _ => st
           | TRef an _ _ =>
             if String.eqb an searching then
               match tn with
               | Some typeName =>
                 let st1 := if visited (typeName, i) st then st else fillf typeName i st in
                 let st2 := addA (fT, fI) (getA (typeName, i) st1) st1 in
                 addB (fT, fI) ((typeName, i) :: getB (typeName, i) st2) st2
               | None => st
               end
             else iter_ref fillf look searching fT fI a st
           end in
         go rest (S i) st'
       end) args 0%nat st
  end.

(** fillUsages *)
Fixpoint fill (tl : schema) (look : string -> option string) (fuel : nat)
         (T : string) (i : nat) (st : dstate) {struct fuel} : dstate :=
  match fuel with
  | O => st
  | S fuel' =>
    if visited (T, i) st then st else
    let st := mark (T, i) st in
    let cs := types_of tl T in
    let searching := match cs with c0 :: _ => ta_name (nth i (c_targs c0) dflt_targ) | [] => "" end in
    fold_left (fun st c =>
      fold_left (fun st f =>
        let st := match f_mask f with
                  | Some (m, b) => if String.eqb m (ta_name (nth i (c_targs c) dflt_targ)) then addA (T, i) [b] st else st
                  | None => st
                  end in
        iter_ref (fill tl look fuel') look searching T i (f_ty f) st) (c_fields c) st) cs st
  end.

Fixpoint nat_indices_from (l : list targ) (i : nat) : list nat :=
  match l with
  | [] => []
  | a :: r => if ta_nat a then i :: nat_indices_from r (S i) else nat_indices_from r (S i)
  end.
Definition nat_roots (tl : schema) : list key :=
  flat_map (fun T => match types_of tl T with
                     | c0 :: _ => map (fun i => (T, i)) (nat_indices_from (c_targs c0) 0)
                     | [] => [] end) (type_order tl).

Fixpoint ty_max_args (t : ty) : nat :=
  match t with
  | TNat _ => 0
  | TRef _ _ args => Nat.max (length args) (fold_right (fun a m => Nat.max (ty_max_args a) m) 0 args)
  end.
Definition comb_max_args (c : comb) : nat :=
  Nat.max (length (c_targs c))
    (Nat.max (ty_max_args (c_res c)) (fold_right (fun f m => Nat.max (ty_max_args (f_ty f)) m) 0 (c_fields c))).
Definition dfs_fuel (tl : schema) : nat :=
  S (length tl * S (fold_right (fun c m => Nat.max (comb_max_args c) m) 0 tl)).

Definition run_pass (tl : schema) (look : string -> option string) (st : dstate) : dstate :=
  fold_left (fun st k => fill tl look (dfs_fuel tl) (fst k) (snd k) st) (nat_roots tl) st.

Record natinfo := mkNatInfo {
  ni_tl : schema;
  ni_asg : list (string * string);
  ni_A : list (key * list N);
  ni_B : list (key * list key) }.

Definition check_nat_usages (tl : schema) : natinfo :=
  let asg := tref_assignments tl in
  let look := tref_lookup asg in
  let st1 := run_pass tl look (mkDState [] [] []) in
  let st2 := run_pass tl look (mkDState [] (ds_A st1) (ds_B st1)) in
  mkNatInfo tl asg (ds_A st2) (ds_B st2).

Definition infoA (ni : natinfo) (k : key) : list N := assoc_get k (ni_A ni).
Definition infoB (ni : natinfo) (k : key) : list key := assoc_get k (ni_B ni).
Definition info_look (ni : natinfo) : string -> option string := tref_lookup (ni_asg ni).

(* ------------------------------------------------------------------ checkNatUsages, blocks 2 and 3 *)

(** the positions (type name, argument index) at which the name [searching] is passed as a
    type argument inside [t] (the walk shared by every searchNat closure) *)
Definition hits_args (rec : ty -> list key) (searching : string) (tn : option string)
  : list ty -> nat -> list key :=
  fix go (args : list ty) (i : nat) {struct args} : list key :=
    match args with
    | [] => []
    | a :: rest =>
      (match a with
       | TNat _ => []
       | TRef an _ _ =>
         if String.eqb an searching then match tn with Some T => [(T, i)] | None => [] end
         else rec a
       end) ++ go rest (S i)
    end.
Fixpoint search_hits (look : string -> option string) (searching : string) (t : ty) {struct t} : list key :=
  match t with
  | TNat _ => []
  | TRef name _ args => hits_args (search_hits look searching) searching (look name) args 0%nat
  end.

Definition is_nat_field (f : field) : bool := String.eqb (ty_name (f_ty f)) "#".

(** all hits of nat field [i] of [c]: in the later fields, and for functions in the result *)
Definition field_hits (look : string -> option string) (c : comb) (i : nat) (fi : field) : list key :=
  flat_map (fun fj => search_hits look (f_name fi) (f_ty fj)) (skipn (S i) (c_fields c))
  ++ (if c_fun c then search_hits look (f_name fi) (c_res c) else []).

Definition direct_bits (c : comb) (i : nat) (fi : field) : list N :=
  flat_map (fun fj => match f_mask fj with
                      | Some (m, b) => if String.eqb m (f_name fi) then [b] else []
                      | None => [] end) (skipn (S i) (c_fields c)).

(** combinatorsNatFieldToAffectedBits[c][i] as contributed by the combinator [c] itself *)
Definition nf_contrib (ni : natinfo) (c : comb) (i : nat) : list N :=
  match nth_error (c_fields c) i with
  | Some fi =>
    if is_nat_field fi then
      direct_bits c i fi ++ flat_map (infoA ni) (field_hits (info_look ni) c i fi)
    else []
  | None => []
  end.

(** CombinatorsNatFieldIndexToBitsUsed[name][i]: the entry of a name is reset when a
    combinator of that name is processed, so the last one processed defines it *)
Definition infoC (ni : natinfo) (name : string) (i : nat) : list N :=
  match find_last (fun c => String.eqb (c_name c) name) (proc_list (ni_tl ni)) with
  | Some c => nf_contrib ni c i
  | None => []
  end.

Fixpoint nat_field_indices_from (l : list field) (i : nat) : list (nat * field) :=
  match l with
  | [] => []
  | f :: r => if is_nat_field f then (i, f) :: nat_field_indices_from r (S i) else nat_field_indices_from r (S i)
  end.

Definition hit_reaches (ni : natinfo) (k : key) (h : key) : bool :=
  key_eqb h k || mem_key k (infoB ni h).

(** TypeNameAndArgToAffectingCombinatorsNatFields[T][i] *)
Definition infoD (ni : natinfo) (k : key) : list key :=
  flat_map (fun c =>
    flat_map (fun p : nat * field =>
      if existsb (hit_reaches ni k) (field_hits (info_look ni) c (fst p) (snd p))
      then [(c_name c, fst p)] else [])
      (nat_field_indices_from (c_fields c) 0)) (proc_list (ni_tl ni)).

(** TypeNameAndArgIndexToBitsUsedByNat[T][i] (block 3) *)
Definition infoE (ni : natinfo) (k : key) : list N :=
  flat_map (fun c =>
    flat_map (fun p : nat * field =>
      flat_map (fun h => if hit_reaches ni k h then infoC ni (c_name c) (fst p) else [])
               (field_hits (info_look ni) c (fst p) (snd p)))
      (nat_field_indices_from (c_fields c) 0)) (proc_list (ni_tl ni)).

(* ------------------------------------------------------------------ verdicts *)

Inductive rcode :=
| RCtorRemoved | RCtorsRemoved | RUnionBare | RUnionCtor | RFnRemoved | RNewFnFirst
| RLessFields | RLessTArgs | RRefChanged | RArgChanged | RMaskAdded | RMaskRemoved
| RMaskRef | RMaskBit | RFnAppendNat | RFnUnusedMask | RFnNewMaskUnused | RNewNoMask
| RBitUsed | RAllBitsUsed | RRepChanged.

Inductive verdict := Accept | Reject (c : rcode) | Crash.

Record fixes := mkFixes { fx_bare : bool; fx_args : bool; fx_rep : bool }.
Definition no_fixes := mkFixes false false false.
Definition all_fixes := mkFixes true true true.

(** "first error wins" sequencing *)
Definition andv (a : verdict) (b : verdict) : verdict := match a with Accept => b | _ => a end.
Fixpoint allv {A} (f : A -> verdict) (l : list A) : verdict :=
  match l with
  | [] => Accept
  | x :: r => match f x with Accept => allv f r | v => v end
  end.

(* ------------------------------------------------------------------ getUsedBitsForFieldMask *)

Definition used_bits (oi ni : natinfo) (c : comb) (fid : nat) : list N :=
  match nth_error (c_fields c) fid with
  | Some f =>
    match f_mask f with
    | Some (m, _) =>
      match find_index (fun a => String.eqb (ta_name a) m) (c_targs c) with
      | Some ti =>
        let outer := infoE oi (c_tname c, ti) in
        if nonempty outer then outer else
        let inner := infoA oi (c_tname c, ti) in
        if nonempty inner then inner else
        flat_map (fun cf : key => infoC oi (fst cf) (snd cf)) (infoD ni (c_tname c, ti))
      | None =>
        match find_index (fun g => String.eqb (f_name g) m) (c_fields c) with
        | Some j => infoC oi (c_name c) j
        | None => []
        end
      end
    | None => []
    end
  | None => []
  end.

Definition all_bits : list N := map N.of_nat (seq 0 32).

(** checkIsSelectedBitAvailable *)
Definition bit_check (oi ni : natinfo) (c : comb) (fid : nat) (bit : N) : verdict :=
  let used := used_bits oi ni c fid in
  if nonempty used && memN bit used then
    (if forallb (fun b => memN b used) all_bits then Reject RAllBitsUsed else Reject RBitUsed)
  else Accept.

(* ------------------------------------------------------------------ compareTypes *)

(** fillMapping: fields first (name -> i), then template arguments (name -> -(i+1)) *)
Fixpoint idx_fields (l : list field) (i : Z) : list (string * Z) :=
  match l with [] => [] | f :: r => (f_name f, i) :: idx_fields r (i + 1)%Z end.
Fixpoint idx_targs (l : list targ) (i : Z) : list (string * Z) :=
  match l with [] => [] | a :: r => (ta_name a, (- (i + 1))%Z) :: idx_targs r (i + 1)%Z end.
Definition mapping (c : comb) : list (string * Z) := idx_fields (c_fields c) 0 ++ idx_targs (c_targs c) 0.
Definition map_get (m : list (string * Z)) (s : string) : option Z :=
  match find_last (fun p => String.eqb (fst p) s) m with Some p => Some (snd p) | None => None end.

Definition ref_mismatch (nm om : list (string * Z)) (nname oname : string) : bool :=
  match map_get nm nname, map_get om oname with
  | Some _, None => true
  | None, Some _ => true
  | Some a, Some b => negb (Z.eqb a b)
  | None, None => negb (String.eqb nname oname)
  end.

(** the loop "check all common args in both types" *)
Definition compare_args (cmp : ty -> ty -> verdict) : list ty -> list ty -> verdict :=
  fix go (os ns : list ty) {struct os} : verdict :=
    match os with
    | [] => Accept
    | oa :: os' =>
      match ns with
      | [] => Crash                       (* newType.Args[i]: index out of range *)
      | na :: ns' =>
        match oa, na with
        | TNat x, TNat y => if N.eqb x y then go os' ns' else Reject RArgChanged
        | TNat _, TRef _ _ _ => Reject RArgChanged
        | TRef _ _ _, TNat _ => Reject RArgChanged
        | TRef _ _ _, TRef _ _ _ =>
          match cmp na oa with
          | Accept => go os' ns'
          | v => v
          end
        end
      end
    end.

Fixpoint compare_types (fx : fixes) (nm om : list (string * Z)) (n o : ty) {struct o} : verdict :=
  match o with
  | TNat _ => Accept
  | TRef oname obare oargs =>
    if ref_mismatch nm om (ty_name n) oname
       || (fx_bare fx && negb (Bool.eqb (ty_bare n) obare))                  (* repair F2: one more disjunct *)
       || (fx_args fx && (length (ty_args n) <? length oargs)%nat)           (* repair F3: one more disjunct *)
    then Reject RRefChanged
    else compare_args (compare_types fx nm om) oargs (ty_args n)
  end.

(* ------------------------------------------------------------------ checkCombinatorsBackwardCompatibility *)

Definition mask_get (m : list (string * Z)) (s : string) : Z :=
  match map_get m s with Some z => z | None => 0%Z end.   (* Go: missing key reads 0 *)

Definition check_old_field (fx : fixes) (nm om : list (string * Z)) (nf of : field) : verdict :=
  andv (compare_types fx nm om (f_ty nf) (f_ty of))
  (andv (if fx_rep fx && negb (String.eqb (f_rep nf) (f_rep of)) then Reject RRepChanged else Accept)
  (match f_mask nf, f_mask of with
   | Some _, None => Reject RMaskAdded
   | None, Some _ => Reject RMaskRemoved
   | None, None => Accept
   | Some (nmn, nb), Some (omn, ob) =>
     if negb (Z.eqb (mask_get nm nmn) (mask_get om omn)) then Reject RMaskRef
     else if negb (N.eqb nb ob) then Reject RMaskBit
     else Accept
   end)).

Fixpoint check_old_fields (fx : fixes) (nm om : list (string * Z)) (ns os : list field) {struct os} : verdict :=
  match os with
  | [] => Accept
  | of :: os' =>
    match ns with
    | [] => Accept   (* unreachable: len(new) >= len(old) was checked *)
    | nf :: ns' => andv (check_old_field fx nm om nf of) (check_old_fields fx nm om ns' os')
    end
  end.

Definition has_mask (f : field) : bool := match f_mask f with Some _ => true | None => false end.

(** the part under [if functionCheck]: returns the verdict and the new firstCombinatorToCheck *)
Definition function_part (ni : natinfo) (nc oc : comb) : verdict * nat :=
  let first := length (c_fields oc) in
  let nlen := length (c_fields nc) in
  if c_fun nc && c_fun oc then
    let containsFieldMask := existsb has_mask (c_fields oc) in
    let containsNats := existsb is_nat_field (c_fields oc) in
    if (first <? nlen)%nat && negb containsFieldMask then
      if negb containsNats then
        match nth_error (c_fields nc) first with
        | Some fa =>
          if negb (is_nat_field fa) then (Reject RFnAppendNat, first)
          else if Nat.eqb nlen (S first) && negb (nonempty (infoC ni (c_name nc) first))
               then (Reject RFnUnusedMask, S first)
               else (Accept, S first)
        | None => (Accept, first)
        end
      else
        if (S first <? nlen)%nat then
          match nth_error (c_fields nc) first with
          | Some fa =>
            if is_nat_field fa && negb (has_mask fa) then
              (allv (fun nf => match f_mask nf with
                               | None => Reject RFnNewMaskUnused
                               | Some (m, _) => if String.eqb m (f_name fa) then Accept else Reject RFnNewMaskUnused
                               end) (skipn (S first) (c_fields nc)), S first)
            else (Accept, first)
          | None => (Accept, first)
          end
        else (Accept, first)
    else (Accept, first)
  else (Accept, first).

Fixpoint check_new_fields (oi ni : natinfo) (nc : comb) (i : nat) (fs : list field) : verdict :=
  match fs with
  | [] => Accept
  | f :: r =>
    match f_mask f with
    | None => Reject RNewNoMask
    | Some (_, b) => andv (bit_check oi ni nc i b) (check_new_fields oi ni nc (S i) r)
    end
  end.

Definition check_comb (fx : fixes) (oi ni : natinfo) (nc oc : comb) : verdict :=
  if (length (c_fields nc) <? length (c_fields oc))%nat then Reject RLessFields
  else if (length (c_targs nc) <? length (c_targs oc))%nat then Reject RLessTArgs
  else
    let nm := mapping nc in
    let om := mapping oc in
    andv (check_old_fields fx nm om (c_fields nc) (c_fields oc))
    (let '(v, first) := function_part ni nc oc in
     andv v
     (andv (check_new_fields oi ni nc first (skipn first (c_fields nc)))
           (if c_fun nc && c_fun oc then compare_types fx nm om (c_res nc) (c_res oc) else Accept))).

(* ------------------------------------------------------------------ CheckBackwardCompatibility *)

(** checkBoxUsage for the old single constructor [c0]; note "return checkBoxUsage(arg.T)"
    inside the loop: only the first non-arithmetic argument is looked at *)
Definition first_ref_arg (rec : ty -> verdict) : list ty -> verdict :=
  fix go (args : list ty) {struct args} : verdict :=
    match args with
    | [] => Accept
    | TNat _ :: rest => go rest
    | (TRef _ _ _ as a) :: _ => rec a
    end.
Fixpoint check_box_usage (c0 : comb) (t : ty) {struct t} : verdict :=
  match t with
  | TNat _ => Accept
  | TRef name bare args =>
    if String.eqb name (c_tname c0) && bare then Reject RUnionBare
    else if String.eqb name (c_name c0) then Reject RUnionCtor
    else first_ref_arg (check_box_usage c0) args
  end.

(** checkAllTypeRefs *)
Definition check_all_type_refs (tl : schema) (chk : ty -> verdict) : verdict :=
  allv (fun c => andv (chk (c_res c)) (allv (fun f => chk (f_ty f)) (c_fields c))) tl.

Definition check_type (fx : fixes) (oi ni : natinfo) (oldTL newTL : schema) (T : string) : verdict :=
  let oldCs := types_of oldTL T in
  let newCs := types_of newTL T in
  andv (allv (fun oc =>
          match find_last (fun c => String.eqb (c_name c) (c_name oc)) newCs with
          | None => Reject RCtorRemoved
          | Some nc => check_comb fx oi ni nc oc
          end) oldCs)
  (andv (if (length newCs <? length oldCs)%nat && negb (Nat.eqb (length newCs) 0)
         then Reject RCtorsRemoved else Accept)
        (match oldCs with
         | [c0] => if (1 <? length newCs)%nat then check_all_type_refs oldTL (check_box_usage c0) else Accept
         | _ => Accept
         end)).

Definition check_old_function (fx : fixes) (oi ni : natinfo) (oldTL newTL : schema) (name : string) : verdict :=
  match function_of oldTL name with
  | None => Accept (* unreachable: name comes from oldTL *)
  | Some oc =>
    match function_of newTL name with
    | None => Reject RFnRemoved
    | Some nc => check_comb fx oi ni nc oc
    end
  end.

Definition check_new_function (oldTL newTL : schema) (name : string) : verdict :=
  match function_of oldTL name with
  | Some _ => Accept
  | None =>
    match function_of newTL name with
    | None => Accept
    | Some nc =>
      match c_fields nc with
      | f0 :: _ => if is_nat_field f0 then Accept else Reject RNewFnFirst
      | [] => Accept
      end
    end
  end.

Definition lint_with (fx : fixes) (oldTL newTL : schema) : verdict :=
  let oi := check_nat_usages oldTL in
  let ni := check_nat_usages newTL in
  andv (allv (check_type fx oi ni oldTL newTL) (type_order oldTL))
  (andv (allv (check_old_function fx oi ni oldTL newTL) (fun_order oldTL))
        (allv (check_new_function oldTL newTL) (fun_order newTL))).

Definition lint := lint_with no_fixes.
Definition lint_fixed := lint_with all_fixes.
