(** Lint family: the documented edit classes of C29 / C30 as theorems about [lint_with],
    assembled from Lint/LintProofs.v.  Every "unsafe" theorem is stated for an arbitrary
    position: the edited combinator sits anywhere in the schema ([l1 ++ c :: l2]) and the edited
    field anywhere in its field list. *)
From Coq Require Import String List NArith ZArith Bool Arith Lia.
From TLV Require Import Lint.LintModel Lint.LintProofs.
Import ListNotations.
Open Scope string_scope.
Open Scope list_scope.

(* ------------------------------------------------------------------ C29: single safe edits *)

Theorem accept_add_combinator : forall fx a x,
  wf a -> wf (a ++ [x]) -> new_fun_ok x ->
  (is_type x = true -> forall c0, types_of a (c_tname x) = [c0] -> boxed_only a c0) ->
  lint_with fx a (a ++ [x]) = Accept.
Proof.
  intros fx a x W WX NF BX. apply lint_safe_seq; [exact W|]. apply SS_add; [apply SS_base|assumption..].
Qed.

Theorem accept_append_field : forall fx l1 c l2 f,
  wf (l1 ++ c :: l2) -> field_step_ok (l1 ++ c :: l2) (length l1) c f ->
  lint_with fx (l1 ++ c :: l2) (l1 ++ add_field c f :: l2) = Accept.
Proof.
  intros fx l1 c l2 f W FS. apply lint_safe_seq; [exact W|]. apply SS_field; [apply SS_base|exact FS].
Qed.

(** when is a bit "unused" in purely syntactic terms: the mask is a field [m:#] of the same
    combinator, not shadowed by a template argument, never passed on as a type argument, and no
    field of the combinator is guarded by bit [b] of it *)
Theorem local_mask_ok_syntactic : forall a c j fj f m b,
  wfs a -> In c a -> is_type c || c_fun c = true ->
  f_mask f = Some (m, b) ->
  find_index (fun t => String.eqb (ta_name t) m) (c_targs c) = None ->
  find_index (fun g => String.eqb (f_name g) m) (c_fields c) = Some j ->
  nth_error (c_fields c) j = Some fj -> is_nat_field fj = true -> f_name fj = m ->
  (forall g, In g (c_fields c) -> ~ In m (ty_names (f_ty g))) -> ~ In m (ty_names (c_res c)) ->
  ~ In b (direct_bits c j fj) ->
  local_mask_ok (check_nat_usages a) (add_field c f) f.
Proof.
  intros a c j fj f m b W HI HK HM HT HF HN NF EN NP NR NB. exists m, b, j.
  cbn [add_field c_targs c_fields c_name]. split; [exact HM|]. split; [exact HT|]. split.
  - unfold find_index in *. apply find_index_from_app. exact HF.
  - subst m. rewrite (infoC_not_passed a c j fj W HI HK HN NF NP NR). exact NB.
Qed.

(* ------------------------------------------------------------------ C30: one unsafe edit, anywhere *)

Theorem reject_replace : forall fx l1 c c' l2,
  fx_args fx = true -> wf (l1 ++ c :: l2) -> is_type c || c_fun c = true -> same_head c c' ->
  check_comb fx (check_nat_usages (l1 ++ c :: l2)) (check_nat_usages (l1 ++ c' :: l2)) c' c <> Accept ->
  exists code, lint_with fx (l1 ++ c :: l2) (l1 ++ c' :: l2) = Reject code.
Proof.
  intros fx l1 c c' l2 FX W K SH NA. apply orb_true_iff in K. destruct K as [K|K].
  - apply reject_replace_type; assumption.
  - apply reject_replace_fun; assumption.
Qed.

Theorem reject_remove : forall fx l1 c l2,
  fx_args fx = true -> wf (l1 ++ c :: l2) -> is_type c || c_fun c = true ->
  exists code, lint_with fx (l1 ++ c :: l2) (l1 ++ l2) = Reject code.
Proof.
  intros fx l1 c l2 FX W K. apply orb_true_iff in K. destruct K as [K|K].
  - apply reject_remove_type; assumption.
  - apply reject_remove_fun; assumption.
Qed.

Theorem reject_fewer_fields : forall fx l1 c c' l2,
  fx_args fx = true -> wf (l1 ++ c :: l2) -> is_type c || c_fun c = true -> same_head c c' ->
  (length (c_fields c') < length (c_fields c))%nat ->
  exists code, lint_with fx (l1 ++ c :: l2) (l1 ++ c' :: l2) = Reject code.
Proof.
  intros fx l1 c c' l2 FX W K SH L. apply reject_replace; try assumption.
  rewrite check_comb_less_fields by exact L. discriminate.
Qed.

Theorem reject_fewer_template_arguments : forall fx l1 c c' l2,
  fx_args fx = true -> wf (l1 ++ c :: l2) -> is_type c || c_fun c = true -> same_head c c' ->
  (length (c_targs c') < length (c_targs c))%nat ->
  exists code, lint_with fx (l1 ++ c :: l2) (l1 ++ c' :: l2) = Reject code.
Proof.
  intros fx l1 c c' l2 FX W K SH L. apply reject_replace; try assumption. apply check_comb_less_targs. exact L.
Qed.

(** an existing field, at position [length fs1] of its combinator, is replaced by [nf] *)
Theorem reject_changed_field : forall fx l1 c c' l2 fs1 of nf fs2 fs2',
  fx_args fx = true -> wf (l1 ++ c :: l2) -> is_type c || c_fun c = true -> same_head c c' ->
  c_fields c = fs1 ++ of :: fs2 -> c_fields c' = fs1 ++ nf :: fs2' ->
  check_old_field fx (mapping c') (mapping c) nf of <> Accept ->
  exists code, lint_with fx (l1 ++ c :: l2) (l1 ++ c' :: l2) = Reject code.
Proof.
  intros fx l1 c c' l2 fs1 of nf fs2 fs2' FX W K SH E E' NA. apply reject_replace; try assumption.
  apply (check_comb_field_rejected _ _ _ _ _ (length fs1) of nf); [rewrite E|rewrite E'|exact NA]; rewrite nth_error_app_len; reflexivity.
Qed.

Theorem reject_changed_field_type : forall l1 c c' l2 fs1 of nf fs2 fs2' oname obare oargs nname nbare nargs,
  wf (l1 ++ c :: l2) -> is_type c || c_fun c = true -> same_head c c' ->
  c_fields c = fs1 ++ of :: fs2 -> c_fields c' = fs1 ++ nf :: fs2' ->
  f_ty of = TRef oname obare oargs -> f_ty nf = TRef nname nbare nargs ->
  closed (mapping c) (f_ty of) -> closed (mapping c') (f_ty nf) ->
  ~ ty_prefix (f_ty of) (f_ty nf) ->
  exists code, lint_fixed (l1 ++ c :: l2) (l1 ++ c' :: l2) = Reject code.
Proof.
  intros l1 c c' l2 fs1 of nf fs2 fs2' oname obare oargs nname nbare nargs W K SH E E' TO TN CO CN NP.
  apply (reject_changed_field all_fixes l1 c c' l2 fs1 of nf fs2 fs2'); try assumption; try reflexivity.
  apply check_old_field_type_rejected. rewrite TO, TN in *.
  apply compare_types_rejects_other_type; try assumption. reflexivity.
Qed.

Theorem reject_changed_mask : forall fx l1 c c' l2 fs1 of nf fs2 fs2',
  fx_args fx = true -> wf (l1 ++ c :: l2) -> is_type c || c_fun c = true -> same_head c c' ->
  c_fields c = fs1 ++ of :: fs2 -> c_fields c' = fs1 ++ nf :: fs2' ->
  match f_mask nf, f_mask of with
  | Some _, None => True
  | None, Some _ => True
  | Some (m', b'), Some (m, b) => mask_get (mapping c') m' <> mask_get (mapping c) m \/ b' <> b
  | None, None => False
  end ->
  exists code, lint_with fx (l1 ++ c :: l2) (l1 ++ c' :: l2) = Reject code.
Proof.
  intros fx l1 c c' l2 fs1 of nf fs2 fs2' FX W K SH E E' HM.
  apply (reject_changed_field fx l1 c c' l2 fs1 of nf fs2 fs2'); try assumption.
  apply check_old_field_mask_rejected. exact HM.
Qed.

Theorem reject_changed_repeat : forall l1 c c' l2 fs1 of nf fs2 fs2',
  wf (l1 ++ c :: l2) -> is_type c || c_fun c = true -> same_head c c' ->
  c_fields c = fs1 ++ of :: fs2 -> c_fields c' = fs1 ++ nf :: fs2' -> f_rep nf <> f_rep of ->
  exists code, lint_fixed (l1 ++ c :: l2) (l1 ++ c' :: l2) = Reject code.
Proof.
  intros l1 c c' l2 fs1 of nf fs2 fs2' W K SH E E' NE.
  apply (reject_changed_field all_fixes l1 c c' l2 fs1 of nf fs2 fs2'); try assumption; try reflexivity.
  apply check_old_field_rep_rejected; [reflexivity|exact NE].
Qed.

(** appended to a constructor: a field without mask (possibly after some masked ones) *)
Theorem reject_appended_unmasked : forall fx l1 c c' l2 pre f post,
  fx_args fx = true -> wf (l1 ++ c :: l2) -> is_type c = true -> same_head c c' ->
  c_fields c' = c_fields c ++ pre ++ f :: post -> Forall (fun g => has_mask g = true) pre -> f_mask f = None ->
  exists code, lint_with fx (l1 ++ c :: l2) (l1 ++ c' :: l2) = Reject code.
Proof.
  intros fx l1 c c' l2 pre f post FX W K SH E HP HM. apply reject_replace; try assumption; [rewrite K; reflexivity|].
  apply (check_comb_new_field_rejected _ _ _ _ _ (pre ++ f :: post)); [|exact E|apply check_new_fields_nomask; assumption].
  unfold is_type in K. apply andb_true_iff in K. destruct K as [_ K]. apply negb_true_iff in K. exact K.
Qed.

(** appended to a constructor: a field under a bit of a local mask that a field of the old
    constructor already uses *)
Theorem reject_reused_bit : forall fx l1 c l2 f m b j fj,
  fx_args fx = true -> wfs (l1 ++ c :: l2) -> is_type c = true ->
  f_mask f = Some (m, b) ->
  find_index (fun t => String.eqb (ta_name t) m) (c_targs c) = None ->
  find_index (fun g => String.eqb (f_name g) m) (c_fields c) = Some j ->
  nth_error (c_fields c) j = Some fj -> is_nat_field fj = true ->
  In b (direct_bits c j fj) ->
  exists code, lint_with fx (l1 ++ c :: l2) (l1 ++ add_field c f :: l2) = Reject code.
Proof.
  intros fx l1 c l2 f m b j fj FX W K HM HT HF HN NF HB.
  apply reject_replace; try assumption; [apply wfs_wf; exact W|rewrite K; reflexivity|apply add_field_same_head|].
  apply (check_comb_new_field_rejected _ _ _ _ _ [f]).
  - unfold is_type in K. apply andb_true_iff in K. destruct K as [_ K]. apply negb_true_iff in K. exact K.
  - reflexivity.
  - cbn [check_new_fields]. rewrite HM. intros H. apply andv_accept in H. destruct H as [H _]. revert H.
    apply (bit_check_used _ _ _ _ f m b j).
    + cbn [add_field c_fields]. rewrite nth_error_app_len. reflexivity.
    + exact HM.
    + exact HT.
    + cbn [add_field c_fields]. unfold find_index in *. apply find_index_from_app. exact HF.
    + cbn [add_field c_name]. apply (infoC_has_direct _ c j fj b); try assumption.
      * apply in_or_app. right; left; reflexivity.
      * rewrite K; reflexivity.
Qed.

(** a type with one constructor that some type expression of the old schema uses bare (or
    through its constructor), at a position the linter inspects, gets a second constructor *)
Theorem reject_bare_used_to_union : forall fx a a' c0 c t,
  fx_args fx = true ->
  types_of a (c_tname c0) = [c0] -> (1 < length (types_of a' (c_tname c0)))%nat ->
  In c a -> (t = c_res c \/ exists f, In f (c_fields c) /\ t = f_ty f) -> inspected_bad c0 t ->
  exists code, lint_with fx a a' = Reject code.
Proof.
  intros fx a a' c0 c t FX E L HC HT HB. apply verdict_cases; [exact FX|].
  exact (union_of_bare_used_not_accepted fx a a' c0 c t E L HC HT HB).
Qed.

(** the usage that carries no mark: by the lower-case constructor name, [bare] arbitrary *)
Theorem reject_ctor_name_used_to_union : forall fx a a' c0 c bare args,
  fx_args fx = true ->
  types_of a (c_tname c0) = [c0] -> (1 < length (types_of a' (c_tname c0)))%nat ->
  In c a ->
  (c_res c = TRef (c_name c0) bare args \/ exists f, In f (c_fields c) /\ f_ty f = TRef (c_name c0) bare args) ->
  exists code, lint_with fx a a' = Reject code.
Proof.
  intros fx a a' c0 c bare args FX E L HC HT.
  apply (reject_bare_used_to_union fx a a' c0 c (TRef (c_name c0) bare args) FX E L HC).
  - destruct HT as [H|[f [HF H]]]; [left; symmetry; exact H|right; exists f; split; [exact HF|symmetry; exact H]].
  - apply IB_ctor.
Qed.

(** [nest ws t]: [t] wrapped as the first type argument (after any arithmetic ones) of each of [ws] *)
Fixpoint nest (ws : list (string * bool * list ty * list ty)) (t : ty) : ty :=
  match ws with
  | [] => t
  | (name, bare, nats, rest) :: ws' => TRef name bare (nats ++ nest ws' t :: rest)
  end.

Theorem reject_ctor_name_nested_to_union : forall fx a a' c0 c bare args ws,
  fx_args fx = true ->
  types_of a (c_tname c0) = [c0] -> (1 < length (types_of a' (c_tname c0)))%nat ->
  In c a ->
  Forall (fun w => Forall (fun t => exists n, t = TNat n) (snd (fst w))) ws ->
  (c_res c = nest ws (TRef (c_name c0) bare args) \/
   exists f, In f (c_fields c) /\ f_ty f = nest ws (TRef (c_name c0) bare args)) ->
  exists code, lint_with fx a a' = Reject code.
Proof.
  intros fx a a' c0 c bare args ws FX E L HC HW HT.
  apply (reject_bare_used_to_union fx a a' c0 c (nest ws (TRef (c_name c0) bare args)) FX E L HC).
  - destruct HT as [H|[f [HF H]]]; [left; symmetry; exact H|right; exists f; split; [exact HF|symmetry; exact H]].
  - clear HT. induction HW as [|[[[name b] nats] rest] ws' Hn Hw IH]; cbn [nest]; [apply IB_ctor|].
    apply IB_arg; [exact Hn| |exact IH].
    destruct ws' as [|[[[n2 b2] nats2] rest2] ws'']; cbn [nest]; eexists _, _, _; reflexivity.
Qed.
