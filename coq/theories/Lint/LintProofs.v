(** Lint family: lemmas about the models of Lint/LintModel.v. *)
From Coq Require Import String List NArith ZArith Bool Arith Lia.
From TLV Require Import Lint.LintModel.
Import ListNotations.
Open Scope string_scope.
Open Scope list_scope.

(* ------------------------------------------------------------------ C24: tags *)

Lemma memN_In : forall x l, memN x l = true <-> In x l.
Proof.
  unfold memN. intros x l. rewrite existsb_exists. split.
  - intros [y [Hy E]]. apply N.eqb_eq in E. subst. exact Hy.
  - intros H. exists x. split; [exact H | apply N.eqb_refl].
Qed.

Lemma memN_false : forall x l, memN x l = false <-> ~ In x l.
Proof.
  intros x l. rewrite <- memN_In. destruct (memN x l); split; congruence.
Qed.

Definition eff_tags (l : list tagent) : list N := map te_tag (filter te_effective l).

(** the invariant of the walk: everything accepted so far is in [seen] *)
Lemma tags_check_from_ok : forall l seen,
  tags_check_from seen l = TagsOk <->
  (NoDup (eff_tags l) /\ (forall t, In t (eff_tags l) -> ~ In t seen) /\
   (forall e, In e l -> te_kind e = K1 -> te_tag e <> 0%N)).
Proof.
  induction l as [|e r IH]; intros seen; cbn [tags_check_from].
  - unfold eff_tags; cbn. split; [intros _|reflexivity].
    split; [constructor|]. split; [intros t []|intros e []].
  - unfold eff_tags in *. cbn [filter].
    destruct (te_kind e) eqn:K.
    + (* TL1 *)
      assert (EF : te_effective e = true) by (unfold te_effective; rewrite K; reflexivity).
      rewrite EF. cbn [map]. destruct (N.eqb (te_tag e) 0) eqn:Z.
      * apply N.eqb_eq in Z. split; [discriminate|].
        intros [_ [_ H]]. exfalso. apply (H e); [left; reflexivity|exact K|exact Z].
      * apply N.eqb_neq in Z. destruct (memN (te_tag e) seen) eqn:M.
        -- apply memN_In in M. split; [discriminate|].
           intros [_ [H _]]. exfalso. apply (H (te_tag e)); [left; reflexivity|exact M].
        -- apply memN_false in M. rewrite IH. split.
           ++ intros [ND [FR NZ]]. split; [|split].
              ** constructor; [|exact ND]. intros HI. apply (FR _ HI). left; reflexivity.
              ** intros t [<-|HI]; [exact M|]. intros HS. apply (FR _ HI). right; exact HS.
              ** intros e' [<-|HI] K'; [exact Z|]. apply NZ; assumption.
           ++ intros [ND [FR NZ]]. inversion ND as [|? ? NI ND']; subst. split; [exact ND'|split].
              ** intros t HI [<-|HS]; [exact (NI HI)|]. apply (FR t); [right; exact HI|exact HS].
              ** intros e' HI K'. apply NZ; [right; exact HI|exact K'].
    + (* TL2 *)
      destruct (N.eqb (te_tag e) 0) eqn:Z.
      * assert (EF : te_effective e = false) by (unfold te_effective; rewrite K, Z; reflexivity).
        rewrite EF. rewrite IH. split.
        -- intros [ND [FR NZ]]. split; [exact ND|split; [exact FR|]].
           intros e' [<-|HI] K'; [congruence|]. apply NZ; assumption.
        -- intros [ND [FR NZ]]. split; [exact ND|split; [exact FR|]].
           intros e' HI K'. apply NZ; [right; exact HI|exact K'].
      * assert (EF : te_effective e = true) by (unfold te_effective; rewrite K, Z; reflexivity).
        rewrite EF. cbn [map]. destruct (memN (te_tag e) seen) eqn:M.
        -- apply memN_In in M. split; [discriminate|].
           intros [_ [H _]]. exfalso. apply (H (te_tag e)); [left; reflexivity|exact M].
        -- apply memN_false in M. rewrite IH. split.
           ++ intros [ND [FR NZ]]. split; [|split].
              ** constructor; [|exact ND]. intros HI. apply (FR _ HI). left; reflexivity.
              ** intros t [<-|HI]; [exact M|]. intros HS. apply (FR _ HI). right; exact HS.
              ** intros e' [<-|HI] K'; [congruence|]. apply NZ; assumption.
           ++ intros [ND [FR NZ]]. inversion ND as [|? ? NI ND']; subst. split; [exact ND'|split].
              ** intros t HI [<-|HS]; [exact (NI HI)|]. apply (FR t); [right; exact HI|exact HS].
              ** intros e' HI K'. apply NZ; [right; exact HI|exact K'].
Qed.

(** kernel check, both directions *)
Theorem tags_ok_iff : forall l,
  tags_ok l = true <->
  (NoDup (eff_tags l) /\ forall e, In e l -> te_kind e = K1 -> te_tag e <> 0%N).
Proof.
  intros l. unfold tags_ok, tags_check.
  pose proof (tags_check_from_ok l []) as H.
  destruct (tags_check_from [] l); split; intros H1; try discriminate; try reflexivity.
  - destruct H as [H _]. destruct (H eq_refl) as [ND [_ NZ]]. split; assumption.
  - destruct H as [_ H]. exfalso. assert (X : TagZero name = TagsOk); [|discriminate].
    apply H. destruct H1 as [ND NZ]. split; [exact ND|split; [intros t _ []|exact NZ]].
  - destruct H as [_ H]. exfalso. assert (X : TagDup name tag = TagsOk); [|discriminate].
    apply H. destruct H1 as [ND NZ]. split; [exact ND|split; [intros t _ []|exact NZ]].
Qed.

(** the statement of the property for lists in which every entry carries a tag that counts
    (TL1 combinators, and TL2 declarations with an explicit magic) *)
Theorem tags_ok_iff_explicit : forall l,
  (forall e, In e l -> te_kind e = K2 -> te_tag e <> 0%N) ->
  (tags_ok l = true <-> (NoDup (map te_tag l) /\ forall e, In e l -> te_tag e <> 0%N)).
Proof.
  intros l H2. rewrite tags_ok_iff.
  assert (E : filter te_effective l = l).
  { induction l as [|e r IH]; [reflexivity|]. cbn [filter].
    assert (te_effective e = true) as ->.
    { unfold te_effective. destruct (te_kind e) eqn:K; [reflexivity|].
      apply negb_true_iff. apply N.eqb_neq. apply H2; [left; reflexivity|exact K]. }
    f_equal. apply IH. intros e' HI. apply H2. right; exact HI. }
  unfold eff_tags. rewrite E. split; intros [ND NZ]; (split; [exact ND|]).
  - intros e HI. destruct (te_kind e) eqn:K; [apply NZ|apply H2]; assumption.
  - intros e HI _. apply NZ; exact HI.
Qed.

(** the reported error names a real offender *)
Lemma tags_check_from_zero : forall l seen name,
  tags_check_from seen l = TagZero name ->
  exists e, In e l /\ te_name e = name /\ te_kind e = K1 /\ te_tag e = 0%N.
Proof.
  induction l as [|e r IH]; intros seen name; cbn [tags_check_from]; [discriminate|].
  destruct (te_kind e) eqn:K; destruct (N.eqb (te_tag e) 0) eqn:Z.
  - intros H; inversion H; subst. exists e. apply N.eqb_eq in Z. repeat split; auto. left; reflexivity.
  - destruct (memN (te_tag e) seen); [discriminate|]. intros H. destruct (IH _ _ H) as [e' [HI R]].
    exists e'. split; [right; exact HI|exact R].
  - intros H. destruct (IH _ _ H) as [e' [HI R]]. exists e'. split; [right; exact HI|exact R].
  - destruct (memN (te_tag e) seen); [discriminate|]. intros H. destruct (IH _ _ H) as [e' [HI R]].
    exists e'. split; [right; exact HI|exact R].
Qed.

Lemma tags_check_from_dup : forall l seen name tag,
  tags_check_from seen l = TagDup name tag ->
  exists l1 e l2, l = l1 ++ e :: l2 /\ te_name e = name /\ te_tag e = tag /\ tag <> 0%N /\
                  (In tag seen \/ In tag (eff_tags l1)).
Proof.
  induction l as [|e r IH]; intros seen name tag; cbn [tags_check_from]; [discriminate|].
  assert (STEP : forall seen', tags_check_from seen' r = TagDup name tag ->
            (forall t, In t seen' -> In t seen \/ (te_effective e = true /\ t = te_tag e)) ->
            exists l1 e0 l2, e :: r = l1 ++ e0 :: l2 /\ te_name e0 = name /\ te_tag e0 = tag /\ tag <> 0%N /\
                  (In tag seen \/ In tag (eff_tags l1))).
  { intros seen' H HS. destruct (IH _ _ _ H) as [l1 [e0 [l2 [E [N1 [T1 [NZ D]]]]]]].
    exists (e :: l1), e0, l2. rewrite E. repeat split; auto.
    unfold eff_tags. cbn [filter]. destruct D as [D|D].
    - destruct (HS _ D) as [D'|[EF ->]]; [left; exact D'|]. right. rewrite EF. left; reflexivity.
    - right. destruct (te_effective e); [right|]; exact D. }
  destruct (te_kind e) eqn:K; destruct (N.eqb (te_tag e) 0) eqn:Z.
  - discriminate.
  - destruct (memN (te_tag e) seen) eqn:M.
    + intros H; inversion H; subst. exists [], e, r. apply memN_In in M. apply N.eqb_neq in Z.
      repeat split; auto.
    + intros H. apply (STEP _ H). intros t [<-|HI]; [right|left; exact HI].
      split; [unfold te_effective; rewrite K|]; reflexivity.
  - intros H. apply (STEP _ H). intros t HI. left; exact HI.
  - destruct (memN (te_tag e) seen) eqn:M.
    + intros H; inversion H; subst. exists [], e, r. apply memN_In in M. apply N.eqb_neq in Z.
      repeat split; auto.
    + intros H. apply (STEP _ H). intros t [<-|HI]; [right|left; exact HI].
      split; [unfold te_effective; rewrite K, Z|]; reflexivity.
Qed.

(** the legacy check is the kernel check on TL1-only lists *)
Lemma tags_legacy_eq_from : forall l seen,
  tags_check_legacy_from seen l = tags_check_from seen (map (fun p => mkTagEnt (fst p) (snd p) K1) l).
Proof.
  induction l as [|[n t] r IH]; intros seen; [reflexivity|].
  cbn [tags_check_legacy_from map tags_check_from te_kind te_tag te_name fst snd].
  destruct (N.eqb t 0); [reflexivity|]. destruct (memN t seen); [reflexivity|]. apply IH.
Qed.

Theorem tags_legacy_ok_iff : forall l,
  tags_check_legacy l = TagsOk <-> (NoDup (map snd l) /\ forall p, In p l -> snd p <> 0%N).
Proof.
  intros l. unfold tags_check_legacy. rewrite tags_legacy_eq_from.
  set (l' := map (fun p => mkTagEnt (fst p) (snd p) K1) l).
  assert (T : tags_check_from [] l' = TagsOk <-> tags_ok l' = true).
  { unfold tags_ok, tags_check. destruct (tags_check_from [] l'); split; congruence. }
  rewrite T, tags_ok_iff_explicit.
  - subst l'. rewrite map_map. cbn [te_tag]. split; intros [ND NZ]; (split; [exact ND|]).
    + intros p HI. apply (NZ (mkTagEnt (fst p) (snd p) K1)). apply in_map_iff. exists p. auto.
    + intros e HI. apply in_map_iff in HI. destruct HI as [p [<- HI]]. cbn. apply NZ; exact HI.
  - subst l'. intros e HI K. apply in_map_iff in HI. destruct HI as [p [<- _]]. discriminate.
Qed.

(* ================================================================== part 1 *)


(* ------------------------------------------------------------------ sequencing *)

Lemma andv_accept : forall a b, andv a b = Accept <-> a = Accept /\ b = Accept.
Proof. intros a b; destruct a; cbn; split; try tauto; try discriminate; intros [H _]; discriminate. Qed.

Lemma allv_accept : forall {A} (f : A -> verdict) l, allv f l = Accept <-> forall x, In x l -> f x = Accept.
Proof.
  intros A f l. induction l as [|x r IH]; cbn [allv].
  - split; [intros _ x []|reflexivity].
  - destruct (f x) eqn:E.
    + rewrite IH. split.
      * intros H y [<-|HI]; [exact E|apply H; exact HI].
      * intros H y HI. apply H. right; exact HI.
    + split; [discriminate|]. intros H. rewrite <- E. apply H. left; reflexivity.
    + split; [discriminate|]. intros H. rewrite <- E. apply H. left; reflexivity.
Qed.

Lemma andv_no_crash : forall a b, a <> Crash -> b <> Crash -> andv a b <> Crash.
Proof. intros a b; destruct a; cbn; auto. Qed.

Lemma allv_no_crash : forall {A} (f : A -> verdict) l, (forall x, In x l -> f x <> Crash) -> allv f l <> Crash.
Proof.
  intros A f l. induction l as [|x r IH]; cbn [allv]; intros H; [discriminate|].
  destruct (f x) eqn:E.
  - apply IH. intros y HI. apply H. right; exact HI.
  - discriminate.
  - exfalso. apply (H x); [left; reflexivity|exact E].
Qed.

(* ------------------------------------------------------------------ induction over type expressions *)

Fixpoint ty_ind' (P : ty -> Prop)
  (HN : forall n, P (TNat n))
  (HR : forall name bare args, Forall P args -> P (TRef name bare args)) (t : ty) {struct t} : P t :=
  match t with
  | TNat n => HN n
  | TRef name bare args =>
    HR name bare args
       ((fix go (l : list ty) : Forall P l :=
           match l with
           | [] => Forall_nil P
           | a :: r => Forall_cons a (ty_ind' P HN HR a) (go r)
           end) args)
  end.

(** all names a type expression mentions *)
Fixpoint ty_names (t : ty) : list string :=
  match t with
  | TNat _ => []
  | TRef name _ args => name :: flat_map ty_names args
  end.

(* ------------------------------------------------------------------ compareTypes on identical types *)

Lemma ref_mismatch_same : forall nm om s, map_get nm s = map_get om s -> ref_mismatch nm om s s = false.
Proof.
  intros nm om s E. unfold ref_mismatch. rewrite E. destruct (map_get om s).
  - rewrite Z.eqb_refl. reflexivity.
  - rewrite String.eqb_refl. reflexivity.
Qed.

Lemma compare_args_same : forall (cmp : ty -> ty -> verdict) l,
  Forall (fun a => match a with TRef _ _ _ => cmp a a = Accept | TNat _ => True end) l ->
  compare_args cmp l l = Accept.
Proof.
  intros cmp l H. induction H as [|a r Ha Hr IH]; [reflexivity|].
  cbn [compare_args]. destruct a as [n|nm b args].
  - rewrite N.eqb_refl. exact IH.
  - rewrite Ha. exact IH.
Qed.

Lemma compare_types_same : forall fx nm om t,
  (forall s, In s (ty_names t) -> map_get nm s = map_get om s) ->
  compare_types fx nm om t t = Accept.
Proof.
  intros fx nm om t. induction t as [n|name bare args IH] using ty_ind'; intros HM; [reflexivity|].
  cbn [compare_types ty_name ty_bare ty_args].
  rewrite ref_mismatch_same by (apply HM; left; reflexivity).
  rewrite Bool.eqb_reflx. cbn [negb]. rewrite andb_false_r. cbn [orb].
  rewrite Nat.ltb_irrefl, andb_false_r.
  apply compare_args_same.
  rewrite Forall_forall in *. intros a HI. destruct a as [n|an ab aargs]; [exact I|].
  apply IH; [exact HI|]. intros s Hs. apply HM. right. apply in_flat_map. exists (TRef an ab aargs). split; assumption.
Qed.

Lemma compare_types_refl : forall fx m t, compare_types fx m m t t = Accept.
Proof. intros. apply compare_types_same. reflexivity. Qed.

(* ================================================================== part 2 *)


(* ------------------------------------------------------------------ list helpers *)

Lemma find_last_none : forall {A} (p : A -> bool) l, (forall z, In z l -> p z = false) -> find_last p l = None.
Proof.
  intros A p l. induction l as [|y r IH]; intros H; [reflexivity|]. cbn [find_last].
  rewrite IH by (intros z HI; apply H; right; exact HI). rewrite (H y) by (left; reflexivity). reflexivity.
Qed.

Lemma find_last_some_sat : forall {A} (p : A -> bool) l x, find_last p l = Some x -> In x l /\ p x = true.
Proof.
  intros A p l. induction l as [|y r IH]; intros x; cbn [find_last]; [discriminate|].
  destruct (find_last p r) eqn:E.
  - intros H; inversion H; subst. destruct (IH _ eq_refl) as [HI HP]. split; [right; exact HI|exact HP].
  - destruct (p y) eqn:P; [|discriminate]. intros H; inversion H; subst. split; [left; reflexivity|exact P].
Qed.

Lemma find_last_exists : forall {A} (p : A -> bool) l x, In x l -> p x = true -> exists y, find_last p l = Some y.
Proof.
  intros A p l. induction l as [|y r IH]; intros x []; intros P; cbn [find_last].
  - subst. destruct (find_last p r); [eexists; reflexivity|]. rewrite P. eexists; reflexivity.
  - destruct (IH _ H P) as [z ->]. eexists; reflexivity.
Qed.

(** with pairwise distinct keys, the lookup by key finds the element itself *)
Lemma find_last_unique : forall {A} (g : A -> string) l x,
  NoDup (map g l) -> In x l -> find_last (fun c => String.eqb (g c) (g x)) l = Some x.
Proof.
  intros A g l x. induction l as [|y r IH]; intros ND []; cbn [find_last]; cbn [map] in ND; inversion ND as [|? ? NI ND']; subst.
  - rewrite find_last_none; [rewrite String.eqb_refl; reflexivity|].
    intros z HI. apply String.eqb_neq. intros E. apply NI. rewrite <- E. apply in_map. exact HI.
  - rewrite (IH ND' H). reflexivity.
Qed.

Lemma NoDup_map_filter : forall {A} (g : A -> string) (p : A -> bool) l, NoDup (map g l) -> NoDup (map g (filter p l)).
Proof.
  intros A g p l. induction l as [|y r IH]; intros ND; [constructor|]. cbn [map] in ND. inversion ND as [|? ? NI ND']; subst.
  cbn [filter]. destruct (p y); [|apply IH; exact ND']. cbn [map]. constructor; [|apply IH; exact ND'].
  intros HI. apply NI. apply in_map_iff in HI. destruct HI as [z [E HZ]]. apply filter_In in HZ. rewrite <- E. apply in_map. tauto.
Qed.

Lemma filter_and : forall {A} (p q : A -> bool) l, filter (fun x => p x && q x) l = filter q (filter p l).
Proof.
  intros A p q l. induction l as [|y r IH]; [reflexivity|]. cbn [filter]. destruct (p y); cbn [andb filter]; [destruct (q y)|]; rewrite IH; reflexivity.
Qed.

Lemma skipn_length_app : forall {A} (l e : list A), skipn (length l) (l ++ e) = e.
Proof. intros A l e. induction l; [reflexivity|exact IHl]. Qed.

Lemma in_dedup_str : forall l seen x, In x (dedup_str seen l) <-> (In x l /\ ~ In x seen).
Proof.
  induction l as [|y r IH]; intros seen x; cbn [dedup_str].
  - split; [intros []|intros [[] _]].
  - destruct (existsb (String.eqb y) seen) eqn:E.
    + rewrite IH. apply existsb_exists in E. destruct E as [z [HZ EZ]]. apply String.eqb_eq in EZ. subst z.
      split; [intros [H1 H2]; split; [right; exact H1|exact H2]|].
      intros [[<-|H1] H2]; [contradiction|split; assumption].
    + assert (NS : ~ In y seen).
      { intros HI. assert (X : existsb (String.eqb y) seen = true); [|congruence].
        apply existsb_exists. exists y. split; [exact HI|apply String.eqb_refl]. }
      cbn [In]. rewrite IH. cbn [In]. split.
      * intros [<-|[H1 H2]]; [split; [left; reflexivity|exact NS]|]. split; [right; exact H1|]. intros H; apply H2; right; exact H.
      * intros [[<-|H1] H2]; [left; reflexivity|]. destruct (string_dec y x) as [->|NE]; [left; reflexivity|].
        right. split; [exact H1|]. intros [H|H]; [exact (NE H)|exact (H2 H)].
Qed.

(* ------------------------------------------------------------------ a combinator against itself *)

Definition names_of_field (f : field) : list string :=
  ty_names (f_ty f) ++ match f_mask f with Some (m, _) => [m] | None => [] end.
(** every name through which a combinator's own field list (and result) refers to something *)
Definition names_used (c : comb) : list string :=
  flat_map names_of_field (c_fields c) ++ ty_names (c_res c).

Lemma mask_get_same : forall nm om s, map_get nm s = map_get om s -> mask_get nm s = mask_get om s.
Proof. intros nm om s E. unfold mask_get. rewrite E. reflexivity. Qed.

Lemma check_old_field_same : forall fx nm om f,
  (forall s, In s (names_of_field f) -> map_get nm s = map_get om s) ->
  check_old_field fx nm om f f = Accept.
Proof.
  intros fx nm om f H. unfold check_old_field.
  rewrite compare_types_same by (intros s Hs; apply H; unfold names_of_field; apply in_or_app; left; exact Hs).
  rewrite String.eqb_refl. cbn [negb]. rewrite andb_false_r. cbn [andv].
  destruct (f_mask f) as [[m b]|] eqn:M; [|reflexivity].
  rewrite (mask_get_same nm om m) by (apply H; unfold names_of_field; rewrite M; apply in_or_app; right; left; reflexivity).
  rewrite Z.eqb_refl, N.eqb_refl. reflexivity.
Qed.

Lemma check_old_fields_same : forall fx nm om fs extra,
  (forall f s, In f fs -> In s (names_of_field f) -> map_get nm s = map_get om s) ->
  check_old_fields fx nm om (fs ++ extra) fs = Accept.
Proof.
  intros fx nm om fs extra. induction fs as [|f r IH]; intros H; [reflexivity|].
  cbn [app check_old_fields]. rewrite check_old_field_same by (intros s; apply H; left; reflexivity).
  cbn [andv]. apply IH. intros g s HI. apply H. right; exact HI.
Qed.

Lemma function_part_same_len : forall ni nc oc,
  length (c_fields nc) = length (c_fields oc) -> function_part ni nc oc = (Accept, length (c_fields oc)).
Proof.
  intros ni nc oc E. unfold function_part. rewrite E, Nat.ltb_irrefl. cbn [andb].
  destruct (c_fun nc && c_fun oc); reflexivity.
Qed.

Lemma skipn_all' : forall {A} (l : list A), skipn (length l) l = [].
Proof. intros A l. induction l; [reflexivity|exact IHl]. Qed.

Lemma check_comb_same : forall fx oi ni c, check_comb fx oi ni c c = Accept.
Proof.
  intros fx oi ni c. unfold check_comb. rewrite !Nat.ltb_irrefl.
  rewrite <- (app_nil_r (c_fields c)) at 1. rewrite check_old_fields_same by reflexivity. cbn [andv].
  rewrite function_part_same_len by reflexivity. cbn [andv].
  rewrite skipn_all'. cbn [check_new_fields andv].
  destruct (c_fun c && c_fun c); [apply compare_types_refl|reflexivity].
Qed.

(* ------------------------------------------------------------------ reflexivity *)

Definition wf (a : schema) : Prop :=
  NoDup (map c_name (filter is_type a)) /\ NoDup (map c_name (filter c_fun a)).

Lemma types_of_nodup : forall a T, NoDup (map c_name (filter is_type a)) -> NoDup (map c_name (types_of a T)).
Proof. intros a T H. unfold types_of. rewrite filter_and. apply NoDup_map_filter. exact H. Qed.

Theorem lint_refl : forall fx a, NoDup (map c_name (filter is_type a)) -> lint_with fx a a = Accept.
Proof.
  intros fx a W. unfold lint_with. rewrite !andv_accept. split; [|split].
  - apply allv_accept. intros T _. unfold check_type. rewrite !andv_accept. split; [|split].
    + apply allv_accept. intros oc HI.
      rewrite (find_last_unique c_name (types_of a T) oc (types_of_nodup a T W) HI). apply check_comb_same.
    + rewrite Nat.ltb_irrefl. reflexivity.
    + destruct (types_of a T) as [|c0 [|c1 r]]; reflexivity.
  - apply allv_accept. intros name _. unfold check_old_function.
    destruct (function_of a name); [apply check_comb_same|reflexivity].
  - apply allv_accept. intros name _. unfold check_new_function.
    destruct (function_of a name); reflexivity.
Qed.

(* ================================================================== part 3 *)


(* ------------------------------------------------------------------ mapping of an extended combinator *)

Lemma find_last_app : forall {A} (p : A -> bool) l1 l2,
  find_last p (l1 ++ l2) = match find_last p l2 with Some y => Some y | None => find_last p l1 end.
Proof.
  intros A p l1 l2. induction l1 as [|x r IH]; cbn [app find_last].
  - destruct (find_last p l2); reflexivity.
  - rewrite IH. destruct (find_last p l2); [reflexivity|]. reflexivity.
Qed.

Lemma idx_fields_app : forall l1 l2 i, idx_fields (l1 ++ l2) i = idx_fields l1 i ++ idx_fields l2 (i + Z.of_nat (length l1))%Z.
Proof.
  induction l1 as [|f r IH]; intros l2 i; cbn [app idx_fields length].
  - f_equal. lia.
  - rewrite IH. cbn [app]. do 3 f_equal. lia.
Qed.

Lemma idx_fields_keys : forall l i p, In p (idx_fields l i) -> exists f, In f l /\ fst p = f_name f.
Proof.
  induction l as [|f r IH]; intros i p; cbn [idx_fields]; [intros []|].
  intros [<-|HI]; [exists f; split; [left|]; reflexivity|].
  destruct (IH _ _ HI) as [g [HG E]]. exists g. split; [right; exact HG|exact E].
Qed.

Lemma map_get_ext : forall oc nc extra s,
  c_fields nc = c_fields oc ++ extra -> c_targs nc = c_targs oc ->
  (forall f, In f extra -> f_name f <> s) ->
  map_get (mapping nc) s = map_get (mapping oc) s.
Proof.
  intros oc nc extra s EF ET FR. unfold map_get, mapping. rewrite EF, ET, idx_fields_app.
  rewrite <- app_assoc. rewrite !find_last_app.
  destruct (find_last (fun p => String.eqb (fst p) s) (idx_targs (c_targs oc) 0)); [reflexivity|].
  rewrite find_last_none; [reflexivity|].
  intros p HI. destruct (idx_fields_keys _ _ _ HI) as [f [HF E]]. rewrite E. apply String.eqb_neq. apply FR. exact HF.
Qed.

(* ------------------------------------------------------------------ an extended combinator against the original *)

Lemma check_new_fields_masked : forall oi ni nc i fs,
  check_new_fields oi ni nc i fs = Accept -> forall f, In f fs -> has_mask f = true.
Proof.
  intros oi ni nc i fs. revert i. induction fs as [|f r IH]; intros i H g []; cbn [check_new_fields] in H.
  - subst. unfold has_mask. destruct (f_mask g) as [[m b]|]; [reflexivity|discriminate].
  - destruct (f_mask f) as [[m b]|]; [|discriminate]. apply andv_accept in H. destruct H as [_ H]. apply (IH _ H). assumption.
Qed.

Lemma nth_error_app_len : forall {A} (l e : list A), nth_error (l ++ e) (length l) = nth_error e 0.
Proof. intros A l e. induction l; [reflexivity|exact IHl]. Qed.

Lemma function_part_ext : forall oi ni oc nc extra,
  c_fields nc = c_fields oc ++ extra ->
  (c_fun oc = true -> extra <> [] -> existsb has_mask (c_fields oc) || existsb is_nat_field (c_fields oc) = true) ->
  check_new_fields oi ni nc (length (c_fields oc)) extra = Accept ->
  function_part ni nc oc = (Accept, length (c_fields oc)).
Proof.
  intros oi ni oc nc extra EF FN CN. unfold function_part.
  destruct (c_fun nc && c_fun oc) eqn:F; [|reflexivity].
  apply andb_true_iff in F. destruct F as [_ FO].
  destruct extra as [|fa rest].
  { rewrite EF, app_nil_r, Nat.ltb_irrefl. reflexivity. }
  specialize (FN FO ltac:(discriminate)).
  destruct (length (c_fields oc) <? length (c_fields nc))%nat; [|reflexivity]. cbn [andb].
  destruct (existsb has_mask (c_fields oc)); [reflexivity|]. cbn [negb orb] in *. rewrite FN. cbn [negb].
  destruct (S (length (c_fields oc)) <? length (c_fields nc))%nat; [|reflexivity].
  rewrite EF, nth_error_app_len. cbn [nth_error].
  rewrite (check_new_fields_masked _ _ _ _ _ CN fa) by (left; reflexivity).
  cbn [negb]. rewrite andb_false_r. reflexivity.
Qed.

Lemma check_comb_ext : forall fx oi ni oc nc extra,
  c_fields nc = c_fields oc ++ extra -> c_targs nc = c_targs oc -> c_res nc = c_res oc -> c_fun nc = c_fun oc ->
  (forall f s, In f extra -> In s (names_used oc) -> f_name f <> s) ->
  (c_fun oc = true -> extra <> [] -> existsb has_mask (c_fields oc) || existsb is_nat_field (c_fields oc) = true) ->
  check_new_fields oi ni nc (length (c_fields oc)) extra = Accept ->
  check_comb fx oi ni nc oc = Accept.
Proof.
  intros fx oi ni oc nc extra EF ET ER EFun FR FN CN. unfold check_comb.
  assert (L1 : (length (c_fields nc) <? length (c_fields oc))%nat = false).
  { apply Nat.ltb_ge. rewrite EF, app_length. lia. }
  rewrite L1, ET, Nat.ltb_irrefl.
  assert (MG : forall s, In s (names_used oc) -> map_get (mapping nc) s = map_get (mapping oc) s).
  { intros s Hs. apply (map_get_ext oc nc extra s EF ET). intros f HF. apply FR; assumption. }
  rewrite EF at 1. rewrite check_old_fields_same.
  2:{ intros f s HF Hs. apply MG. unfold names_used. apply in_or_app. left. apply in_flat_map. exists f. split; assumption. }
  cbn [andv]. rewrite (function_part_ext oi ni oc nc extra EF FN CN). cbn [andv].
  rewrite EF, skipn_length_app. rewrite CN. cbn [andv].
  destruct (c_fun nc && c_fun oc); [|reflexivity]. rewrite ER.
  apply compare_types_same. intros s Hs. apply MG. unfold names_used. apply in_or_app. right. exact Hs.
Qed.

(* ================================================================== part 4 *)


(* ------------------------------------------------------------------ appended fields under a local mask *)

(** field [f] is guarded by bit [b] of a field [m:#] of the same combinator (not a template
    argument), and the linter's analysis of the OLD schema does not list [b] for it *)
Definition local_mask_ok (oi : natinfo) (nc : comb) (f : field) : Prop :=
  exists m b j, f_mask f = Some (m, b) /\
    find_index (fun a => String.eqb (ta_name a) m) (c_targs nc) = None /\
    find_index (fun g => String.eqb (f_name g) m) (c_fields nc) = Some j /\
    ~ In b (infoC oi (c_name nc) j).

Lemma bit_check_local : forall oi ni nc fid f m b,
  nth_error (c_fields nc) fid = Some f -> f_mask f = Some (m, b) -> local_mask_ok oi nc f ->
  bit_check oi ni nc fid b = Accept.
Proof.
  intros oi ni nc fid f m b HN HM [m' [b' [j [HM' [HT [HF NI]]]]]].
  rewrite HM in HM'. inversion HM'; subst m' b'.
  unfold bit_check, used_bits. rewrite HN, HM, HT, HF.
  apply memN_false in NI. rewrite NI, andb_false_r. reflexivity.
Qed.

Lemma check_new_fields_local : forall oi ni nc extra pre,
  c_fields nc = pre ++ extra -> Forall (local_mask_ok oi nc) extra ->
  check_new_fields oi ni nc (length pre) extra = Accept.
Proof.
  intros oi ni nc extra. induction extra as [|f r IH]; intros pre EF HA; [reflexivity|].
  inversion HA as [|? ? Hf Hr]; subst. cbn [check_new_fields].
  destruct Hf as [m [b [j [HM R]]]]. rewrite HM.
  rewrite (bit_check_local oi ni nc (length pre) f m b).
  - cbn [andv]. replace (S (length pre)) with (length (pre ++ [f])) by (rewrite app_length; cbn; lia).
    apply IH; [rewrite <- app_assoc; exact EF|exact Hr].
  - rewrite EF, nth_error_app_len. reflexivity.
  - exact HM.
  - exists m, b, j. split; [exact HM|exact R].
Qed.

(* ------------------------------------------------------------------ boxed-only usage *)

Fixpoint ty_refs (t : ty) : list (string * bool) :=
  match t with
  | TNat _ => []
  | TRef n b args => (n, b) :: flat_map ty_refs args
  end.

Definition ref_ok (c0 : comb) (p : string * bool) : Prop :=
  ~ (fst p = c_tname c0 /\ snd p = true) /\ fst p <> c_name c0.

(** every type expression of the schema (field types and results, at any depth) mentions the
    type of [c0] only boxed and never through its constructor *)
Definition boxed_only (a : schema) (c0 : comb) : Prop :=
  forall c, In c a -> forall t, (t = c_res c \/ exists f, In f (c_fields c) /\ t = f_ty f) ->
  forall p, In p (ty_refs t) -> ref_ok c0 p.

Lemma check_box_usage_ok : forall c0 t, (forall p, In p (ty_refs t) -> ref_ok c0 p) -> check_box_usage c0 t = Accept.
Proof.
  intros c0 t. induction t as [n|name bare args IH] using ty_ind'; intros H; [reflexivity|].
  cbn [check_box_usage]. destruct (H (name, bare)) as [H1 H2]; [left; reflexivity|]. cbn [fst snd] in *.
  assert (E1 : String.eqb name (c_tname c0) && bare = false).
  { destruct (String.eqb name (c_tname c0)) eqn:E; [|reflexivity]. destruct bare; [|reflexivity].
    exfalso. apply H1. apply String.eqb_eq in E. split; [exact E|reflexivity]. }
  rewrite E1. apply String.eqb_neq in H2. rewrite H2.
  assert (HA : forall a, In a args -> forall p, In p (ty_refs a) -> ref_ok c0 p).
  { intros a HI p HP. apply H. right. apply in_flat_map. exists a. split; assumption. }
  clear H H1 H2 E1. induction args as [|a r IHr]; [reflexivity|]. cbn [first_ref_arg].
  inversion IH as [|? ? Ha Hr]; subst. destruct a as [n|an ab aargs].
  - apply IHr; [exact Hr|]. intros a HI. apply HA. right; exact HI.
  - apply Ha. apply HA. left; reflexivity.
Qed.

Lemma check_all_type_refs_boxed : forall a c0, boxed_only a c0 -> check_all_type_refs a (check_box_usage c0) = Accept.
Proof.
  intros a c0 H. unfold check_all_type_refs. apply allv_accept. intros c HC. apply andv_accept. split.
  - apply check_box_usage_ok. intros p HP. apply (H c HC (c_res c)); [left; reflexivity|exact HP].
  - apply allv_accept. intros f HF. apply check_box_usage_ok. intros p HP.
    apply (H c HC (f_ty f)); [right; exists f; split; [exact HF|reflexivity]|exact HP].
Qed.

(* ------------------------------------------------------------------ "new combinator extends old combinator" *)

Record comb_ext (oi ni : natinfo) (oc nc : comb) : Prop := mkCombExt {
  ce_name : c_name nc = c_name oc;
  ce_tname : c_tname nc = c_tname oc;
  ce_builtin : c_builtin nc = c_builtin oc;
  ce_fun : c_fun nc = c_fun oc;
  ce_targs : c_targs nc = c_targs oc;
  ce_res : c_res nc = c_res oc;
  ce_fields : exists extra,
    c_fields nc = c_fields oc ++ extra /\
    (forall f s, In f extra -> In s (names_used oc) -> f_name f <> s) /\
    (c_fun oc = true -> extra <> [] -> existsb has_mask (c_fields oc) || existsb is_nat_field (c_fields oc) = true) /\
    check_new_fields oi ni nc (length (c_fields oc)) extra = Accept }.

Lemma comb_ext_refl : forall oi ni c, comb_ext oi ni c c.
Proof.
  intros oi ni c. constructor; try reflexivity. exists []. rewrite app_nil_r. repeat split.
  - intros f s [].
  - intros _ H. contradiction.
Qed.

Lemma comb_ext_check : forall fx oi ni oc nc, comb_ext oi ni oc nc -> check_comb fx oi ni nc oc = Accept.
Proof.
  intros fx oi ni oc nc [_ _ _ EF ET ER [extra [E1 [E2 [E3 E4]]]]].
  apply (check_comb_ext fx oi ni oc nc extra); assumption.
Qed.

Lemma comb_ext_is_type : forall oi ni oc nc, comb_ext oi ni oc nc -> is_type nc = is_type oc.
Proof. intros oi ni oc nc H. unfold is_type. rewrite (ce_builtin _ _ _ _ H), (ce_fun _ _ _ _ H). reflexivity. Qed.

(* ================================================================== part 5 *)


Lemma Forall2_in_l' : forall {A B} (R : A -> B -> Prop) l l' x, Forall2 R l l' -> In x l -> exists y, In y l' /\ R x y.
Proof.
  intros A B R l l' x H. induction H as [|a b l l' Hab H IH]; intros []; subst.
  - exists b. split; [left; reflexivity|exact Hab].
  - destruct (IH H0) as [y [HY HR]]. exists y. split; [right; exact HY|exact HR].
Qed.

Lemma Forall2_in_r' : forall {A B} (R : A -> B -> Prop) l l' y, Forall2 R l l' -> In y l' -> exists x, In x l /\ R x y.
Proof.
  intros A B R l l' y H. induction H as [|a b l l' Hab H IH]; intros []; subst.
  - exists a. split; [left; reflexivity|exact Hab].
  - destruct (IH H0) as [x [HX HR]]. exists x. split; [right; exact HX|exact HR].
Qed.

Lemma Forall2_filter_length : forall {A} (R : A -> A -> Prop) (p : A -> bool) l l',
  Forall2 R l l' -> (forall x y, R x y -> p y = p x) -> length (filter p l) = length (filter p l').
Proof.
  intros A R p l l' H HP. induction H as [|a b l l' Hab H IH]; [reflexivity|].
  cbn [filter]. rewrite (HP _ _ Hab). destruct (p a); cbn [length]; rewrite IH; reflexivity.
Qed.

Lemma find_last_filter : forall {A} (p q : A -> bool) l, find_last (fun c => p c && q c) l = find_last q (filter p l).
Proof.
  intros A p q l. induction l as [|x r IH]; [reflexivity|]. cbn [find_last filter]. rewrite IH.
  destruct (p x) eqn:P; cbn [find_last andb].
  - reflexivity.
  - destruct (find_last q (filter p r)); reflexivity.
Qed.

Lemma types_of_app : forall l1 l2 T, types_of (l1 ++ l2) T = types_of l1 T ++ types_of l2 T.
Proof. intros. unfold types_of. apply filter_app. Qed.

Lemma in_types_of : forall a T c, In c (types_of a T) <-> In c a /\ is_type c = true /\ c_tname c = T.
Proof.
  intros a T c. unfold types_of. rewrite filter_In, andb_true_iff, String.eqb_eq. tauto.
Qed.

Lemma in_type_order : forall a T, In T (type_order a) <-> exists c, In c a /\ is_type c = true /\ c_tname c = T.
Proof.
  intros a T. unfold type_order. rewrite in_dedup_str, in_map_iff. split.
  - intros [[c [E HI]] _]. apply filter_In in HI. exists c. tauto.
  - intros [c [HI [HT E]]]. split; [|intros []]. exists c. split; [exact E|]. apply filter_In. tauto.
Qed.

Lemma function_of_spec : forall a name c, function_of a name = Some c -> In c a /\ c_fun c = true /\ c_name c = name.
Proof.
  intros a name c H. unfold function_of in H. apply find_last_some_sat in H. destruct H as [HI HP].
  apply andb_true_iff in HP. destruct HP as [HF HN]. apply String.eqb_eq in HN. tauto.
Qed.

Lemma function_of_unique : forall a c, NoDup (map c_name (filter c_fun a)) -> In c a -> c_fun c = true ->
  function_of a (c_name c) = Some c.
Proof.
  intros a c ND HI HF. unfold function_of. rewrite find_last_filter.
  apply (find_last_unique c_name (filter c_fun a) c ND). apply filter_In. tauto.
Qed.

(** The shape every sequence of the documented safe edits produces: each old combinator is
    still there, in place, possibly with masked fields appended; new combinators (types,
    constructors, functions) follow. *)
Theorem lint_accept_pointwise : forall fx a pre extras,
  wf (pre ++ extras) ->
  Forall2 (comb_ext (check_nat_usages a) (check_nat_usages (pre ++ extras))) a pre ->
  (forall x, In x extras -> c_fun x = true -> match c_fields x with f0 :: _ => is_nat_field f0 = true | [] => True end) ->
  (forall c0, types_of a (c_tname c0) = [c0] -> (1 < length (types_of (pre ++ extras) (c_tname c0)))%nat -> boxed_only a c0) ->
  lint_with fx a (pre ++ extras) = Accept.
Proof.
  intros fx a pre extras [WT WF] F2 NF BX. set (a' := pre ++ extras) in *.
  unfold lint_with. set (oi := check_nat_usages a) in *. set (ni := check_nat_usages a') in *.
  rewrite !andv_accept. split; [|split].
  - apply allv_accept. intros T HT. unfold check_type. rewrite !andv_accept. split; [|split].
    + apply allv_accept. intros oc HO. apply in_types_of in HO. destruct HO as [HA [HTy HTn]].
      destruct (Forall2_in_l' _ _ _ _ F2 HA) as [nc [HP CE]].
      assert (HN : In nc (types_of a' T)).
      { apply in_types_of. split; [apply in_or_app; left; exact HP|].
        rewrite (comb_ext_is_type _ _ _ _ CE), (ce_tname _ _ _ _ CE). tauto. }
      rewrite <- (ce_name _ _ _ _ CE).
      rewrite (find_last_unique c_name (types_of a' T) nc (types_of_nodup a' T WT) HN).
      apply comb_ext_check. exact CE.
    + assert (L : (length (types_of a T) <= length (types_of a' T))%nat).
      { unfold a'. rewrite types_of_app, app_length.
        unfold types_of. rewrite (Forall2_filter_length _ (fun c => is_type c && String.eqb (c_tname c) T) a pre F2).
        - lia.
        - intros x y CE. rewrite (comb_ext_is_type _ _ _ _ CE), (ce_tname _ _ _ _ CE). reflexivity. }
      apply Nat.ltb_ge in L. rewrite L. reflexivity.
    + destruct (types_of a T) as [|c0 [|c1 r]] eqn:E; try reflexivity.
      assert (HC : In c0 (types_of a T)) by (rewrite E; left; reflexivity).
      apply in_types_of in HC. destruct HC as [_ [_ HTn]]. subst T.
      destruct (1 <? length (types_of a' (c_tname c0)))%nat eqn:L; [|reflexivity].
      apply check_all_type_refs_boxed. apply BX; [exact E|apply Nat.ltb_lt; exact L].
  - apply allv_accept. intros name _. unfold check_old_function.
    destruct (function_of a name) as [oc|] eqn:FO; [|reflexivity].
    apply function_of_spec in FO. destruct FO as [HA [HFn HNm]].
    destruct (Forall2_in_l' _ _ _ _ F2 HA) as [nc [HP CE]].
    assert (E : function_of a' name = Some nc).
    { rewrite <- HNm, <- (ce_name _ _ _ _ CE). apply function_of_unique; [exact WF|apply in_or_app; left; exact HP|].
      rewrite (ce_fun _ _ _ _ CE). exact HFn. }
    rewrite E. apply comb_ext_check. exact CE.
  - apply allv_accept. intros name _. unfold check_new_function.
    destruct (function_of a name) as [oc|] eqn:FO; [reflexivity|].
    destruct (function_of a' name) as [nc|] eqn:FN; [|reflexivity].
    apply function_of_spec in FN. destruct FN as [HA [HFn HNm]].
    apply in_app_or in HA. destruct HA as [HP|HE].
    + exfalso. destruct (Forall2_in_r' _ _ _ _ F2 HP) as [oc [HO CE]].
      unfold function_of in FO.
      destruct (find_last_exists (fun c => c_fun c && String.eqb (c_name c) name) a oc HO) as [y Hy].
      * rewrite <- (ce_fun _ _ _ _ CE), HFn, <- (ce_name _ _ _ _ CE), HNm, String.eqb_refl. reflexivity.
      * congruence.
    + specialize (NF nc HE HFn). destruct (c_fields nc) as [|f0 r]; [reflexivity|]. rewrite NF. reflexivity.
Qed.

(* ================================================================== part 6 *)


(* ------------------------------------------------------------------ the repaired linter never panics *)

Lemma compare_args_no_crash : forall (cmp : ty -> ty -> verdict) os ns,
  (forall b, In b os -> forall a, cmp a b <> Crash) -> (length os <= length ns)%nat ->
  compare_args cmp os ns <> Crash.
Proof.
  intros cmp os. induction os as [|oa os' IH]; intros ns HC HL; cbn [compare_args]; [discriminate|].
  destruct ns as [|na ns']; [cbn in HL; lia|]. cbn [length] in HL.
  assert (R : compare_args cmp os' ns' <> Crash).
  { apply IH; [intros b HB; apply HC; right; exact HB|lia]. }
  destruct oa as [x|on ob oargs], na as [y|nn nb nargs]; try discriminate.
  - destruct (N.eqb x y); [exact R|discriminate].
  - specialize (HC (TRef on ob oargs) (or_introl eq_refl) (TRef nn nb nargs)).
    destruct (cmp (TRef nn nb nargs) (TRef on ob oargs)); [exact R|discriminate|contradiction].
Qed.

Lemma compare_types_no_crash : forall fx nm om o n, fx_args fx = true -> compare_types fx nm om n o <> Crash.
Proof.
  intros fx nm om o. induction o as [x|oname obare oargs IH] using ty_ind'; intros n FX; [discriminate|].
  cbn [compare_types].
  rewrite FX. cbn [andb].
  destruct (length (ty_args n) <? length oargs)%nat eqn:L; [rewrite orb_true_r; discriminate|]. rewrite orb_false_r.
  destruct (ref_mismatch nm om (ty_name n) oname || (fx_bare fx && negb (Bool.eqb (ty_bare n) obare))); [discriminate|].
  apply Nat.ltb_ge in L. apply compare_args_no_crash; [|exact L].
  rewrite Forall_forall in IH. intros b HB a. apply IH; assumption.
Qed.

Lemma check_old_fields_no_crash : forall fx nm om ns os, fx_args fx = true -> check_old_fields fx nm om ns os <> Crash.
Proof.
  intros fx nm om ns os FX. revert ns. induction os as [|of os' IH]; intros ns; cbn [check_old_fields]; [discriminate|].
  destruct ns as [|nf ns']; [discriminate|]. apply andv_no_crash; [|apply IH].
  unfold check_old_field. apply andv_no_crash; [apply compare_types_no_crash; exact FX|].
  apply andv_no_crash.
  - destruct (fx_rep fx && negb (String.eqb (f_rep nf) (f_rep of))); discriminate.
  - destruct (f_mask nf) as [[a b]|], (f_mask of) as [[c d]|]; try discriminate.
    destruct (negb (Z.eqb (mask_get nm a) (mask_get om c))); [discriminate|].
    destruct (negb (N.eqb b d)); discriminate.
Qed.

Lemma check_new_fields_no_crash : forall oi ni nc i fs, check_new_fields oi ni nc i fs <> Crash.
Proof.
  intros oi ni nc i fs. revert i. induction fs as [|f r IH]; intros i; cbn [check_new_fields]; [discriminate|].
  destruct (f_mask f) as [[m b]|]; [|discriminate]. apply andv_no_crash; [|apply IH].
  unfold bit_check. destruct (nonempty (used_bits oi ni nc i) && memN b (used_bits oi ni nc i)); [|discriminate].
  destruct (forallb (fun b0 => memN b0 (used_bits oi ni nc i)) all_bits); discriminate.
Qed.

Lemma function_part_no_crash : forall ni nc oc, fst (function_part ni nc oc) <> Crash.
Proof.
  intros ni nc oc. unfold function_part.
  repeat match goal with
  | |- context [if ?b then _ else _] => destruct b
  | |- context [match nth_error ?l ?i with _ => _ end] => destruct (nth_error l i)
  end; cbn [fst]; try discriminate.
  apply allv_no_crash. intros x _. destruct (f_mask x) as [[m b]|]; [|discriminate].
  destruct (String.eqb m (f_name f)); discriminate.
Qed.

Lemma check_comb_no_crash : forall fx oi ni nc oc, fx_args fx = true -> check_comb fx oi ni nc oc <> Crash.
Proof.
  intros fx oi ni nc oc FX. unfold check_comb.
  destruct (length (c_fields nc) <? length (c_fields oc))%nat; [discriminate|].
  destruct (length (c_targs nc) <? length (c_targs oc))%nat; [discriminate|].
  apply andv_no_crash; [apply check_old_fields_no_crash; exact FX|].
  pose proof (function_part_no_crash ni nc oc) as FP.
  destruct (function_part ni nc oc) as [v first]. cbn [fst] in FP.
  apply andv_no_crash; [exact FP|]. apply andv_no_crash; [apply check_new_fields_no_crash|].
  destruct (c_fun nc && c_fun oc); [apply compare_types_no_crash; exact FX|discriminate].
Qed.

Lemma check_box_usage_no_crash : forall c0 t, check_box_usage c0 t <> Crash.
Proof.
  intros c0 t. induction t as [n|name bare args IH] using ty_ind'; [discriminate|]. cbn [check_box_usage].
  destruct (String.eqb name (c_tname c0) && bare); [discriminate|].
  destruct (String.eqb name (c_name c0)); [discriminate|].
  induction args as [|a r IHr]; [discriminate|]. inversion IH; subst. cbn [first_ref_arg].
  destruct a; [apply IHr; assumption|assumption].
Qed.

Theorem lint_no_crash : forall fx a a', fx_args fx = true -> lint_with fx a a' <> Crash.
Proof.
  intros fx a a' FX. unfold lint_with. apply andv_no_crash; [|apply andv_no_crash].
  - apply allv_no_crash. intros T _. unfold check_type. apply andv_no_crash; [|apply andv_no_crash].
    + apply allv_no_crash. intros oc _.
      destruct (find_last (fun c => String.eqb (c_name c) (c_name oc)) (types_of a' T)); [|discriminate].
      apply check_comb_no_crash; exact FX.
    + destruct ((length (types_of a' T) <? length (types_of a T))%nat && negb (Nat.eqb (length (types_of a' T)) 0)); discriminate.
    + destruct (types_of a T) as [|c0 [|c1 r]]; try discriminate.
      destruct (1 <? length (types_of a' T))%nat; [|discriminate].
      unfold check_all_type_refs. apply allv_no_crash. intros c _. apply andv_no_crash; [apply check_box_usage_no_crash|].
      apply allv_no_crash. intros f _. apply check_box_usage_no_crash.
  - apply allv_no_crash. intros name _. unfold check_old_function.
    destruct (function_of a name); [|discriminate]. destruct (function_of a' name); [|discriminate].
    apply check_comb_no_crash; exact FX.
  - apply allv_no_crash. intros name _. unfold check_new_function.
    destruct (function_of a name); [discriminate|]. destruct (function_of a' name); [|discriminate].
    destruct (c_fields c) as [|f0 r]; [discriminate|]. destruct (is_nat_field f0); discriminate.
Qed.

Corollary verdict_cases : forall fx a a', fx_args fx = true ->
  lint_with fx a a' <> Accept -> exists code, lint_with fx a a' = Reject code.
Proof.
  intros fx a a' FX NA. pose proof (lint_no_crash fx a a' FX) as NC.
  destruct (lint_with fx a a') as [|code|]; [contradiction|exists code; reflexivity|contradiction].
Qed.

(* ------------------------------------------------------------------ what acceptance implies *)

Lemma lint_accept_inv_type : forall fx a a' oc,
  lint_with fx a a' = Accept -> In oc a -> is_type oc = true ->
  exists nc, find_last (fun c => String.eqb (c_name c) (c_name oc)) (types_of a' (c_tname oc)) = Some nc /\
             check_comb fx (check_nat_usages a) (check_nat_usages a') nc oc = Accept.
Proof.
  intros fx a a' oc H HI HT. unfold lint_with in H. apply andv_accept in H. destruct H as [H _].
  rewrite allv_accept in H. specialize (H (c_tname oc)).
  assert (HO : In (c_tname oc) (type_order a)) by (apply in_type_order; exists oc; tauto).
  specialize (H HO). unfold check_type in H. apply andv_accept in H. destruct H as [H _].
  rewrite allv_accept in H. specialize (H oc). 
  assert (HC : In oc (types_of a (c_tname oc))) by (apply in_types_of; tauto).
  specialize (H HC).
  destruct (find_last (fun c => String.eqb (c_name c) (c_name oc)) (types_of a' (c_tname oc))) as [nc|]; [|discriminate].
  exists nc. split; [reflexivity|exact H].
Qed.

Lemma lint_accept_inv_fun : forall fx a a' oc,
  lint_with fx a a' = Accept -> function_of a (c_name oc) = Some oc ->
  exists nc, function_of a' (c_name oc) = Some nc /\
             check_comb fx (check_nat_usages a) (check_nat_usages a') nc oc = Accept.
Proof.
  intros fx a a' oc H FO. unfold lint_with in H. apply andv_accept in H. destruct H as [_ H].
  apply andv_accept in H. destruct H as [H _]. rewrite allv_accept in H. specialize (H (c_name oc)).
  pose proof (function_of_spec _ _ _ FO) as [HI [HF _]].
  assert (HO : In (c_name oc) (fun_order a)).
  { unfold fun_order. apply in_map. apply filter_In. tauto. }
  specialize (H HO). unfold check_old_function in H. rewrite FO in H.
  destruct (function_of a' (c_name oc)) as [nc|]; [|discriminate]. exists nc. split; [reflexivity|exact H].
Qed.

(* ================================================================== part 7 *)


(* ------------------------------------------------------------------ editing one combinator in place *)

Definition same_head (c c' : comb) : Prop :=
  c_name c' = c_name c /\ c_tname c' = c_tname c /\ c_builtin c' = c_builtin c /\ c_fun c' = c_fun c.

Lemma same_head_is_type : forall c c', same_head c c' -> is_type c' = is_type c.
Proof. intros c c' [_ [_ [B F]]]. unfold is_type. rewrite B, F. reflexivity. Qed.

Lemma names_replace : forall (p : comb -> bool) l1 c c' l2, p c' = p c -> c_name c' = c_name c ->
  map c_name (filter p (l1 ++ c' :: l2)) = map c_name (filter p (l1 ++ c :: l2)).
Proof.
  intros p l1 c c' l2 EP EN. rewrite !filter_app, !map_app. f_equal. cbn [filter]. rewrite EP.
  destruct (p c); cbn [map]; [rewrite EN|]; reflexivity.
Qed.

Lemma wf_replace : forall l1 c c' l2, same_head c c' -> wf (l1 ++ c :: l2) -> wf (l1 ++ c' :: l2).
Proof.
  intros l1 c c' l2 SH [W1 W2]. pose proof (same_head_is_type _ _ SH) as IT. destruct SH as [EN [_ [_ EF]]].
  split; [rewrite (names_replace is_type l1 c c' l2 IT EN)|rewrite (names_replace c_fun l1 c c' l2 EF EN)]; assumption.
Qed.

Lemma nodup_others_differ : forall (p : comb -> bool) l1 c l2 z,
  NoDup (map c_name (filter p (l1 ++ c :: l2))) -> p c = true -> In z (l1 ++ l2) -> p z = true -> c_name z <> c_name c.
Proof.
  intros p l1 c l2 z ND PC HZ PZ E. rewrite filter_app in ND. cbn [filter] in ND. rewrite PC in ND.
  rewrite map_app in ND. cbn [map] in ND. apply NoDup_remove_2 in ND. apply ND. rewrite <- E, <- map_app, <- filter_app.
  apply in_map. apply filter_In. split; assumption.
Qed.

(** the verdict for an in-place edit of a type constructor is decided by that constructor's check *)
Theorem reject_replace_type : forall fx l1 c c' l2,
  fx_args fx = true -> wf (l1 ++ c :: l2) -> is_type c = true -> same_head c c' ->
  check_comb fx (check_nat_usages (l1 ++ c :: l2)) (check_nat_usages (l1 ++ c' :: l2)) c' c <> Accept ->
  exists code, lint_with fx (l1 ++ c :: l2) (l1 ++ c' :: l2) = Reject code.
Proof.
  intros fx l1 c c' l2 FX W IT SH NC. apply verdict_cases; [exact FX|]. intros HA.
  destruct (lint_accept_inv_type fx _ _ c HA) as [nc [FL CC]]; [apply in_or_app; right; left; reflexivity|exact IT|].
  pose proof (wf_replace _ _ _ _ SH W) as [W1' _]. destruct SH as [EN [ET [EB EF]]].
  assert (HI : In c' (types_of (l1 ++ c' :: l2) (c_tname c))).
  { apply in_types_of. split; [apply in_or_app; right; left; reflexivity|]. split; [|exact ET].
    unfold is_type in *. rewrite EB, EF. exact IT. }
  rewrite <- EN in FL. rewrite (find_last_unique c_name _ c' (types_of_nodup _ _ W1') HI) in FL.
  inversion FL; subst nc. contradiction.
Qed.

Theorem reject_replace_fun : forall fx l1 c c' l2,
  fx_args fx = true -> wf (l1 ++ c :: l2) -> c_fun c = true -> same_head c c' ->
  check_comb fx (check_nat_usages (l1 ++ c :: l2)) (check_nat_usages (l1 ++ c' :: l2)) c' c <> Accept ->
  exists code, lint_with fx (l1 ++ c :: l2) (l1 ++ c' :: l2) = Reject code.
Proof.
  intros fx l1 c c' l2 FX W CF SH NC. apply verdict_cases; [exact FX|]. intros HA.
  pose proof W as [_ W2].
  assert (FO : function_of (l1 ++ c :: l2) (c_name c) = Some c).
  { apply function_of_unique; [exact W2|apply in_or_app; right; left; reflexivity|exact CF]. }
  destruct (lint_accept_inv_fun fx _ _ c HA FO) as [nc [FN CC]].
  pose proof (wf_replace _ _ _ _ SH W) as [_ W2']. destruct SH as [EN [ET [EB EF]]].
  rewrite <- EN in FN. rewrite function_of_unique in FN; [|exact W2'|apply in_or_app; right; left; reflexivity|rewrite EF; exact CF].
  inversion FN; subst nc. contradiction.
Qed.

(** removing a constructor or a function, anywhere *)
Theorem reject_remove_type : forall fx l1 c l2,
  fx_args fx = true -> wf (l1 ++ c :: l2) -> is_type c = true ->
  exists code, lint_with fx (l1 ++ c :: l2) (l1 ++ l2) = Reject code.
Proof.
  intros fx l1 c l2 FX [W1 _] IT. apply verdict_cases; [exact FX|]. intros HA.
  destruct (lint_accept_inv_type fx _ _ c HA) as [nc [FL _]]; [apply in_or_app; right; left; reflexivity|exact IT|].
  apply find_last_some_sat in FL. destruct FL as [HI HN]. apply in_types_of in HI. destruct HI as [HI [HT _]].
  apply String.eqb_eq in HN. exact (nodup_others_differ is_type l1 c l2 nc W1 IT HI HT HN).
Qed.

Theorem reject_remove_fun : forall fx l1 c l2,
  fx_args fx = true -> wf (l1 ++ c :: l2) -> c_fun c = true ->
  exists code, lint_with fx (l1 ++ c :: l2) (l1 ++ l2) = Reject code.
Proof.
  intros fx l1 c l2 FX [_ W2] CF. apply verdict_cases; [exact FX|]. intros HA.
  assert (FO : function_of (l1 ++ c :: l2) (c_name c) = Some c).
  { apply function_of_unique; [exact W2|apply in_or_app; right; left; reflexivity|exact CF]. }
  destruct (lint_accept_inv_fun fx _ _ c HA FO) as [nc [FN _]].
  apply function_of_spec in FN. destruct FN as [HI [HF HN]].
  exact (nodup_others_differ c_fun l1 c l2 nc W2 CF HI HF HN).
Qed.

(* ------------------------------------------------------------------ what makes one combinator's check fail *)

Lemma check_comb_less_fields : forall fx oi ni nc oc,
  (length (c_fields nc) < length (c_fields oc))%nat -> check_comb fx oi ni nc oc = Reject RLessFields.
Proof. intros fx oi ni nc oc H. unfold check_comb. apply Nat.ltb_lt in H. rewrite H. reflexivity. Qed.

Lemma check_comb_less_targs : forall fx oi ni nc oc,
  (length (c_targs nc) < length (c_targs oc))%nat -> check_comb fx oi ni nc oc <> Accept.
Proof.
  intros fx oi ni nc oc H. unfold check_comb. apply Nat.ltb_lt in H. rewrite H.
  destruct (length (c_fields nc) <? length (c_fields oc))%nat; discriminate.
Qed.

Lemma check_comb_accept_old_fields : forall fx oi ni nc oc,
  check_comb fx oi ni nc oc = Accept ->
  (length (c_fields oc) <= length (c_fields nc))%nat /\
  check_old_fields fx (mapping nc) (mapping oc) (c_fields nc) (c_fields oc) = Accept.
Proof.
  intros fx oi ni nc oc H. unfold check_comb in H.
  destruct (length (c_fields nc) <? length (c_fields oc))%nat eqn:L; [discriminate|].
  destruct (length (c_targs nc) <? length (c_targs oc))%nat; [discriminate|].
  apply andv_accept in H. destruct H as [H _]. apply Nat.ltb_ge in L. tauto.
Qed.

Lemma check_old_fields_nth : forall fx nm om os ns q of nf,
  check_old_fields fx nm om ns os = Accept -> nth_error os q = Some of -> nth_error ns q = Some nf ->
  check_old_field fx nm om nf of = Accept.
Proof.
  intros fx nm om os. induction os as [|o r IH]; intros ns q of nf H HO HN; [destruct q; discriminate|].
  destruct ns as [|n ns']; [destruct q; discriminate|]. cbn [check_old_fields] in H. apply andv_accept in H. destruct H as [H1 H2].
  destruct q as [|q]; cbn [nth_error] in *.
  - inversion HO; inversion HN; subst. exact H1.
  - exact (IH ns' q of nf H2 HO HN).
Qed.

(** an existing field whose own check fails makes the combinator's check fail, at any position *)
Lemma check_comb_field_rejected : forall fx oi ni nc oc q of nf,
  nth_error (c_fields oc) q = Some of -> nth_error (c_fields nc) q = Some nf ->
  check_old_field fx (mapping nc) (mapping oc) nf of <> Accept ->
  check_comb fx oi ni nc oc <> Accept.
Proof.
  intros fx oi ni nc oc q of nf HO HN NA H. apply check_comb_accept_old_fields in H. destruct H as [_ H].
  apply NA. exact (check_old_fields_nth _ _ _ _ _ _ _ _ H HO HN).
Qed.

Lemma check_old_field_type_rejected : forall fx nm om nf of,
  compare_types fx nm om (f_ty nf) (f_ty of) <> Accept -> check_old_field fx nm om nf of <> Accept.
Proof. intros fx nm om nf of NA H. unfold check_old_field in H. apply andv_accept in H. tauto. Qed.

Lemma check_old_field_mask_rejected : forall fx nm om nf of,
  match f_mask nf, f_mask of with
  | Some _, None => True                                   (* mask added *)
  | None, Some _ => True                                   (* mask removed *)
  | Some (m', b'), Some (m, b) => mask_get nm m' <> mask_get om m \/ b' <> b   (* other mask, other bit *)
  | None, None => False
  end -> check_old_field fx nm om nf of <> Accept.
Proof.
  intros fx nm om nf of HM H. unfold check_old_field in H. apply andv_accept in H. destruct H as [_ H].
  apply andv_accept in H. destruct H as [_ H].
  destruct (f_mask nf) as [[m' b']|], (f_mask of) as [[m b]|]; try discriminate; try contradiction.
  destruct (Z.eqb (mask_get nm m') (mask_get om m)) eqn:EZ; cbn [negb] in H; [|discriminate].
  destruct (N.eqb b' b) eqn:EB; cbn [negb] in H; [|discriminate].
  apply Z.eqb_eq in EZ. apply N.eqb_eq in EB. destruct HM; contradiction.
Qed.

Lemma check_old_field_rep_rejected : forall fx nm om nf of,
  fx_rep fx = true -> f_rep nf <> f_rep of -> check_old_field fx nm om nf of <> Accept.
Proof.
  intros fx nm om nf of FX NE H. unfold check_old_field in H. apply andv_accept in H. destruct H as [_ H].
  apply andv_accept in H. destruct H as [H _]. rewrite FX in H. apply String.eqb_neq in NE. rewrite NE in H. discriminate.
Qed.

(** appended fields of a constructor: an unmasked one, or one under a bit the analysis lists *)
Lemma check_comb_new_field_rejected : forall fx oi ni nc oc extra,
  c_fun oc = false -> c_fields nc = c_fields oc ++ extra ->
  check_new_fields oi ni nc (length (c_fields oc)) extra <> Accept ->
  check_comb fx oi ni nc oc <> Accept.
Proof.
  intros fx oi ni nc oc extra CF EF NA H. unfold check_comb in H.
  destruct (length (c_fields nc) <? length (c_fields oc))%nat; [discriminate|].
  destruct (length (c_targs nc) <? length (c_targs oc))%nat; [discriminate|].
  apply andv_accept in H. destruct H as [_ H].
  unfold function_part in H. rewrite CF, andb_false_r in H. cbn [andv] in H.
  apply andv_accept in H. destruct H as [H _]. rewrite EF, skipn_length_app in H. contradiction.
Qed.

Lemma check_new_fields_nomask : forall oi ni nc i pre f post,
  Forall (fun g => has_mask g = true) pre -> f_mask f = None ->
  check_new_fields oi ni nc i (pre ++ f :: post) <> Accept.
Proof.
  intros oi ni nc i pre. revert i. induction pre as [|g r IH]; intros i f post HP HM H; cbn [app check_new_fields] in H.
  - rewrite HM in H. discriminate.
  - destruct (f_mask g) as [[m b]|]; [|discriminate]. apply andv_accept in H. destruct H as [_ H].
    inversion HP; subst. exact (IH _ _ _ H3 HM H).
Qed.

Lemma bit_check_used : forall oi ni nc fid f m b j,
  nth_error (c_fields nc) fid = Some f -> f_mask f = Some (m, b) ->
  find_index (fun a => String.eqb (ta_name a) m) (c_targs nc) = None ->
  find_index (fun g => String.eqb (f_name g) m) (c_fields nc) = Some j ->
  In b (infoC oi (c_name nc) j) ->
  bit_check oi ni nc fid b <> Accept.
Proof.
  intros oi ni nc fid f m b j HN HM HT HF HI. unfold bit_check, used_bits. rewrite HN, HM, HT, HF.
  assert (NE : nonempty (infoC oi (c_name nc) j) = true) by (destruct (infoC oi (c_name nc) j); [destruct HI|reflexivity]).
  apply memN_In in HI. rewrite NE, HI. cbn [andb].
  destruct (forallb (fun b0 => memN b0 (infoC oi (c_name nc) j)) all_bits); discriminate.
Qed.

(* ------------------------------------------------------------------ compareTypes: what acceptance means for closed types *)

(** [args_rel R os ns]: the old argument list is matched, position by position, by a prefix
    of the new one *)
Definition args_rel (R : ty -> ty -> Prop) : list ty -> list ty -> Prop :=
  fix go (os ns : list ty) {struct os} : Prop :=
    match os with
    | [] => True
    | o :: os' => match ns with [] => False | n :: ns' => R o n /\ go os' ns' end
    end.

(** the old type is the new one with trailing arguments dropped (at any depth): same names,
    same bare flags, same constants *)
Fixpoint ty_prefix (o n : ty) {struct o} : Prop :=
  match o with
  | TNat x => n = TNat x
  | TRef oname obare oargs =>
    match n with
    | TNat _ => False
    | TRef nname nbare nargs => oname = nname /\ obare = nbare /\ args_rel ty_prefix oargs nargs
    end
  end.

Definition closed (m : list (string * Z)) (t : ty) : Prop := forall s, In s (ty_names t) -> map_get m s = None.

Lemma compare_args_accept : forall (cmp : ty -> ty -> verdict) (R : ty -> ty -> Prop) os ns,
  (forall o, In o os -> forall n, In n ns -> match o, n with TRef _ _ _, TRef _ _ _ => cmp n o = Accept -> R o n | _, _ => True end) ->
  (forall x, R (TNat x) (TNat x)) ->
  compare_args cmp os ns = Accept -> args_rel R os ns.
Proof.
  intros cmp R os. induction os as [|o os' IH]; intros ns HR HN H; [exact I|].
  destruct ns as [|n ns']; [discriminate|]. cbn [compare_args] in H. cbn [args_rel].
  assert (REST : compare_args cmp os' ns' = Accept -> args_rel R os' ns').
  { apply IH; [|exact HN]. intros o' HO n' HI. apply HR; right; assumption. }
  destruct o as [x|on ob oargs], n as [y|nn nb nargs]; try discriminate.
  - destruct (N.eqb x y) eqn:E; [|discriminate]. apply N.eqb_eq in E. subst. split; [apply HN|apply REST; exact H].
  - specialize (HR (TRef on ob oargs) (or_introl eq_refl) (TRef nn nb nargs) (or_introl eq_refl)). cbn in HR.
    destruct (cmp (TRef nn nb nargs) (TRef on ob oargs)); try discriminate. split; [apply HR; reflexivity|apply REST; exact H].
Qed.

Theorem compare_types_accept_prefix : forall fx nm om o nname nbare nargs,
  fx_bare fx = true -> closed om o -> closed nm (TRef nname nbare nargs) ->
  compare_types fx nm om (TRef nname nbare nargs) o = Accept ->
  match o with TRef _ _ _ => ty_prefix o (TRef nname nbare nargs) | TNat _ => True end.
Proof.
  intros fx nm om o. induction o as [x|oname obare oargs IH] using ty_ind'; intros nname nbare nargs FB CO CN H; [exact I|].
  cbn [compare_types ty_name ty_bare ty_args] in H.
  destruct (ref_mismatch nm om nname oname || (fx_bare fx && negb (Bool.eqb nbare obare))
            || (fx_args fx && (length nargs <? length oargs)%nat)) eqn:E; [discriminate|].
  apply orb_false_iff in E. destruct E as [E _].
  apply orb_false_iff in E. destruct E as [E1 E2]. rewrite FB in E2. cbn [andb] in E2. apply negb_false_iff in E2.
  apply Bool.eqb_prop in E2.
  unfold ref_mismatch in E1. rewrite (CO oname) in E1 by (left; reflexivity).
  rewrite (CN nname) in E1 by (left; reflexivity). apply negb_false_iff, String.eqb_eq in E1.
  cbn [ty_prefix]. split; [symmetry; exact E1|]. split; [symmetry; exact E2|].
  apply (compare_args_accept (compare_types fx nm om)); [|reflexivity|exact H].
  intros o HO n HN. destruct o as [x|on ob oas]; [exact I|]. destruct n as [y|nn nb nas]; [exact I|].
  intros HC. rewrite Forall_forall in IH.
  apply (IH _ HO nn nb nas FB); [| |exact HC].
  - intros s Hs. apply CO. right. apply in_flat_map. exists (TRef on ob oas). split; assumption.
  - intros s Hs. apply CN. right. apply in_flat_map. exists (TRef nn nb nas). split; assumption.
Qed.

(** hence: a new field type that is not the old one up to appended arguments is refused *)
Corollary compare_types_rejects_other_type : forall fx nm om oname obare oargs nname nbare nargs,
  fx_bare fx = true -> closed om (TRef oname obare oargs) -> closed nm (TRef nname nbare nargs) ->
  ~ ty_prefix (TRef oname obare oargs) (TRef nname nbare nargs) ->
  compare_types fx nm om (TRef nname nbare nargs) (TRef oname obare oargs) <> Accept.
Proof.
  intros fx nm om oname obare oargs nname nbare nargs FB CO CN NP H. apply NP.
  exact (compare_types_accept_prefix fx nm om (TRef oname obare oargs) nname nbare nargs FB CO CN H).
Qed.

(* ------------------------------------------------------------------ a bare-used type that becomes a union *)

(** the positions checkBoxUsage looks at: the head, then (only) the first non-arithmetic argument *)
Inductive inspected_bad (c0 : comb) : ty -> Prop :=
| IB_bare : forall args, inspected_bad c0 (TRef (c_tname c0) true args)
| IB_ctor : forall bare args, inspected_bad c0 (TRef (c_name c0) bare args)
| IB_arg : forall name bare nats a rest, Forall (fun t => exists n, t = TNat n) nats ->
    (exists an ab aa, a = TRef an ab aa) -> inspected_bad c0 a -> inspected_bad c0 (TRef name bare (nats ++ a :: rest)).

Lemma check_box_usage_bad : forall c0 t, inspected_bad c0 t -> check_box_usage c0 t <> Accept.
Proof.
  intros c0 t H. induction H as [args|bare args|name bare nats a rest HN [an [ab [aa ->]]] HB IH]; cbn [check_box_usage].
  - rewrite String.eqb_refl. discriminate.
  - destruct (String.eqb (c_name c0) (c_tname c0) && bare); [discriminate|]. rewrite String.eqb_refl. discriminate.
  - destruct (String.eqb name (c_tname c0) && bare); [discriminate|]. destruct (String.eqb name (c_name c0)); [discriminate|].
    induction HN as [|x r [n ->] Hr IHr]; cbn [app first_ref_arg]; [exact IH|exact IHr].
Qed.

Theorem union_of_bare_used_not_accepted : forall fx a a' c0 c t,
  types_of a (c_tname c0) = [c0] -> (1 < length (types_of a' (c_tname c0)))%nat ->
  In c a -> (t = c_res c \/ exists f, In f (c_fields c) /\ t = f_ty f) -> inspected_bad c0 t ->
  lint_with fx a a' <> Accept.
Proof.
  intros fx a a' c0 c t E L HC HT HB H. unfold lint_with in H. apply andv_accept in H. destruct H as [H _].
  rewrite allv_accept in H. specialize (H (c_tname c0)).
  assert (HI : In c0 (types_of a (c_tname c0))) by (rewrite E; left; reflexivity).
  apply in_types_of in HI. destruct HI as [HA [HTy _]].
  assert (HO : In (c_tname c0) (type_order a)) by (apply in_type_order; exists c0; tauto).
  specialize (H HO). unfold check_type in H. apply andv_accept in H. destruct H as [_ H].
  apply andv_accept in H. destruct H as [_ H]. rewrite E in H. apply Nat.ltb_lt in L. rewrite L in H.
  unfold check_all_type_refs in H. rewrite allv_accept in H. specialize (H c HC). apply andv_accept in H. destruct H as [H1 H2].
  destruct HT as [->|[f [HF ->]]].
  - exact (check_box_usage_bad c0 _ HB H1).
  - rewrite allv_accept in H2. exact (check_box_usage_bad c0 _ HB (H2 f HF)).
Qed.

(* ================================================================== part 8 *)


(* ------------------------------------------------------------------ sequences of safe edits *)

Definition add_field (c : comb) (f : field) : comb :=
  mkComb (c_name c) (c_tag c) (c_builtin c) (c_fun c) (c_targs c) (c_fields c ++ [f]) (c_tname c) (c_res c).

(** extension of a combinator by fields under local masks: does not depend on the new schema *)
Record comb_ext_local (oi : natinfo) (oc nc : comb) : Prop := mkCombExtLocal {
  cel_name : c_name nc = c_name oc;
  cel_tname : c_tname nc = c_tname oc;
  cel_builtin : c_builtin nc = c_builtin oc;
  cel_fun : c_fun nc = c_fun oc;
  cel_targs : c_targs nc = c_targs oc;
  cel_res : c_res nc = c_res oc;
  cel_fields : exists extra,
    c_fields nc = c_fields oc ++ extra /\
    (forall f s, In f extra -> In s (names_used oc) -> f_name f <> s) /\
    (c_fun oc = true -> extra <> [] -> existsb has_mask (c_fields oc) || existsb is_nat_field (c_fields oc) = true) /\
    Forall (local_mask_ok oi nc) extra }.

Lemma comb_ext_local_refl : forall oi c, comb_ext_local oi c c.
Proof.
  intros oi c. constructor; try reflexivity. exists []. rewrite app_nil_r. repeat split.
  - intros f s [].
  - intros _ H; contradiction.
  - constructor.
Qed.

Lemma comb_ext_local_ext : forall oi ni oc nc, comb_ext_local oi oc nc -> comb_ext oi ni oc nc.
Proof.
  intros oi ni oc nc [A B C D E F [extra [G [H [I J]]]]]. constructor; try assumption.
  exists extra. repeat split; try assumption. apply check_new_fields_local; assumption.
Qed.

Lemma find_index_from_app : forall {A} (p : A -> bool) l e i j,
  find_index_from p l i = Some j -> find_index_from p (l ++ e) i = Some j.
Proof.
  intros A p l e. induction l as [|x r IH]; intros i j; cbn [find_index_from app]; [discriminate|].
  destruct (p x); [tauto|apply IH].
Qed.

Lemma local_mask_ok_add : forall oi c f g, local_mask_ok oi c g -> local_mask_ok oi (add_field c f) g.
Proof.
  intros oi c f g [m [b [j [HM [HT [HF NI]]]]]]. exists m, b, j. cbn [add_field c_targs c_fields c_name].
  repeat split; try assumption. unfold find_index in *. apply find_index_from_app. exact HF.
Qed.

Lemma comb_ext_local_step : forall oi oc c f,
  comb_ext_local oi oc c ->
  local_mask_ok oi (add_field c f) f ->
  (forall s, In s (names_used oc) -> f_name f <> s) ->
  (c_fun oc = true -> existsb has_mask (c_fields oc) || existsb is_nat_field (c_fields oc) = true) ->
  comb_ext_local oi oc (add_field c f).
Proof.
  intros oi oc c f [A B C D E F [extra [G [H [I J]]]]] LM FR FN. constructor; cbn [add_field c_name c_tname c_builtin c_fun c_targs c_res]; try assumption.
  exists (extra ++ [f]). cbn [add_field c_fields]. rewrite G, <- app_assoc. repeat split.
  - intros g s HG Hs. apply in_app_or in HG. destruct HG as [HG|[<-|[]]]; [apply (H g s HG Hs)|apply FR; exact Hs].
  - intros CF _. apply FN. exact CF.
  - apply Forall_app. split; [|constructor; [exact LM|constructor]].
    rewrite Forall_forall in *. intros g HG. apply local_mask_ok_add. apply J. exact HG.
Qed.

(** one step is judged against the BASE schema [a0] (the linter is not transitive) *)
Definition field_step_ok (a0 : schema) (k : nat) (c : comb) (f : field) : Prop :=
  match nth_error a0 k with
  | Some oc =>   (* a combinator of the base schema: bit unused there, fresh name, functions need an existing mask or # *)
      local_mask_ok (check_nat_usages a0) (add_field c f) f /\
      (forall s, In s (names_used oc) -> f_name f <> s) /\
      (c_fun oc = true -> existsb has_mask (c_fields oc) || existsb is_nat_field (c_fields oc) = true)
  | None =>      (* a combinator added earlier in the sequence: only the first-argument rule of new functions *)
      c_fun c = true -> c_fields c <> [] \/ is_nat_field f = true
  end.

Definition new_fun_ok (x : comb) : Prop :=
  c_fun x = true -> match c_fields x with f0 :: _ => is_nat_field f0 = true | [] => True end.

Inductive safe_seq (a0 : schema) : schema -> Prop :=
| SS_base : safe_seq a0 a0
| SS_add : forall a x,                      (* new type, new constructor, new function *)
    safe_seq a0 a -> wf (a ++ [x]) -> new_fun_ok x ->
    (is_type x = true -> forall c0, types_of a0 (c_tname x) = [c0] -> boxed_only a0 c0) ->
    safe_seq a0 (a ++ [x])
| SS_field : forall l1 c l2 f,              (* append a field under an unused bit of an existing local mask *)
    safe_seq a0 (l1 ++ c :: l2) -> field_step_ok a0 (length l1) c f ->
    safe_seq a0 (l1 ++ add_field c f :: l2).

Definition shape (a0 a : schema) : Prop :=
  exists pre extras, a = pre ++ extras /\
    Forall2 (comb_ext_local (check_nat_usages a0)) a0 pre /\
    wf a /\ (forall x, In x extras -> new_fun_ok x) /\
    (forall c0, types_of a0 (c_tname c0) = [c0] -> (1 < length (types_of a (c_tname c0)))%nat -> boxed_only a0 c0).

Lemma split_in_pre : forall {A} (pre extras l1 l2 : list A) c,
  l1 ++ c :: l2 = pre ++ extras -> (length l1 < length pre)%nat ->
  exists l2', pre = l1 ++ c :: l2' /\ l2 = l2' ++ extras.
Proof.
  intros A pre. induction pre as [|p r IH]; intros extras l1 l2 c E L; [cbn in L; lia|].
  destruct l1 as [|x l1']; cbn [app] in E.
  - inversion E; subst. exists r. split; reflexivity.
  - inversion E; subst. cbn [length] in L. destruct (IH extras l1' l2 c H1) as [l2' [E1 E2]]; [lia|].
    exists l2'. split; [cbn [app]; rewrite <- E1; reflexivity|exact E2].
Qed.

Lemma split_in_extras : forall {A} (pre extras l1 l2 : list A) c,
  l1 ++ c :: l2 = pre ++ extras -> (length pre <= length l1)%nat ->
  exists l1', l1 = pre ++ l1' /\ extras = l1' ++ c :: l2.
Proof.
  intros A pre. induction pre as [|p r IH]; intros extras l1 l2 c E L.
  - exists l1. split; [reflexivity|symmetry; exact E].
  - destruct l1 as [|x l1']; [cbn in L; lia|]. cbn [app] in E. inversion E; subst. cbn [length] in L.
    destruct (IH extras l1' l2 c H1) as [l1'' [E1 E2]]; [lia|]. exists l1''. split; [cbn [app]; rewrite <- E1; reflexivity|exact E2].
Qed.

Lemma add_field_same_head : forall c f, same_head c (add_field c f).
Proof. intros c f. repeat split. Qed.

Lemma types_of_length_replace : forall l1 c c' l2 T, same_head c c' ->
  length (types_of (l1 ++ c' :: l2) T) = length (types_of (l1 ++ c :: l2) T).
Proof.
  intros l1 c c' l2 T SH. pose proof (same_head_is_type _ _ SH) as IT. destruct SH as [_ [ET _]].
  unfold types_of. rewrite !filter_app, !app_length. cbn [filter]. rewrite IT, ET.
  destruct (is_type c && String.eqb (c_tname c) T); reflexivity.
Qed.

Lemma Forall2_length' : forall {A B} (R : A -> B -> Prop) l l', Forall2 R l l' -> length l = length l'.
Proof. intros A B R l l' H. induction H; cbn; congruence. Qed.

Lemma safe_seq_shape : forall a0 a, wf a0 -> safe_seq a0 a -> shape a0 a.
Proof.
  intros a0 a W0 H. induction H as [|a x HS IH WX NF BX|l1 c l2 f HS IH FS].
  - exists a0, []. rewrite app_nil_r. split; [reflexivity|]. split; [|split; [exact W0|split]].
    + generalize (check_nat_usages a0). clear. intros oi. induction a0; constructor; [apply comb_ext_local_refl|assumption].
    + intros x [].
    + intros c0 E L. rewrite E in L. cbn in L. lia.
  - destruct IH as [pre [extras [E [F2 [W [NFs BXs]]]]]]. exists pre, (extras ++ [x]).
    rewrite app_assoc, <- E. split; [reflexivity|]. split; [exact F2|]. split; [exact WX|]. split.
    + intros y HY. apply in_app_or in HY. destruct HY as [HY|[<-|[]]]; [apply NFs; exact HY|exact NF].
    + intros c0 E0 L. rewrite types_of_app, app_length in L.
      destruct (types_of [x] (c_tname c0)) as [|y r] eqn:EX.
      * cbn [length] in L. apply BXs; [exact E0|lia].
      * assert (HI : In y (types_of [x] (c_tname c0))) by (rewrite EX; left; reflexivity).
        apply in_types_of in HI. destruct HI as [[<-|[]] [IT ET]]. apply BX; [exact IT|rewrite ET; exact E0].
  - destruct IH as [pre [extras [E [F2 [W [NFs BXs]]]]]].
    assert (WN : wf (l1 ++ add_field c f :: l2)) by (apply (wf_replace l1 c); [apply add_field_same_head|exact W]).
    assert (BN : forall c0, types_of a0 (c_tname c0) = [c0] ->
                 (1 < length (types_of (l1 ++ add_field c f :: l2) (c_tname c0)))%nat -> boxed_only a0 c0).
    { intros c0 E0 L. rewrite (types_of_length_replace l1 c) in L by apply add_field_same_head. apply BXs; assumption. }
    destruct (Nat.lt_ge_cases (length l1) (length pre)) as [LT|GE].
    + destruct (split_in_pre _ _ _ _ _ E LT) as [l2' [EP EL]]. subst pre l2.
      apply Forall2_app_inv_r in F2. destruct F2 as [a01 [a02 [FA [FB EA]]]].
      inversion FB as [|oc c' a02' l2'' ROC FB' E1 E2]; subst.
      assert (NK : nth_error (a01 ++ oc :: a02') (length l1) = Some oc).
      { rewrite <- (Forall2_length' _ _ _ FA). rewrite nth_error_app_len. reflexivity. }
      unfold field_step_ok in FS. rewrite NK in FS. destruct FS as [LM [FR FN]].
      exists (l1 ++ add_field c f :: l2'), extras. rewrite <- app_assoc. cbn [app].
      split; [reflexivity|]. split; [|split; [exact WN|split; [exact NFs|exact BN]]].
      apply Forall2_app; [exact FA|]. constructor; [|exact FB'].
      apply comb_ext_local_step; assumption.
    + destruct (split_in_extras _ _ _ _ _ E GE) as [l1' [EP EL]]. subst l1 extras.
      assert (NK : nth_error a0 (length (pre ++ l1')) = None).
      { apply nth_error_None. rewrite (Forall2_length' _ _ _ F2), app_length. lia. }
      unfold field_step_ok in FS. rewrite NK in FS.
      exists pre, (l1' ++ add_field c f :: l2). rewrite <- app_assoc in WN, BN |- *.
      split; [reflexivity|]. split; [exact F2|]. split; [exact WN|]. split; [|exact BN].
      intros y HY. apply in_app_or in HY. destruct HY as [HY|[<-|HY]].
      * apply NFs. apply in_or_app. left; exact HY.
      * intros CF. cbn [add_field c_fun c_fields] in *.
        assert (NC : new_fun_ok c) by (apply NFs; apply in_or_app; right; left; reflexivity).
        specialize (NC CF). destruct (c_fields c) as [|f0 r]; cbn [app]; [|exact NC].
        destruct (FS CF) as [X|X]; [contradiction|exact X].
      * apply NFs. apply in_or_app. right; right; exact HY.
Qed.

(** C29, closed under sequences: whatever sequence of the documented safe edits leads from
    [a0] to [a], the linter accepts [a] as compatible with [a0]. *)
Theorem lint_safe_seq : forall fx a0 a, wf a0 -> safe_seq a0 a -> lint_with fx a0 a = Accept.
Proof.
  intros fx a0 a W0 HS. destruct (safe_seq_shape a0 a W0 HS) as [pre [extras [E [F2 [W [NFs BXs]]]]]]. subst a.
  apply lint_accept_pointwise; try assumption.
  generalize (check_nat_usages (pre ++ extras)). revert F2. generalize (check_nat_usages a0). clear.
  intros oi F2 ni. induction F2; constructor; [apply comb_ext_local_ext; assumption|assumption].
Qed.

(* ================================================================== part 9 *)


(* ------------------------------------------------------------------ what the analysis says about a local mask *)

(** all constructor and function names pairwise distinct (tlgen enforces this: "constructor
    name is used again") *)
Definition wfs (a : schema) : Prop := NoDup (map c_name (filter (fun c => is_type c || c_fun c) a)).

Lemma NoDup_map_inj : forall {A} (g : A -> string) l x y, NoDup (map g l) -> In x l -> In y l -> g x = g y -> x = y.
Proof.
  intros A g l x y. induction l as [|z r IH]; intros ND HX HY E; [destruct HX|]. cbn [map] in ND. inversion ND as [|? ? NI ND']; subst.
  destruct HX as [<-|HX], HY as [<-|HY]; try reflexivity.
  - exfalso. apply NI. rewrite E. apply in_map. exact HY.
  - exfalso. apply NI. rewrite <- E. apply in_map. exact HX.
  - apply IH; assumption.
Qed.

Lemma filter_filter_sub : forall {A} (p q : A -> bool) l, (forall x, p x = true -> q x = true) -> filter p (filter q l) = filter p l.
Proof.
  intros A p q l H. induction l as [|x r IH]; [reflexivity|]. cbn [filter].
  destruct (q x) eqn:Q; cbn [filter]; [rewrite IH; reflexivity|].
  destruct (p x) eqn:P; [rewrite (H x P) in Q; discriminate|exact IH].
Qed.

Lemma wfs_wf : forall a, wfs a -> wf a.
Proof.
  intros a H. unfold wfs in H. split.
  - rewrite <- (filter_filter_sub is_type (fun c => is_type c || c_fun c)) by (intros x ->; reflexivity).
    apply NoDup_map_filter. exact H.
  - rewrite <- (filter_filter_sub c_fun (fun c => is_type c || c_fun c)) by (intros x ->; apply orb_true_r).
    apply NoDup_map_filter. exact H.
Qed.

Lemma proc_list_in : forall a y, In y (proc_list a) -> In y a /\ (is_type y || c_fun y = true).
Proof.
  intros a y H. unfold proc_list in H. apply in_app_or in H. destruct H as [H|H].
  - apply in_flat_map in H. destruct H as [T [_ H]]. apply in_types_of in H. destruct H as [H1 [H2 _]]. rewrite H2. tauto.
  - unfold fun_values in H. apply in_flat_map in H. destruct H as [n [_ H]].
    destruct (function_of a n) as [z|] eqn:F; [|destruct H]. destruct H as [<-|[]].
    apply function_of_spec in F. destruct F as [F1 [F2 _]]. rewrite F2, orb_true_r. tauto.
Qed.

Lemma in_proc_list : forall a c, wf a -> In c a -> is_type c || c_fun c = true -> In c (proc_list a).
Proof.
  intros a c [_ W2] HI HK. unfold proc_list. apply in_or_app. destruct (is_type c) eqn:IT.
  - left. apply in_flat_map. exists (c_tname c). split; [apply in_type_order; exists c; tauto|apply in_types_of; tauto].
  - right. cbn [orb] in HK. unfold fun_values. apply in_flat_map. exists (c_name c). split.
    + apply in_dedup_str. split; [|intros []]. unfold fun_order. apply in_map. apply filter_In. tauto.
    + rewrite (function_of_unique a c W2 HI HK). left; reflexivity.
Qed.

Lemma infoC_own : forall a c j, wfs a -> In c a -> is_type c || c_fun c = true ->
  infoC (check_nat_usages a) (c_name c) j = nf_contrib (check_nat_usages a) c j.
Proof.
  intros a c j W HI HK. unfold infoC. cbn [check_nat_usages ni_tl].
  pose proof (in_proc_list a c (wfs_wf a W) HI HK) as HP.
  destruct (find_last_exists (fun x => String.eqb (c_name x) (c_name c)) (proc_list a) c HP (String.eqb_refl _)) as [y Hy].
  rewrite Hy. apply find_last_some_sat in Hy. destruct Hy as [HY EN]. apply String.eqb_eq in EN.
  apply proc_list_in in HY. destruct HY as [HY KY].
  assert (y = c); [|subst; reflexivity].
  apply (NoDup_map_inj c_name (filter (fun c => is_type c || c_fun c) a)); [exact W| | |exact EN]; apply filter_In; tauto.
Qed.

Lemma hits_args_none : forall rec s tn args i,
  (forall a, In a args -> match a with TRef an _ _ => an <> s /\ rec a = [] | TNat _ => True end) ->
  hits_args rec s tn args i = [].
Proof.
  intros rec s tn args. induction args as [|a r IH]; intros i H; [reflexivity|]. cbn [hits_args].
  rewrite IH by (intros x HX; apply H; right; exact HX).
  specialize (H a (or_introl eq_refl)). destruct a as [n|an ab aa]; [reflexivity|].
  destruct H as [NE R]. apply String.eqb_neq in NE. rewrite NE, R. reflexivity.
Qed.

Lemma search_hits_none : forall look s t, ~ In s (ty_names t) -> search_hits look s t = [].
Proof.
  intros look s t. induction t as [n|name bare args IH] using ty_ind'; intros NI; [reflexivity|].
  cbn [search_hits]. apply hits_args_none. intros a HA. destruct a as [n|an ab aa]; [exact I|].
  assert (NA : ~ In s (ty_names (TRef an ab aa))).
  { intros H. apply NI. right. apply in_flat_map. exists (TRef an ab aa). split; assumption. }
  split; [intros ->; apply NA; left; reflexivity|]. rewrite Forall_forall in IH. apply IH; assumption.
Qed.

(** a nat field whose name is mentioned in no type expression of its combinator: the analysis
    lists exactly the bits that later fields of the combinator use directly *)
Lemma infoC_not_passed : forall a c j fj, wfs a -> In c a -> is_type c || c_fun c = true ->
  nth_error (c_fields c) j = Some fj -> is_nat_field fj = true ->
  (forall g, In g (c_fields c) -> ~ In (f_name fj) (ty_names (f_ty g))) -> ~ In (f_name fj) (ty_names (c_res c)) ->
  infoC (check_nat_usages a) (c_name c) j = direct_bits c j fj.
Proof.
  intros a c j fj W HI HK HN NF NP NR. rewrite infoC_own by assumption. unfold nf_contrib. rewrite HN, NF.
  assert (E : field_hits (info_look (check_nat_usages a)) c j fj = []).
  { unfold field_hits. rewrite search_hits_none by exact NR.
    assert (flat_map (fun fk => search_hits (info_look (check_nat_usages a)) (f_name fj) (f_ty fk)) (skipn (S j) (c_fields c)) = []) as ->.
    { assert (SK : forall g, In g (skipn (S j) (c_fields c)) -> In g (c_fields c)).
      { intros g. generalize (S j). intros k. revert g. generalize (c_fields c). induction k as [|k IHk]; intros l g HG; [exact HG|].
        destruct l as [|x l']; [destruct HG|right; apply IHk; exact HG]. }
      induction (skipn (S j) (c_fields c)) as [|g r IH]; [reflexivity|]. cbn [flat_map].
      rewrite search_hits_none by (apply NP; apply SK; left; reflexivity). apply IH. intros g' HG. apply SK. right; exact HG. }
    destruct (c_fun c); reflexivity. }
  rewrite E. cbn [flat_map]. apply app_nil_r.
Qed.

Lemma infoC_has_direct : forall a c j fj b, wfs a -> In c a -> is_type c || c_fun c = true ->
  nth_error (c_fields c) j = Some fj -> is_nat_field fj = true ->
  In b (direct_bits c j fj) -> In b (infoC (check_nat_usages a) (c_name c) j).
Proof.
  intros a c j fj b W HI HK HN NF HB. rewrite infoC_own by assumption. unfold nf_contrib. rewrite HN, NF.
  apply in_or_app. left; exact HB.
Qed.

(* ------------------------------------------------------------------ C28 (partial): the field list under an accepted change *)

(** An abstract TL1 encoder of a constructor's field list: field [i] contributes its already
    encoded bytes [nth i vals] unless it has a mask whose bit is clear.  The mask is looked up
    the way the linter resolves names: through the combinator's [mapping] (field index, or
    -(k+1) for template argument k); [env] gives the value of the nat at such an index. *)
Definition field_present (mp : list (string * Z)) (env : Z -> N) (f : field) : bool :=
  match f_mask f with
  | None => true
  | Some (m, b) => N.testbit (env (mask_get mp m)) b
  end.

Fixpoint enc_fields (mp : list (string * Z)) (env : Z -> N) (fs : list field) (vals : list (list N)) : list N :=
  match fs with
  | [] => []
  | f :: r =>
    (if field_present mp env f then hd [] vals else []) ++ enc_fields mp env r (tl vals)
  end.

(** what acceptance gives for every old field *)
Lemma check_old_field_accept_mask : forall fx nm om nf of,
  check_old_field fx nm om nf of = Accept ->
  compare_types fx nm om (f_ty nf) (f_ty of) = Accept /\
  match f_mask nf, f_mask of with
  | None, None => True
  | Some (m', b'), Some (m, b) => mask_get nm m' = mask_get om m /\ b' = b
  | _, _ => False
  end.
Proof.
  intros fx nm om nf of H. unfold check_old_field in H. apply andv_accept in H. destruct H as [H1 H]. split; [exact H1|].
  apply andv_accept in H. destruct H as [_ H].
  destruct (f_mask nf) as [[m' b']|], (f_mask of) as [[m b]|]; try discriminate; [|exact I].
  destruct (Z.eqb (mask_get nm m') (mask_get om m)) eqn:EZ; cbn [negb] in H; [|discriminate].
  destruct (N.eqb b' b) eqn:EB; cbn [negb] in H; [|discriminate].
  apply Z.eqb_eq in EZ. apply N.eqb_eq in EB. tauto.
Qed.

Lemma field_present_same : forall fx nm om env nf of,
  check_old_field fx nm om nf of = Accept -> field_present nm env nf = field_present om env of.
Proof.
  intros fx nm om env nf of H. apply check_old_field_accept_mask in H. destruct H as [_ H]. unfold field_present.
  destruct (f_mask nf) as [[m' b']|], (f_mask of) as [[m b]|]; try contradiction; [|reflexivity].
  destruct H as [-> ->]. reflexivity.
Qed.

Lemma enc_old_part : forall fx nm om env os ns vals,
  check_old_fields fx nm om ns os = Accept -> (length os <= length ns)%nat ->
  exists rest, ns = firstn (length os) ns ++ rest /\
    enc_fields nm env ns vals = enc_fields om env os (firstn (length os) vals) ++ enc_fields nm env rest (skipn (length os) vals).
Proof.
  intros fx nm om env os. induction os as [|of os' IH]; intros ns vals H L.
  - exists ns. split; reflexivity.
  - destruct ns as [|nf ns']; [cbn in L; lia|]. cbn [check_old_fields] in H. apply andv_accept in H. destruct H as [H1 H2].
    cbn [length] in L. destruct (IH ns' (tl vals) H2) as [rest [E1 E2]]; [lia|].
    exists rest. cbn [length firstn app]. split; [rewrite <- E1; reflexivity|].
    cbn [enc_fields]. rewrite (field_present_same fx nm om env nf of H1), E2, <- app_assoc.
    destruct vals as [|v vs]; cbn [hd tl firstn skipn]; [|reflexivity].
    rewrite !firstn_nil, !skipn_nil. destruct (length os'); reflexivity.
Qed.

Lemma enc_absent : forall mp env fs vals,
  (forall f, In f fs -> field_present mp env f = false) -> enc_fields mp env fs vals = [].
Proof.
  intros mp env fs. induction fs as [|f r IH]; intros vals H; [reflexivity|]. cbn [enc_fields].
  rewrite (H f) by (left; reflexivity). apply IH. intros g HG. apply H. right; exact HG.
Qed.

(** C28 at the level of one constructor's field list: if the linter accepts the new
    constructor [nc] for the old [oc], then for every assignment of the masks in which the
    bits guarding the appended fields are clear (the value "only sets bits the old schema
    knows"), the new field list encodes to exactly the bytes of the old one -- whatever the
    appended fields' values are. *)
Theorem lint_accept_fields_encode_equal : forall fx oi ni nc oc env vals,
  c_fun oc = false ->
  check_comb fx oi ni nc oc = Accept ->
  exists extra, c_fields nc = firstn (length (c_fields oc)) (c_fields nc) ++ extra /\
    Forall (fun f => has_mask f = true) extra /\
    ((forall f, In f extra -> field_present (mapping nc) env f = false) ->
     enc_fields (mapping nc) env (c_fields nc) vals =
     enc_fields (mapping oc) env (c_fields oc) (firstn (length (c_fields oc)) vals)).
Proof.
  intros fx oi ni nc oc env vals CF H.
  pose proof (check_comb_accept_old_fields _ _ _ _ _ H) as [L HO].
  destruct (enc_old_part fx (mapping nc) (mapping oc) env (c_fields oc) (c_fields nc) vals HO L) as [rest [E1 E2]].
  exists rest. split; [exact E1|]. 
  assert (CN : check_new_fields oi ni nc (length (c_fields oc)) rest = Accept).
  { unfold check_comb in H.
    destruct (length (c_fields nc) <? length (c_fields oc))%nat; [discriminate|].
    destruct (length (c_targs nc) <? length (c_targs oc))%nat; [discriminate|].
    apply andv_accept in H. destruct H as [_ H]. unfold function_part in H. rewrite CF, andb_false_r in H.
    cbn [andv] in H. apply andv_accept in H. destruct H as [H _].
    assert (ER : rest = skipn (length (c_fields oc)) (c_fields nc)).
    { apply (app_inv_head (firstn (length (c_fields oc)) (c_fields nc))). rewrite firstn_skipn. symmetry; exact E1. }
    rewrite ER. exact H. }
  split.
  - rewrite Forall_forall. intros f HF. exact (check_new_fields_masked _ _ _ _ _ CN f HF).
  - intros AB. rewrite E2, (enc_absent _ _ rest _ AB). apply app_nil_r.
Qed.
