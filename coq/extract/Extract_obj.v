(** Extraction of the Obj family models (C18 random filling, C09 object reuse, C07 result
    transcoders) together with the TL1 codec they are stated over.  ExtrOcamlBasic only. *)
From Coq Require Extraction ExtrOcamlBasic.
From Coq Require Import NArith ZArith.
From TLV Require Tl1.Tl1Model Obj.ObjRandModel Obj.ObjReuseModel Obj.ObjResModel.
Extraction Blacklist String List Nat Int.
Separate Extraction
  BinNat.N.add BinNat.N.mul BinNat.N.div_eucl BinNat.N.eqb BinNat.N.ltb BinNat.N.of_nat BinNat.N.to_nat
  BinInt.Z.add BinInt.Z.mul BinInt.Z.opp BinInt.Z.of_N BinInt.Z.to_N BinInt.Z.ltb
  TLV.Tl1.Tl1Model TLV.Obj.ObjRandModel TLV.Obj.ObjReuseModel TLV.Obj.ObjResModel.
