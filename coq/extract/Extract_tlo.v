(** Extraction of the Tlo family: GenerateTLO model + tls.tl IR constant (C26), migration equivalence checker (C27).
    ExtrOcamlBasic only, no Extract Constant. *)
From Coq Require Extraction ExtrOcamlBasic.
From Coq Require Import NArith ZArith.
From TLV Require Tlo.TloModel Tlo.TloMigModel.
Extraction Blacklist String List Nat Int.
Separate Extraction
  BinNat.N.add BinNat.N.mul BinNat.N.div_eucl BinNat.N.eqb BinNat.N.ltb BinNat.N.of_nat BinNat.N.to_nat
  BinInt.Z.add BinInt.Z.mul BinInt.Z.opp BinInt.Z.of_N BinInt.Z.to_N BinInt.Z.ltb
  TLV.Tlo.TloModel TLV.Tlo.TloMigModel.
