(** Extraction of the Frame family models (C35 framing, C40 RPC headers) to OCaml.
    ExtrOcamlBasic only; N, Z, positive, nat stay Coq datatypes.  No Extract Constant anywhere. *)
From Coq Require Extraction ExtrOcamlBasic.
From Coq Require Import NArith ZArith.
From TLV Require Frame.FrameModel Frame.FrameHdrModel.
Extraction Blacklist String List Nat Int.
Separate Extraction
  BinNat.N.add BinNat.N.mul BinNat.N.div_eucl BinNat.N.eqb BinNat.N.ltb BinNat.N.of_nat BinNat.N.to_nat
  BinInt.Z.add BinInt.Z.mul BinInt.Z.opp BinInt.Z.of_N BinInt.Z.to_N BinInt.Z.ltb
  TLV.Frame.FrameModel TLV.Frame.FrameHdrModel.
