(** Extraction of the Build model (C14) to OCaml.  ExtrOcamlBasic only. *)
From Coq Require Extraction ExtrOcamlBasic.
From Coq Require Import NArith ZArith.
From TLV Require Build.BuildModel.
Extraction Blacklist String List Nat Int.
Separate Extraction
  BinNat.N.add BinNat.N.mul BinNat.N.div_eucl BinNat.N.eqb BinNat.N.ltb BinNat.N.of_nat BinNat.N.to_nat
  BinInt.Z.add BinInt.Z.mul BinInt.Z.opp BinInt.Z.of_N BinInt.Z.to_N BinInt.Z.ltb
  TLV.Build.BuildModel.
