(** Extraction of the IR isomorphism checker (ExtrOcamlBasic only, no Extract Constant). *)
From Coq Require Extraction ExtrOcamlBasic.
From Coq Require Import NArith ZArith.
From TLV Require Tl1.Tl1IsoModel.
Extraction Blacklist String List Nat Int.
Separate Extraction
  BinNat.N.add BinNat.N.mul BinNat.N.div_eucl BinNat.N.eqb BinNat.N.ltb BinNat.N.of_nat BinNat.N.to_nat
  BinInt.Z.add BinInt.Z.mul BinInt.Z.opp BinInt.Z.of_N BinInt.Z.to_N BinInt.Z.ltb
  TLV.Tl1.Tl1Model TLV.Tl1.Tl1IsoModel.
