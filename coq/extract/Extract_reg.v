(** Extraction of the Reg family (C17 registry, C43 accessors, C10 bytes variants) together with the
    schema-IR TL1 codec it builds on (ExtrOcamlBasic only, no Extract Constant). *)
From Coq Require Extraction ExtrOcamlBasic.
From Coq Require Import NArith ZArith.
From TLV Require Tl1.Tl1Model Reg.RegModel Reg.RegAccModel Reg.RegBytesModel.
Extraction Blacklist String List Nat Int.
Separate Extraction
  BinNat.N.add BinNat.N.mul BinNat.N.div_eucl BinNat.N.eqb BinNat.N.ltb BinNat.N.of_nat BinNat.N.to_nat
  BinInt.Z.add BinInt.Z.mul BinInt.Z.opp BinInt.Z.of_N BinInt.Z.to_N BinInt.Z.ltb
  BinNat.N.testbit
  TLV.Tl1.Tl1Model TLV.Reg.RegModel TLV.Reg.RegAccModel TLV.Reg.RegBytesModel.
