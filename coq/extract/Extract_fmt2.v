(** Extraction of the Fmt2 model (C22) to OCaml.  ExtrOcamlBasic only; no Extract Constant. *)
From Coq Require Extraction ExtrOcamlBasic.
From Coq Require Import NArith ZArith.
From TLV Require Fmt2.Fmt2Model Fmt2.Fmt2LexModel.
Extraction Blacklist String List Nat Int.
Separate Extraction
  BinNat.N.add BinNat.N.mul BinNat.N.div_eucl BinNat.N.eqb BinNat.N.ltb BinNat.N.of_nat BinNat.N.to_nat
  BinInt.Z.add BinInt.Z.mul BinInt.Z.opp BinInt.Z.of_N BinInt.Z.to_N BinInt.Z.ltb
  TLV.Fmt2.Fmt2Model TLV.Fmt2.Fmt2LexModel.
