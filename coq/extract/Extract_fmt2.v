(** Extraction of the Fmt2 model (C22) to OCaml.  ExtrOcamlBasic only; no Extract Constant. *)
From Coq Require Extraction ExtrOcamlBasic.
From Coq Require Import NArith ZArith.
From TLV Require Fmt2.Fmt2Model Fmt2.Fmt2LexModel Fmt2.Fmt2ParseModel Fmt2.Fmt2PrintProofs Fmt2.Fmt2ParseProofs.
(* the hypotheses of the theorems (wf_comb, wf2_comb, comb_bar) are extracted from the proof files so that the check can
   evaluate them on every AST the real parser returns; vlib hashes only *Model.v: bump this line when they change (v2: F19 repair, wf2_field/wf_field_core follow the field name) *)
Extraction Blacklist String List Nat Int.
Separate Extraction
  BinNat.N.add BinNat.N.mul BinNat.N.div_eucl BinNat.N.eqb BinNat.N.ltb BinNat.N.of_nat BinNat.N.to_nat
  BinInt.Z.add BinInt.Z.mul BinInt.Z.opp BinInt.Z.of_N BinInt.Z.to_N BinInt.Z.ltb
  TLV.Fmt2.Fmt2Model TLV.Fmt2.Fmt2LexModel TLV.Fmt2.Fmt2ParseModel
  TLV.Fmt2.Fmt2PrintProofs.wf_comb TLV.Fmt2.Fmt2PrintProofs.comb_bar TLV.Fmt2.Fmt2ParseProofs.wf2_comb.
