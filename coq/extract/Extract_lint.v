(** Extraction of the Lint family models (C24, C28, C29, C30) to OCaml.  ExtrOcamlBasic only;
    strings, ascii, N, Z, nat stay Coq datatypes.  No Extract Constant anywhere. *)
From Coq Require Extraction ExtrOcamlBasic.
From Coq Require Import NArith ZArith String.
From TLV Require Lint.LintModel.
Extraction Blacklist String List Nat Int.
Separate Extraction
  BinNat.N.add BinNat.N.mul BinNat.N.div_eucl BinNat.N.eqb BinNat.N.ltb BinNat.N.of_nat BinNat.N.to_nat
  BinInt.Z.add BinInt.Z.mul BinInt.Z.opp BinInt.Z.of_N BinInt.Z.to_N BinInt.Z.ltb
  TLV.Lint.LintModel.
