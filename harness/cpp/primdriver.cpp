// C31 primitive-level driver over the C++ runtime that `tlgen --language=cpp` emits (gen/basictl/*).
// Same line protocol as ocaml/drv_cpp.ml (the extracted model coq/theories/Cpp/CppModel.v):
//
//   pr  <prim> <chunk> <hex>                               read one primitive through an input connector that
//                                                          hands out buffers of <chunk> bytes (0 = whole input)
//        -> ok <value> <consumed> | eof | reject
//   prn <prim> <chunk> <hexprefix> <n> <byte> <hexsuffix>  same, input = prefix ++ n * byte ++ suffix
//   pw  <prim> <first>:<chunk>:<cap> <value>               write one primitive into an output connector with
//                                                          <cap> bytes of room: first buffer <first> bytes, then
//                                                          <chunk> bytes each (0 = all that is left), filled 0xAA
//        -> ok <bytes> | writeerr
//   pwn string <first>:<chunk>:<cap> <n> <byte>            same, value = n * byte
//   <prim> = nat | int | float | long | double | string | bool:<false tag>:<true tag>   (tags decimal)
//   values: decimal raw bit pattern, hex (strings, "-" = empty), 0/1 (bool); byte strings longer than 64
//   bytes are printed as #<len>:<sum of bytes mod 2^32>:<first 16 hex>:<last 16 hex>
// Error classes as in driver.cpp: tl_error_type::STREAM_EOF -> eof, every other error (or a false
// return without error) -> reject.
#include <algorithm>
#include <cstdint>
#include <cstdio>
#include <cstring>
#include <iostream>
#include <sstream>
#include <string>
#include <vector>

#include "basictl/io_streams.h"
#include "basictl/io_connectors.h"

namespace bt = tlgen::basictl;

static int hexv(char c) {
    if (c >= '0' && c <= '9') return c - '0';
    if (c >= 'a' && c <= 'f') return c - 'a' + 10;
    if (c >= 'A' && c <= 'F') return c - 'A' + 10;
    return -1;
}

static bool unhex(const std::string &s, std::string &out) {
    out.clear();
    if (s == "-") return true;
    if (s.size() % 2) return false;
    out.reserve(s.size() / 2);
    for (size_t i = 0; i < s.size(); i += 2) {
        int a = hexv(s[i]), b = hexv(s[i + 1]);
        if (a < 0 || b < 0) return false;
        out.push_back(static_cast<char>(a * 16 + b));
    }
    return true;
}

static std::string hx(const unsigned char *p, size_t n) {
    if (n == 0) return "-";
    static const char *d = "0123456789abcdef";
    std::string r;
    r.reserve(n * 2);
    for (size_t i = 0; i < n; i++) {
        r.push_back(d[p[i] >> 4]);
        r.push_back(d[p[i] & 15]);
    }
    return r;
}

static std::string show_bytes(const unsigned char *p, size_t n) {
    if (n <= 64) return hx(p, n);
    uint32_t sum = 0;
    for (size_t i = 0; i < n; i++) sum += p[i];
    return "#" + std::to_string(n) + ":" + std::to_string(sum) + ":" + hx(p, 16) + ":" + hx(p + n - 16, 16);
}

// input connector: buffers of `chunk` bytes (0 = everything that is left); an empty span at the end
class chunk_in : public bt::tl_input_connector {
public:
    chunk_in(const std::string &b, size_t chunk) : buf(b), chunk(chunk) {}
    bt::tl_connector_result<std::span<const std::byte>> get_buffer() noexcept override {
        size_t left = buf.size() - used;
        size_t k = chunk == 0 ? left : std::min(chunk, left);
        return bt::tl_connector_result(std::span<const std::byte>{reinterpret_cast<const std::byte *>(buf.data()) + used, k});
    }
    void advance(size_t size) noexcept override { used += size; }
    size_t used = 0;
private:
    const std::string &buf;
    size_t chunk;
};

// output connector: `cap` bytes of room pre-filled with 0xAA, first buffer `first` bytes (if > 0), then `chunk`
class chunk_out : public bt::tl_output_connector {
public:
    chunk_out(size_t first, size_t chunk, size_t cap) : buf(cap, '\xAA'), next(first > 0 ? first : chunk), chunk(chunk) {}
    bt::tl_connector_result<std::span<std::byte>> get_buffer() noexcept override {
        size_t left = buf.size() - used;
        size_t k = next == 0 ? left : std::min(next, left);
        next = chunk;
        return bt::tl_connector_result(std::span<std::byte>{reinterpret_cast<std::byte *>(buf.data()) + used, k});
    }
    void advance(size_t size) noexcept override { used += size; }
    std::string buf;
    size_t used = 0;
private:
    size_t next, chunk;
};

static std::string classify(std::optional<bt::tl_error> &e) {
    if (!e.has_value()) return "reject";
    if (auto se = std::get_if<bt::tl_stream_error>(&*e)) {
        return se->type() == bt::tl_error_type::STREAM_EOF ? "eof" : "reject";
    }
    return "reject";
}

struct prim {
    std::string kind;
    uint32_t f = 0, t = 0;
};

static bool parse_prim(const std::string &s, prim &p) {
    std::vector<std::string> parts;
    std::stringstream ss(s);
    std::string x;
    while (std::getline(ss, x, ':')) parts.push_back(x);
    if (parts.empty()) return false;
    p.kind = parts[0];
    if (p.kind == "bool") {
        if (parts.size() != 3) return false;
        p.f = static_cast<uint32_t>(std::stoull(parts[1]));
        p.t = static_cast<uint32_t>(std::stoull(parts[2]));
        return true;
    }
    return parts.size() == 1 &&
           (p.kind == "nat" || p.kind == "int" || p.kind == "float" || p.kind == "long" || p.kind == "double" || p.kind == "string");
}

static std::string do_read(const prim &p, size_t chunk, const std::string &in) {
    chunk_in ic{in, chunk};
    std::string val;
    {
        bt::tl_istream is{ic};
        bool ok = false;
        if (p.kind == "nat") {
            uint32_t v = 0;
            ok = is.nat_read(v);
            val = std::to_string(v);
        } else if (p.kind == "int") {
            int32_t v = 0;
            ok = is.int_read(v);
            val = std::to_string(static_cast<uint32_t>(v));
        } else if (p.kind == "float") {
            float v = 0;
            ok = is.float_read(v);
            uint32_t bits = 0;
            std::memcpy(&bits, &v, 4);
            val = std::to_string(bits);
        } else if (p.kind == "long") {
            int64_t v = 0;
            ok = is.long_read(v);
            val = std::to_string(static_cast<uint64_t>(v));
        } else if (p.kind == "double") {
            double v = 0;
            ok = is.double_read(v);
            uint64_t bits = 0;
            std::memcpy(&bits, &v, 8);
            val = std::to_string(bits);
        } else if (p.kind == "string") {
            std::string v;
            ok = is.string_read(v);
            val = show_bytes(reinterpret_cast<const unsigned char *>(v.data()), v.size());
        } else {
            bool v = false;
            ok = is.bool_read(v, p.f, p.t);
            val = v ? "1" : "0";
        }
        if (!ok || is.has_error()) return classify(is.get_error());
        is.sync();
    }
    return "ok " + val + " " + std::to_string(ic.used);
}

static bool parse_spec(const std::string &s, size_t &first, size_t &chunk, size_t &cap) {
    unsigned long long a, b, c;
    if (std::sscanf(s.c_str(), "%llu:%llu:%llu", &a, &b, &c) != 3) return false;
    first = a, chunk = b, cap = c;
    return true;
}

static std::string do_write(const prim &p, const std::string &spec, const std::string &value, bool is_bytes) {
    size_t first, chunk, cap;
    if (!parse_spec(spec, first, chunk, cap)) return "driver-error bad blocks";
    chunk_out oc{first, chunk, cap};
    {
        bt::tl_ostream os{oc};
        bool ok = false;
        if (p.kind == "string") {
            std::string v;
            if (is_bytes) v = value; else if (!unhex(value, v)) return "driver-error bad hex";
            ok = os.string_write(v);
        } else if (p.kind == "bool") {
            ok = os.nat_write(value == "1" ? p.t : p.f);      // type_rw_bool_cpp.go: nat_write(item ? true_tag : false_tag)
        } else {
            unsigned long long n = std::stoull(value);
            if (p.kind == "nat") {
                ok = os.nat_write(static_cast<uint32_t>(n));
            } else if (p.kind == "int") {
                ok = os.int_write(static_cast<int32_t>(static_cast<uint32_t>(n)));
            } else if (p.kind == "float") {
                uint32_t bits = static_cast<uint32_t>(n);
                float v;
                std::memcpy(&v, &bits, 4);
                ok = os.float_write(v);
            } else if (p.kind == "long") {
                ok = os.long_write(static_cast<int64_t>(static_cast<uint64_t>(n)));
            } else {
                uint64_t bits = n;
                double v;
                std::memcpy(&v, &bits, 8);
                ok = os.double_write(v);
            }
        }
        if (!ok || os.has_error()) return "writeerr";
        os.sync();
    }
    return "ok " + show_bytes(reinterpret_cast<const unsigned char *>(oc.buf.data()), oc.used);
}

static std::string run(const std::vector<std::string> &f) {
    prim p;
    if (f.size() < 2 || !parse_prim(f[1], p)) return "driver-error bad prim";
    if (f[0] == "pr" && f.size() == 4) {
        std::string in;
        if (!unhex(f[3], in)) return "driver-error bad hex";
        return do_read(p, std::stoull(f[2]), in);
    }
    if (f[0] == "prn" && f.size() == 7) {
        std::string pre, b, suf;
        if (!unhex(f[3], pre) || !unhex(f[5], b) || b.size() != 1 || !unhex(f[6], suf)) return "driver-error bad hex";
        std::string in = pre + std::string(std::stoull(f[4]), b[0]) + suf;
        return do_read(p, std::stoull(f[2]), in);
    }
    if (f[0] == "pw" && f.size() == 4) return do_write(p, f[2], f[3], false);
    if (f[0] == "pwn" && f.size() == 5 && p.kind == "string") {
        std::string b;
        if (!unhex(f[4], b) || b.size() != 1) return "driver-error bad hex";
        return do_write(p, f[2], std::string(std::stoull(f[3]), b[0]), true);
    }
    return "driver-error unknown op " + f[0];
}

int main() {
    std::ios::sync_with_stdio(false);
    std::string line;
    while (std::getline(std::cin, line)) {
        std::istringstream ss(line);
        std::vector<std::string> f;
        std::string tok;
        while (ss >> tok) f.push_back(tok);
        std::string out;
        if (!f.empty()) {
            try {
                out = run(f);
            } catch (const std::exception &e) {
                out = std::string("exception ") + e.what();
                std::replace(out.begin(), out.end(), '\n', ' ');
            }
        }
        std::cout << out << "\n" << std::flush;
    }
    return 0;
}
