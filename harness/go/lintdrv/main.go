// C28 implementation-side oracle: for (old, new) schema pairs that the real linter accepts, Go
// code is generated from both by tl2gen (packages verifh/p<i>o and verifh/p<i>n, registered in
// pairs_gen.go, which lib/checks/C28.py writes).  For every top-level object of the OLD schema
// random values are produced by the old package's own FillRandom (which sets only field-mask bits
// the old schema gives meaning to) and
//   (1) the old TL1 bytes must be read completely by the new package and re-written unchanged
//       (functions: also accepted with one appended zero field mask, C28's "read as zero"),
//   (2) the old value, carried over as JSON, must be encoded by the new package to the same bytes.
//
// stdin: one line per pair "<index> <values per object>"; stdout: one line per pair.
package main

import (
	"bufio"
	"bytes"
	"encoding/hex"
	"fmt"
	"math/rand"
	"os"
	"strings"

	"github.com/VKCOM/tl/pkg/basictl"
)

// the method set shared by every generated meta.Object
type object interface {
	TLName() string
	FillRandom(rg *basictl.RandGenerator)
	ReadTL1Boxed(w []byte) ([]byte, error)
	WriteTL1BoxedGeneral(w []byte) ([]byte, error)
	ReadJSONGeneral(jctx *basictl.JSONReadContext, in *basictl.JsonLexer) error
	WriteJSONGeneral(jctx *basictl.JSONWriteContext, w []byte) ([]byte, error)
}

type item struct {
	name       string
	isFunction bool
}

type pair struct {
	items     []item
	createOld func(name string) object
	createNew func(name string) object
}

var pairs = map[int]*pair{}

func checkPair(p *pair, nvals int, seed int64) (res string) {
	cur := ""
	defer func() {
		if r := recover(); r != nil {
			res = fmt.Sprintf("panic %s %v", cur, r)
		}
	}()
	rnd := rand.New(rand.NewSource(seed))
	nobj, nval, padded, jsonOK, jsonSkipped, selfUnreadable := 0, 0, 0, 0, 0, 0
	for _, it := range p.items {
		cur = it.name
		if p.createOld(it.name) == nil {
			continue
		}
		if p.createNew(it.name) == nil {
			return "missing " + it.name
		}
		nobj++
		for k := 0; k < nvals; k++ {
			o, n := p.createOld(it.name), p.createNew(it.name)
			o.FillRandom(basictl.NewRandGenerator(rnd))
			bo, err := o.WriteTL1BoxedGeneral(nil)
			if err != nil {
				continue // the old value itself is not writable (e.g. a size mismatch produced by FillRandom)
			}
			if rest, err := p.createOld(it.name).ReadTL1Boxed(bo); err != nil || len(rest) != 0 {
				selfUnreadable++ // not the linter's business: the old code does not read back its own bytes (finding F6 of C01)
				continue
			}
			nval++
			in := bo
			rest, err := n.ReadTL1Boxed(in)
			if (err != nil || len(rest) != 0) && it.isFunction {
				// appended function arguments: the appended field mask is read as zero
				n = p.createNew(it.name)
				in = append(append([]byte{}, bo...), 0, 0, 0, 0)
				rest, err = n.ReadTL1Boxed(in)
				if err == nil && len(rest) == 0 {
					padded++
				}
			}
			if err != nil {
				return fmt.Sprintf("diff read %s old=%s err=%v", it.name, hex.EncodeToString(bo), err)
			}
			if len(rest) != 0 {
				return fmt.Sprintf("diff read-rest %s old=%s rest=%d", it.name, hex.EncodeToString(bo), len(rest))
			}
			bn, err := n.WriteTL1BoxedGeneral(nil)
			if err != nil || !bytes.Equal(bn, in) {
				return fmt.Sprintf("diff rewrite %s old=%s new=%s err=%v", it.name, hex.EncodeToString(in), hex.EncodeToString(bn), err)
			}
			// the same value through JSON
			js, err := o.WriteJSONGeneral(&basictl.JSONWriteContext{}, nil)
			if err != nil {
				continue
			}
			n2 := p.createNew(it.name)
			if err := n2.ReadJSONGeneral(&basictl.JSONReadContext{}, &basictl.JsonLexer{Data: js}); err != nil {
				jsonSkipped++ // JSON is not the wire format: its shape legitimately changes when a type becomes a union
				continue
			}
			jsonOK++
			bj, err := n2.WriteTL1BoxedGeneral(nil)
			if err != nil || !(bytes.Equal(bj, bo) || (it.isFunction && bytes.Equal(bj, append(append([]byte{}, bo...), 0, 0, 0, 0)))) {
				return fmt.Sprintf("diff json-encode %s json=%s old=%s new=%s err=%v", it.name, string(js), hex.EncodeToString(bo), hex.EncodeToString(bj), err)
			}
		}
	}
	return fmt.Sprintf("same objects=%d values=%d padded=%d json=%d json-unreadable=%d old-unreadable-by-old=%d", nobj, nval, padded, jsonOK, jsonSkipped, selfUnreadable)
}

func main() {
	sc := bufio.NewScanner(os.Stdin)
	w := bufio.NewWriter(os.Stdout)
	defer w.Flush()
	for sc.Scan() {
		f := strings.Fields(sc.Text())
		var idx, nvals int
		var seed int64
		if len(f) != 3 {
			fmt.Fprintln(w, "driver-error bad line")
			continue
		}
		fmt.Sscan(f[0], &idx)
		fmt.Sscan(f[1], &nvals)
		fmt.Sscan(f[2], &seed)
		p := pairs[idx]
		if p == nil {
			fmt.Fprintln(w, "driver-error unknown pair")
			continue
		}
		fmt.Fprintln(w, checkPair(p, nvals, seed))
	}
}
