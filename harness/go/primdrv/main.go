// primdrv: runs the exported primitive codecs of pkg/basictl on one operation per
// line and prints results in the format of the reference model driver (drv_prim.ml).
package main

import (
	"bufio"
	"bytes"
	"encoding/hex"
	"errors"
	"fmt"
	"io"
	"os"
	"strconv"
	"strings"

	"github.com/VKCOM/tl/pkg/basictl"
)

func unhex(s string) []byte {
	if s == "-" {
		return []byte{}
	}
	b, err := hex.DecodeString(s)
	if err != nil {
		panic(err)
	}
	return b
}

func hx(b []byte) string {
	if len(b) == 0 {
		return "-"
	}
	return hex.EncodeToString(b)
}

func cls(err error) string {
	if errors.Is(err, io.ErrUnexpectedEOF) {
		return "eof"
	}
	return "reject"
}

func bits(s string) []bool {
	if s == "-" {
		return nil
	}
	v := make([]bool, len(s))
	for i := range s {
		v[i] = s[i] == '1'
	}
	return v
}

func bitstr(v []bool) string {
	if len(v) == 0 {
		return "-"
	}
	var sb strings.Builder
	for _, b := range v {
		if b {
			sb.WriteByte('1')
		} else {
			sb.WriteByte('0')
		}
	}
	return sb.String()
}

func run(f []string) (out string) {
	defer func() {
		if r := recover(); r != nil {
			out = fmt.Sprintf("panic %v", r)
		}
	}()
	switch f[0] {
	case "str1_w":
		s := unhex(f[1])
		a := basictl.StringWrite(nil, string(s))
		b := basictl.StringWriteBytes([]byte{0xAA}, s) // non-empty destination: must append
		if !bytes.Equal(a, b[1:]) || b[0] != 0xAA {
			return "variant-mismatch StringWrite/StringWriteBytes"
		}
		return "ok " + hx(a)
	case "str1_r":
		in := unhex(f[1])
		var s string
		r, err := basictl.StringRead(in, &s)
		sb := []byte("dirty-old-content")
		r2, err2 := basictl.StringReadBytes(in, &sb)
		if (err == nil) != (err2 == nil) || (err != nil && cls(err) != cls(err2)) {
			return "variant-mismatch StringRead/StringReadBytes verdict"
		}
		if err != nil {
			return cls(err)
		}
		if s != string(sb) || !bytes.Equal(r, r2) {
			return "variant-mismatch StringRead/StringReadBytes value"
		}
		return "ok " + hx([]byte(s)) + " " + hx(r)
	case "str1_rw":
		in := unhex(f[1])
		var s string
		r, err := basictl.StringRead(in, &s)
		if err != nil {
			return cls(err)
		}
		return "ok " + hx([]byte(s)) + " " + hx(r) + " " + hx(basictl.StringWrite(nil, s))
	case "size2_rw":
		in := unhex(f[1])
		r, l, err := basictl.TL2ParseSize(in)
		if err != nil {
			return cls(err)
		}
		return "ok " + strconv.Itoa(l) + " " + hx(r) + " " + hx(basictl.TL2WriteSize(nil, l))
	case "size2_w":
		n, err := strconv.ParseUint(f[1], 10, 64)
		if err != nil || n > 1<<63-1 {
			return "driver-error size out of int range"
		}
		w := basictl.TL2WriteSize(nil, int(n))
		buf := make([]byte, 9)
		k := basictl.TL2PutSize(buf, int(n))
		c := basictl.TL2CalculateSize(int(n))
		if k != c || !bytes.Equal(buf[:k], w) {
			return "variant-mismatch TL2WriteSize/TL2PutSize/TL2CalculateSize"
		}
		return "ok " + hx(w) + " " + strconv.Itoa(c)
	case "size2_r":
		in := unhex(f[1])
		r, l, err := basictl.TL2ParseSize(in)
		var l2 int
		r2, err2 := basictl.TL2ReadSize(in, &l2)
		if (err == nil) != (err2 == nil) || (err == nil && (l != l2 || !bytes.Equal(r, r2))) {
			return "variant-mismatch TL2ParseSize/TL2ReadSize"
		}
		if err != nil {
			return cls(err)
		}
		return "ok " + strconv.Itoa(l) + " " + hx(r)
	case "str2_w":
		s := unhex(f[1])
		a := basictl.StringWriteTL2(nil, string(s))
		b := basictl.StringWriteTL2Bytes(nil, s)
		if !bytes.Equal(a, b) {
			return "variant-mismatch StringWriteTL2/Bytes"
		}
		return "ok " + hx(a)
	case "str2_r":
		in := unhex(f[1])
		var s string
		r, err := basictl.StringReadTL2(in, &s)
		sb := []byte("dirty-old-content")
		r2, err2 := basictl.StringReadTL2Bytes(in, &sb)
		if (err == nil) != (err2 == nil) || (err != nil && cls(err) != cls(err2)) {
			return "variant-mismatch StringReadTL2/Bytes verdict"
		}
		if err != nil {
			return cls(err)
		}
		if s != string(sb) || !bytes.Equal(r, r2) {
			return "variant-mismatch StringReadTL2/Bytes value"
		}
		return "ok " + hx([]byte(s)) + " " + hx(r)
	case "bitvec_w":
		return "ok " + hx(basictl.VectorBitContentWriteTL2(nil, bits(f[1])))
	case "bitvec_r":
		n, _ := strconv.Atoi(f[1])
		v := make([]bool, n)
		for i := range v {
			v[i] = i%3 == 0 // dirty destination
		}
		r, err := basictl.VectorBitContentReadTL2(unhex(f[2]), v)
		if err != nil {
			return cls(err)
		}
		return "ok " + bitstr(v) + " " + hx(r)
	case "nat_r":
		var v uint32
		r, err := basictl.NatRead(unhex(f[1]), &v)
		if err != nil {
			return cls(err)
		}
		return "ok " + strconv.FormatUint(uint64(v), 10) + " " + hx(r)
	case "long_r":
		var v int64
		r, err := basictl.LongRead(unhex(f[1]), &v)
		if err != nil {
			return cls(err)
		}
		return "ok " + strconv.FormatUint(uint64(v), 10) + " " + hx(r)
	case "bool1_r":
		ft, _ := strconv.ParseUint(f[1], 10, 32)
		tt, _ := strconv.ParseUint(f[2], 10, 32)
		var v bool
		r, err := basictl.ReadBool(unhex(f[3]), &v, uint32(ft), uint32(tt))
		if err != nil {
			return cls(err)
		}
		return "ok " + strconv.FormatBool(v) + " " + hx(r)
	}
	return "driver-error unknown op " + strings.Join(f, " ")
}

func main() {
	sc := bufio.NewScanner(os.Stdin)
	sc.Buffer(make([]byte, 1<<20), 1<<28)
	w := bufio.NewWriterSize(os.Stdout, 1<<20)
	defer w.Flush()
	for sc.Scan() {
		f := strings.Fields(sc.Text())
		if len(f) == 0 {
			w.WriteString("\n")
			continue
		}
		w.WriteString(run(f))
		w.WriteByte('\n')
	}
}
