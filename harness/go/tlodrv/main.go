// tlodrv (C27): ONE binary driving two freshly generated packages: verifh/geno (the original TL1 schema generated with
// --tl2WhiteList) and verifh/genm (the schema produced by `tl2gen --language=tl2migration`).
// Line protocol: "<side> <op> <args...>" with side o|m; one result line per input line.
//
//	o|m items                      factory items "name,tag,isFunction,hasTL1,hasTL2;..."
//	o|m mrand <name> <seed>        FillRandom from a scripted source: "ok <tl2 hex> <json hex>"
//	o|m mread2 <name> <tl2 hex>    ReadTL2 into a fresh object: "ok <consumed> <tl2 hex> <json hex>" of what was read | "err"
//	o|m mreadj <name> <json hex>   ReadJSON into a fresh object: "ok <tl2 hex> <json hex>" | "err"
package main

import (
	"bufio"
	"encoding/hex"
	"fmt"
	"os"
	"runtime/debug"
	"sort"
	"strconv"
	"strings"

	"github.com/VKCOM/tl/pkg/basictl"

	factorym "verifh/genm/factory"
	metam "verifh/genm/meta"
	factoryo "verifh/geno/factory"
	metao "verifh/geno/meta"
)

type obj interface {
	FillRandom(rg *basictl.RandGenerator)
	ReadTL2(r []byte, tctx *basictl.TL2ReadContext) ([]byte, error)
	WriteTL2(w []byte, tctx *basictl.TL2WriteContext) []byte
	WriteJSONGeneral(jctx *basictl.JSONWriteContext, w []byte) ([]byte, error)
	ReadJSONGeneral(jctx *basictl.JSONReadContext, in *basictl.JsonLexer) error
}

func newObj(side, name string) obj {
	var o any
	if side == "o" {
		if x := factoryo.CreateObjectFromName(name); x != nil {
			o = x
		}
	} else {
		if x := factorym.CreateObjectFromName(name); x != nil {
			o = x
		}
	}
	if o == nil {
		return nil
	}
	t, ok := o.(obj)
	if !ok {
		return nil
	}
	return t
}

func hx(b []byte) string {
	if len(b) == 0 {
		return "-"
	}
	return hex.EncodeToString(b)
}

func unhex(s string) []byte {
	if s == "-" {
		return []byte{}
	}
	b, err := hex.DecodeString(s)
	if err != nil {
		panic("bad hex in op")
	}
	return b
}

// scripted basictl.Rand (splitmix64), the same source as harness/go/gendrv/ops_tl1.go
type srand struct{ s uint64 }

func (r *srand) next() uint64 {
	r.s += 0x9e3779b97f4a7c15
	z := r.s
	z = (z ^ (z >> 30)) * 0xbf58476d1ce4e5b9
	z = (z ^ (z >> 27)) * 0x94d049bb133111eb
	return z ^ (z >> 31)
}
func (r *srand) Uint32() uint32       { return uint32(r.next() >> 32) }
func (r *srand) Int31() int32         { return int32(r.next() >> 33) }
func (r *srand) Int63() int64         { return int64(r.next() >> 1) }
func (r *srand) NormFloat64() float64 { return float64(int64(r.next()>>11)-(1<<52)) / float64(1<<50) }

func both(o obj) string {
	w := o.WriteTL2(nil, nil)
	j, err := o.WriteJSONGeneral(&basictl.JSONWriteContext{}, nil)
	js := "jsonerr"
	if err == nil {
		js = hx(j)
	}
	return hx(w) + " " + js
}

func items(side string) string {
	var parts []string
	if side == "o" {
		for _, it := range metao.GetAllTLItems() {
			parts = append(parts, fmt.Sprintf("%s,%08x,%v,%v,%v", it.TLName(), it.TLTag(), it.IsFunction(), it.HasTL1(), it.HasTL2()))
		}
	} else {
		for _, it := range metam.GetAllTLItems() {
			parts = append(parts, fmt.Sprintf("%s,%08x,%v,%v,%v", it.TLName(), it.TLTag(), it.IsFunction(), it.HasTL1(), it.HasTL2()))
		}
	}
	sort.Strings(parts)
	return "ok " + strings.Join(parts, ";")
}

func run(f []string) (out string) {
	defer func() {
		if r := recover(); r != nil {
			out = strings.ReplaceAll(fmt.Sprintf("panic %v", r), "\n", " ")
		}
	}()
	if len(f) < 2 || (f[0] != "o" && f[0] != "m") {
		return "driver-error bad line"
	}
	side, op := f[0], f[1]
	if op == "items" {
		return items(side)
	}
	if len(f) < 4 {
		return "driver-error bad line"
	}
	o := newObj(side, f[2])
	if o == nil {
		return "driver-error no object " + f[2]
	}
	switch op {
	case "mrand":
		seed, _ := strconv.ParseUint(f[3], 10, 64)
		o.FillRandom(basictl.NewRandGenerator(&srand{s: seed}))
		return "ok " + both(o)
	case "mread2":
		in := unhex(f[3])
		rest, err := o.ReadTL2(in, nil)
		if err != nil {
			return "err"
		}
		return "ok " + strconv.Itoa(len(in)-len(rest)) + " " + both(o)
	case "mreadj":
		if err := o.ReadJSONGeneral(&basictl.JSONReadContext{}, &basictl.JsonLexer{Data: unhex(f[3])}); err != nil {
			return "err"
		}
		return "ok " + both(o)
	}
	return "driver-error unknown op " + op
}

func main() {
	// a runaway FillRandom recursion (F7, owned by C18) ends in a fatal stack overflow: keep the limit small so dying is quick
	debug.SetMaxStack(24 << 20)
	sc := bufio.NewScanner(os.Stdin)
	sc.Buffer(make([]byte, 1<<20), 1<<28)
	w := bufio.NewWriterSize(os.Stdout, 1<<20)
	defer w.Flush()
	for sc.Scan() {
		f := strings.Fields(sc.Text())
		if len(f) == 0 {
			w.WriteString("\n")
			continue
		}
		w.WriteString(run(f))
		w.WriteByte('\n')
		w.Flush()
	}
}
