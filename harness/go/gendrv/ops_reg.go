package main

// Reg family, C17: the runtime registry (meta / factory) of freshly generated code.

import (
	"fmt"
	"reflect"
	"runtime/debug"
	"strconv"
	"strings"
	"unicode"

	"github.com/VKCOM/tl/pkg/basictl"
	"verifh/gen/factory"
	"verifh/gen/meta"
)

func regUpperFirst(s string) string {
	r := []rune(s)
	if len(r) == 0 {
		return s
	}
	r[0] = unicode.ToUpper(r[0])
	return string(r)
}

func regAnnList(s string) []string {
	if s == "-" || s == "" {
		return nil
	}
	return strings.Split(s, ",")
}

// number of AnnotationXxx methods in the generated TLItem interface
func regAnnMethods() int {
	t := reflect.TypeOf((*meta.TLItem)(nil)).Elem()
	n := 0
	for i := 0; i < t.NumMethod(); i++ {
		if strings.HasPrefix(t.Method(i).Name, "Annotation") {
			n++
		}
	}
	return n
}

func regObjName(o meta.Object) string {
	if o == nil || (reflect.ValueOf(o).Kind() == reflect.Ptr && reflect.ValueOf(o).IsNil()) {
		return "none"
	}
	return o.TLName()
}

// creatability on a lookup path: a nil constructor must show up as a result, not kill the whole line
func regSafe(f func() string) (res string) {
	defer func() {
		if r := recover(); r != nil {
			res = "panic"
		}
	}()
	return f()
}

func regShowItem(it meta.TLItem, anns []string) string {
	bits := ""
	iv := reflect.ValueOf(it)
	for _, a := range anns {
		m := iv.MethodByName("Annotation" + regUpperFirst(a))
		if !m.IsValid() {
			bits += "?"
			continue
		}
		if m.Call(nil)[0].Bool() {
			bits += "1"
		} else {
			bits += "0"
		}
	}
	if bits == "" {
		bits = "-"
	}
	namert := "none"
	if x := meta.FactoryItemByTLName(it.TLName()); x != nil {
		if x == it {
			namert = "same"
		} else {
			namert = "other"
		}
	}
	tagrt := "none"
	factag := "none"
	if x := meta.FactoryItemByTLTag(it.TLTag()); x != nil {
		if x == it {
			tagrt = "same"
		} else {
			tagrt = fmt.Sprintf("other:%s:fun=%v", x.TLName(), x.IsFunction()) // a different item object sits in the tag index
		}
		factag = regSafe(func() string { return regObjName(factory.CreateObject(it.TLTag())) })
	} else if o := factory.CreateObject(it.TLTag()); o != nil {
		factag = "unexpected:" + o.TLName()
	}
	obj := it.CreateObject()
	fn := "none"
	if it.IsFunction() {
		fn = it.CreateFunction().TLName()
	}
	facfn := "none"
	if f := factory.CreateFunctionFromName(it.TLName()); f != nil {
		facfn = f.TLName()
		if regSafe(func() string {
			if f2 := factory.CreateFunction(it.TLTag()); f2 == nil || reflect.TypeOf(f2) != reflect.TypeOf(f) {
				return "bad"
			}
			return "ok"
		}) != "ok" {
			facfn += "!bytag"
		}
	}
	facname := regObjName(factory.CreateObjectFromName(it.TLName()))
	if reflect.TypeOf(factory.CreateObjectFromName(it.TLName())) != reflect.TypeOf(obj) {
		facname += "!type"
	}
	// the object created on this path writes a boxed encoding that starts with the tag it reports (write errors of a
	// zero object -- size fields vs empty arrays -- are not this property's)
	box := "ok"
	if it.HasTL1() {
		func() {
			old := debug.SetMaxStack(32 << 20)
			defer debug.SetMaxStack(old)
			if w, err := obj.WriteTL1BoxedGeneral(nil); err == nil {
				t := obj.TLTag()
				if len(w) < 4 || w[0] != byte(t) || w[1] != byte(t>>8) || w[2] != byte(t>>16) || w[3] != byte(t>>24) {
					box = "bad:" + hx(w)
				}
			}
		}()
	}
	return fmt.Sprintf("ok %s %08x fun=%v tl1=%v tl2=%v ann=%s/%d namert=%s tagrt=%s obj=%s,%08x fn=%s facname=%s factag=%s facfn=%s box=%s",
		it.TLName(), it.TLTag(), it.IsFunction(), it.HasTL1(), it.HasTL2(), bits, regAnnMethods(), namert, tagrt,
		obj.TLName(), obj.TLTag(), fn, facname, factag, facfn, box)
}

func init() {
	ops["regcount"] = func(f []string) string {
		return "ok " + strconv.Itoa(len(meta.GetAllTLItems()))
	}
	// regname <name> <ann,ann,...|->
	ops["regname"] = func(f []string) string {
		it := meta.FactoryItemByTLName(f[1])
		if it == nil {
			if factory.CreateObjectFromName(f[1]) != nil || factory.CreateFunctionFromName(f[1]) != nil {
				return "factory-creates-unregistered"
			}
			return "none"
		}
		return regShowItem(it, regAnnList(f[2]))
	}
	// regtag <tag decimal> <ann,ann,...|->
	ops["regtag"] = func(f []string) string {
		t, _ := strconv.ParseUint(f[1], 10, 32)
		it := meta.FactoryItemByTLTag(uint32(t))
		if it == nil {
			if factory.CreateObject(uint32(t)) != nil || factory.CreateFunction(uint32(t)) != nil {
				return "factory-creates-unregistered"
			}
			return "none"
		}
		return regShowItem(it, regAnnList(f[2]))
	}
	// regidx <i> <ann,ann,...|->: the i-th item of GetAllTLItems()
	ops["regidx"] = func(f []string) string {
		i, _ := strconv.Atoi(f[1])
		items := meta.GetAllTLItems()
		if i < 0 || i >= len(items) {
			return "none"
		}
		return regShowItem(items[i], regAnnList(f[2]))
	}
	// regbox <tid> <name> <hex> <seed|->: object state = FillRandom(seed) (must write <hex>) or ReadTL1Boxed(<hex>);
	// report TLName/TLTag of the object and the first 4 bytes it writes boxed
	ops["regbox"] = func(f []string) string {
		obj := factory.CreateObjectFromName(f[2])
		if obj == nil {
			return "driver-error no object " + f[2]
		}
		old := debug.SetMaxStack(32 << 20) // runaway recursion (F7 / F39, not ours) must die quickly
		defer debug.SetMaxStack(old)
		if f[4] != "-" {
			seed, _ := strconv.ParseUint(f[4], 10, 64)
			obj.FillRandom(basictl.NewRandGenerator(&srand{s: seed}))
		} else if _, err := obj.ReadTL1Boxed(unhex(f[3])); err != nil {
			return cls(err)
		}
		w, err := obj.WriteTL1BoxedGeneral(nil)
		if err != nil {
			return "writeerr"
		}
		if hx(w) != f[3] {
			return "different-bytes " + hx(w)
		}
		if len(w) > 4 {
			w = w[:4]
		}
		return fmt.Sprintf("ok %s %08x %s", obj.TLName(), obj.TLTag(), hx(w))
	}
	// regrand <name> <seed>: like rand1, but with a small stack limit so that a runaway FillRandom (F7, owned by
	// C18) dies quickly instead of filling 256 MB of stack first
	ops["regrand"] = func(f []string) string {
		obj := factory.CreateObjectFromName(f[1])
		if obj == nil {
			return "driver-error no object " + f[1]
		}
		old := debug.SetMaxStack(16 << 20)
		defer debug.SetMaxStack(old)
		seed, _ := strconv.ParseUint(f[2], 10, 64)
		obj.FillRandom(basictl.NewRandGenerator(&srand{s: seed}))
		w, err := obj.WriteTL1BoxedGeneral(nil)
		if err != nil {
			return "writeerr"
		}
		return "ok " + hx(w)
	}
	// regitems: names of all registry items in registration order
	ops["regitems"] = func(f []string) string {
		var parts []string
		for _, it := range meta.GetAllTLItems() {
			parts = append(parts, it.TLName())
		}
		return "ok " + strings.Join(parts, " ")
	}
}
