package main

// C08 (readers are total and bounded): reads of hostile inputs with allocation measurement.
// Every op answers with a verdict; a fatal error (stack overflow, out of memory) kills the
// process and is observed by the caller (vlib.run_lines_resilient).

import (
	"fmt"
	"reflect"
	"runtime"
	"runtime/debug"
	"strconv"

	"github.com/VKCOM/tl/pkg/basictl"

	"verifh/gen/factory"
)

// methods that exist only when TL2 code was generated are reached through local interfaces,
// so that this file compiles for every unit
type total2obj interface {
	ReadTL2(r []byte, tctx *basictl.TL2ReadContext) ([]byte, error)
	WriteTL2(w []byte, tctx *basictl.TL2WriteContext) []byte
}

type total2fn interface {
	ReadResultTL1WriteResultTL2(tctx *basictl.TL2WriteContext, r []byte, w []byte) (_ []byte, _ []byte, err error)
	ReadResultTL2WriteResultTL1(tctx *basictl.TL2ReadContext, r []byte, w []byte) (_ []byte, _ []byte, err error)
	ReadResultTL2WriteResultJSON(tctx *basictl.TL2ReadContext, jctx *basictl.JSONWriteContext, r []byte, w []byte) (_ []byte, _ []byte, err error)
	ReadResultJSONWriteResultTL2(jctx *basictl.JSONReadContext, tctx *basictl.TL2WriteContext, r []byte, w []byte) (_ []byte, _ []byte, err error)
}

// a runaway recursion must die quickly (fatal stack overflow after 16 MB, not after the 256 MB of main.go)
func totalSmall(h func(f []string) string) func(f []string) string {
	return func(f []string) string {
		old := debug.SetMaxStack(16 << 20)
		defer debug.SetMaxStack(old)
		return h(f)
	}
}

func totalMeasure(fn func()) (alloc uint64, mallocs uint64) {
	var m0, m1 runtime.MemStats
	runtime.ReadMemStats(&m0)
	fn()
	runtime.ReadMemStats(&m1)
	return m1.TotalAlloc - m0.TotalAlloc, m1.Mallocs - m0.Mallocs
}

// largest unit a reader can allocate repeatedly: slice elements, map entries, pointer targets
func totalElemSize(t reflect.Type, seen map[reflect.Type]bool, best *uintptr) {
	if seen[t] {
		return
	}
	seen[t] = true
	upd := func(s uintptr) {
		if s > *best {
			*best = s
		}
	}
	switch t.Kind() {
	case reflect.Slice:
		upd(t.Elem().Size())
		totalElemSize(t.Elem(), seen, best)
	case reflect.Array:
		totalElemSize(t.Elem(), seen, best)
	case reflect.Ptr:
		upd(t.Elem().Size())
		totalElemSize(t.Elem(), seen, best)
	case reflect.Map:
		upd(2 * (t.Key().Size() + t.Elem().Size() + 16))
		totalElemSize(t.Key(), seen, best)
		totalElemSize(t.Elem(), seen, best)
	case reflect.Struct:
		for i := 0; i < t.NumField(); i++ {
			totalElemSize(t.Field(i).Type, seen, best)
		}
	}
}

func init() {
	// rd8 <san> <tid> <name> <boxed> <hex>: TL1 read into a fresh object;
	// answer: <verdict> | <bytes allocated by the read> <mallocs>   verdict = ok <consumed> | eof | reject
	ops["rd8"] = totalSmall(func(f []string) string {
		obj := factory.CreateObjectFromName(f[3])
		if obj == nil {
			return "driver-error no object " + f[3]
		}
		in := unhex(f[5])
		boxed := f[4] == "1"
		var rest []byte
		var err error
		alloc, mallocs := totalMeasure(func() {
			if boxed {
				rest, err = obj.ReadTL1Boxed(in)
			} else {
				rest, err = obj.ReadTL1(in)
			}
		})
		v := ""
		if err != nil {
			v = cls(err)
		} else {
			v = "ok " + strconv.Itoa(len(in)-len(rest))
		}
		return fmt.Sprintf("%s | %d %d", v, alloc, mallocs)
	})
	// esize <name>: ok <size of the object> <largest repeatedly allocated unit (bytes)>
	ops["esize"] = func(f []string) string {
		obj := factory.CreateObjectFromName(f[1])
		if obj == nil {
			return "driver-error no object " + f[1]
		}
		t := reflect.TypeOf(obj)
		own := uintptr(0)
		if t.Kind() == reflect.Ptr {
			own = t.Elem().Size()
		}
		best := uintptr(16)
		totalElemSize(t, map[reflect.Type]bool{}, &best)
		return fmt.Sprintf("ok %d %d", own, best)
	}
	// rd2t <name> <hex>: TL2 read (totality only): ok <consumed> | err | notl2, plus allocation
	ops["rd2t"] = totalSmall(func(f []string) string {
		o := factory.CreateObjectFromName(f[1])
		if o == nil {
			return "driver-error no object " + f[1]
		}
		obj, ok := any(o).(total2obj)
		if !ok {
			return "notl2"
		}
		in := unhex(f[2])
		var rest []byte
		var err error
		alloc, mallocs := totalMeasure(func() { rest, err = obj.ReadTL2(in, nil) })
		if err != nil {
			return fmt.Sprintf("err | %d %d", alloc, mallocs)
		}
		return fmt.Sprintf("ok %d | %d %d", len(in)-len(rest), alloc, mallocs)
	})
	// rdjt <name> <json text as hex>: JSON read (totality only): ok | err, plus allocation
	ops["rdjt"] = totalSmall(func(f []string) string {
		obj := factory.CreateObjectFromName(f[1])
		if obj == nil {
			return "driver-error no object " + f[1]
		}
		txt := unhex(f[2])
		var err error
		alloc, mallocs := totalMeasure(func() {
			err = obj.ReadJSONGeneral(&basictl.JSONReadContext{}, &basictl.JsonLexer{Data: txt})
		})
		if err != nil {
			return fmt.Sprintf("err | %d %d", alloc, mallocs)
		}
		return fmt.Sprintf("ok | %d %d", alloc, mallocs)
	})
	// wj8 <name> <boxed> <tl1 hex>: JSON text (hex) of a value given by its TL1 encoding (seed for JSON mutations)
	ops["wj8"] = totalSmall(func(f []string) string {
		obj := factory.CreateObjectFromName(f[1])
		if obj == nil {
			return "driver-error no object " + f[1]
		}
		in := unhex(f[3])
		var err error
		if f[2] == "1" {
			_, err = obj.ReadTL1Boxed(in)
		} else {
			_, err = obj.ReadTL1(in)
		}
		if err != nil {
			return "err"
		}
		w, err := obj.WriteJSONGeneral(&basictl.JSONWriteContext{}, nil)
		if err != nil {
			return "err"
		}
		return "ok " + hx(w)
	})
	// w28 <name> <boxed> <tl1 hex>: TL2 encoding of a value given by its TL1 encoding (seed for TL2 mutations)
	ops["w28"] = totalSmall(func(f []string) string {
		o := factory.CreateObjectFromName(f[1])
		if o == nil {
			return "driver-error no object " + f[1]
		}
		obj, ok := any(o).(total2obj)
		if !ok {
			return "notl2"
		}
		in := unhex(f[3])
		var err error
		if f[2] == "1" {
			_, err = o.ReadTL1Boxed(in)
		} else {
			_, err = o.ReadTL1(in)
		}
		if err != nil {
			return "err"
		}
		return "ok " + hx(obj.WriteTL2(nil, nil))
	})
	// frr <name> <request tl1 hex (bare)> <seed>: a valid TL1 result of the function (FillRandomResultTL1)
	ops["frr"] = totalSmall(func(f []string) string {
		fn := factory.CreateFunctionFromName(f[1])
		if fn == nil {
			return "nofn"
		}
		if _, err := fn.ReadTL1(unhex(f[2])); err != nil {
			return "badreq"
		}
		seed, _ := strconv.ParseUint(f[3], 10, 64)
		w, err := fn.FillRandomResultTL1(basictl.NewRandGenerator(&srand{s: seed}), nil)
		if err != nil {
			return "err"
		}
		return "ok " + hx(w)
	})
	// trr <name> <kind> <request tl1 hex (bare)> <hex>: like trt but answers with the transcoded bytes (to seed mutations)
	ops["trr"] = totalSmall(func(f []string) string {
		fn := factory.CreateFunctionFromName(f[1])
		if fn == nil {
			return "nofn"
		}
		if _, err := fn.ReadTL1(unhex(f[3])); err != nil {
			return "badreq"
		}
		in := unhex(f[4])
		var w []byte
		var err error
		switch f[2] {
		case "1j":
			_, w, err = fn.ReadResultTL1WriteResultJSON(&basictl.JSONWriteContext{}, in, nil)
		case "12":
			f2, has2 := any(fn).(total2fn)
			if !has2 {
				return "notl2"
			}
			_, w, err = f2.ReadResultTL1WriteResultTL2(nil, in, nil)
		default:
			return "driver-error bad kind"
		}
		if err != nil {
			return "err"
		}
		return "ok " + hx(w)
	})
	// trt <name> <kind> <request tl1 hex (bare)> <hex>: function-result transcoder on hostile input;
	// kind = 1j | j1 | 12 | 21 | 2j | j2 ; answer ok | err | nofn | notl2 | badreq
	ops["trt"] = totalSmall(func(f []string) string {
		fn := factory.CreateFunctionFromName(f[1])
		if fn == nil {
			return "nofn"
		}
		if _, err := fn.ReadTL1(unhex(f[3])); err != nil {
			return "badreq"
		}
		in := unhex(f[4])
		var err error
		f2, has2 := any(fn).(total2fn)
		switch f[2] {
		case "1j":
			_, _, err = fn.ReadResultTL1WriteResultJSON(&basictl.JSONWriteContext{}, in, nil)
		case "j1":
			_, _, err = fn.ReadResultJSONWriteResultTL1(&basictl.JSONReadContext{}, in, nil)
		default:
			if !has2 {
				return "notl2"
			}
			switch f[2] {
			case "12":
				_, _, err = f2.ReadResultTL1WriteResultTL2(nil, in, nil)
			case "21":
				_, _, err = f2.ReadResultTL2WriteResultTL1(nil, in, nil)
			case "2j":
				_, _, err = f2.ReadResultTL2WriteResultJSON(nil, &basictl.JSONWriteContext{}, in, nil)
			case "j2":
				_, _, err = f2.ReadResultJSONWriteResultTL2(&basictl.JSONReadContext{}, nil, in, nil)
			default:
				return "driver-error bad kind"
			}
		}
		if err != nil {
			return "err"
		}
		return "ok"
	})
}
