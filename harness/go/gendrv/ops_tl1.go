package main

import (
	"fmt"
	"github.com/VKCOM/tl/pkg/basictl"
	"reflect"
	"sort"
	"strconv"
	"strings"

	"verifh/gen/factory"
	"verifh/gen/meta"
)

func init() {
	// rw1 <san> <tid> <name> <boxed> <hex>: read TL1, then write back what was read
	ops["rw1"] = func(f []string) string {
		obj := factory.CreateObjectFromName(f[3])
		if obj == nil {
			return "driver-error no object " + f[3]
		}
		in := unhex(f[5])
		boxed := f[4] == "1"
		var rest []byte
		var err error
		if boxed {
			rest, err = obj.ReadTL1Boxed(in)
		} else {
			rest, err = obj.ReadTL1(in)
		}
		if err != nil {
			return cls(err)
		}
		var w []byte
		if boxed {
			w, err = obj.WriteTL1BoxedGeneral(nil)
		} else {
			w, err = obj.WriteTL1General(nil)
		}
		if err != nil {
			return "ok " + strconv.Itoa(len(in)-len(rest)) + " writeerr"
		}
		return "ok " + strconv.Itoa(len(in)-len(rest)) + " " + hx(w)
	}
	// items: registry dump, one item per ';'
	ops["items"] = func(f []string) string {
		var parts []string
		for _, it := range meta.GetAllTLItems() {
			parts = append(parts, fmt.Sprintf("%s,%08x,%v,%v,%v", it.TLName(), it.TLTag(), it.IsFunction(), it.HasTL1(), it.HasTL2()))
		}
		sort.Strings(parts)
		return "ok " + strings.Join(parts, ";")
	}
}

// scripted basictl.Rand (deterministic from a seed; splitmix64)
type srand struct{ s uint64 }

func (r *srand) next() uint64 {
	r.s += 0x9e3779b97f4a7c15
	z := r.s
	z = (z ^ (z >> 30)) * 0xbf58476d1ce4e5b9
	z = (z ^ (z >> 27)) * 0x94d049bb133111eb
	return z ^ (z >> 31)
}
func (r *srand) Uint32() uint32       { return uint32(r.next() >> 32) }
func (r *srand) Int31() int32         { return int32(r.next() >> 33) }
func (r *srand) Int63() int64         { return int64(r.next() >> 1) }
func (r *srand) NormFloat64() float64 { return float64(int64(r.next()>>11)-(1<<52)) / float64(1<<50) }

func init() {
	// rand1 <name> <seed>: FillRandom with a scripted source, written boxed
	ops["rand1"] = func(f []string) string {
		obj := factory.CreateObjectFromName(f[1])
		if obj == nil {
			return "driver-error no object " + f[1]
		}
		seed, _ := strconv.ParseUint(f[2], 10, 64)
		obj.FillRandom(basictl.NewRandGenerator(&srand{s: seed}))
		w, err := obj.WriteTL1BoxedGeneral(nil)
		if err != nil {
			return "writeerr"
		}
		return "ok " + hx(w)
	}
}

func init() {
	// lenmis <name> <GoFieldName> <delta> <hex>: read TL1 (bare), then change the #-field that sizes a tuple
	// (reflection; this is how a caller builds a value whose array length disagrees with its size
	// parameter) and write: the writer must report an error, never bytes
	ops["lenmis"] = func(f []string) string {
		obj := factory.CreateObjectFromName(f[1])
		if obj == nil {
			return "driver-error no object " + f[1]
		}
		if _, err := obj.ReadTL1(unhex(f[4])); err != nil {
			return "readerr " + cls(err)
		}
		v := reflect.ValueOf(obj)
		if v.Kind() == reflect.Ptr {
			v = v.Elem()
		}
		if v.Kind() != reflect.Struct {
			return "skip not-a-struct"
		}
		fld := v.FieldByName(f[2])
		if !fld.IsValid() || fld.Kind() != reflect.Uint32 || !fld.CanSet() {
			return "skip no-field " + f[2]
		}
		d, _ := strconv.ParseInt(f[3], 10, 64)
		fld.SetUint(uint64(uint32(int64(fld.Uint()) + d)))
		w, err := obj.WriteTL1General(nil)
		if err != nil {
			return "writeerr"
		}
		return "ok " + hx(w)
	}
}
