package main

import (
	"fmt"
	"sort"
	"strconv"
	"strings"

	"verifh/gen/factory"
	"verifh/gen/meta"
)

func init() {
	// rw1 <san> <tid> <name> <boxed> <hex>: read TL1, then write back what was read
	ops["rw1"] = func(f []string) string {
		obj := factory.CreateObjectFromName(f[3])
		if obj == nil {
			return "driver-error no object " + f[3]
		}
		in := unhex(f[5])
		boxed := f[4] == "1"
		var rest []byte
		var err error
		if boxed {
			rest, err = obj.ReadTL1Boxed(in)
		} else {
			rest, err = obj.ReadTL1(in)
		}
		if err != nil {
			return cls(err)
		}
		var w []byte
		if boxed {
			w, err = obj.WriteTL1BoxedGeneral(nil)
		} else {
			w, err = obj.WriteTL1General(nil)
		}
		if err != nil {
			return "ok " + strconv.Itoa(len(in)-len(rest)) + " writeerr"
		}
		return "ok " + strconv.Itoa(len(in)-len(rest)) + " " + hx(w)
	}
	// items: registry dump, one item per ';'
	ops["items"] = func(f []string) string {
		var parts []string
		for _, it := range meta.GetAllTLItems() {
			parts = append(parts, fmt.Sprintf("%s,%08x,%v,%v,%v", it.TLName(), it.TLTag(), it.IsFunction(), it.HasTL1(), it.HasTL2()))
		}
		sort.Strings(parts)
		return "ok " + strings.Join(parts, ";")
	}
}
