package main

// Ops of the Tlo family (C27: TL1 -> TL2 migration).  The same driver is built once against the package generated
// from the original TL1 schema (with --tl2WhiteList) and once against the package generated from the migrated schema.
import (
	"encoding/hex"
	"runtime/debug"
	"strconv"

	"github.com/VKCOM/tl/pkg/basictl"

	"verifh/gen/factory"
)

type tloObj interface {
	FillRandom(rg *basictl.RandGenerator)
	ReadTL2(r []byte, tctx *basictl.TL2ReadContext) ([]byte, error)
	WriteTL2(w []byte, tctx *basictl.TL2WriteContext) []byte
	WriteJSONGeneral(jctx *basictl.JSONWriteContext, w []byte) ([]byte, error)
	ReadJSONGeneral(jctx *basictl.JSONReadContext, in *basictl.JsonLexer) error
}

func tloNew(name string) tloObj {
	o := factory.CreateObjectFromName(name)
	if o == nil {
		return nil
	}
	t, ok := any(o).(tloObj)
	if !ok {
		return nil
	}
	return t
}

// "<tl2 hex> <json hex>" of the object's current state
func tloBoth(obj tloObj) string {
	w := obj.WriteTL2(nil, nil)
	j, err := obj.WriteJSONGeneral(&basictl.JSONWriteContext{}, nil)
	js := "jsonerr"
	if err == nil {
		js = hx(j)
	}
	return hx(w) + " " + js
}

func init() {
	// mrand <name> <seed>: FillRandom from the scripted source; TL2 bytes and JSON of the value
	ops["mrand"] = small27(func(f []string) string {
		obj := tloNew(f[1])
		if obj == nil {
			return "driver-error no object " + f[1]
		}
		seed, _ := strconv.ParseUint(f[2], 10, 64)
		obj.FillRandom(basictl.NewRandGenerator(&srand{s: seed}))
		return "ok " + tloBoth(obj)
	})
	// mread2 <name> <tl2 hex>: read TL2 into a fresh object; consumed length, then TL2 bytes and JSON of what was read
	ops["mread2"] = small27(func(f []string) string {
		obj := tloNew(f[1])
		if obj == nil {
			return "driver-error no object " + f[1]
		}
		in := unhex(f[2])
		rest, err := obj.ReadTL2(in, nil)
		if err != nil {
			return "err"
		}
		return "ok " + strconv.Itoa(len(in)-len(rest)) + " " + tloBoth(obj)
	})
	// mreadj <name> <json hex>: read JSON into a fresh object; TL2 bytes and JSON of what was read
	ops["mreadj"] = small27(func(f []string) string {
		obj := tloNew(f[1])
		if obj == nil {
			return "driver-error no object " + f[1]
		}
		txt, err := hex.DecodeString(f[2])
		if err != nil {
			return "driver-error bad hex"
		}
		if err := obj.ReadJSONGeneral(&basictl.JSONReadContext{}, &basictl.JsonLexer{Data: txt}); err != nil {
			return "err"
		}
		return "ok " + tloBoth(obj)
	})
}

// A runaway FillRandom recursion (F7) ends in a fatal stack overflow; keep the limit small so that dying is quick.
func small27(h func(f []string) string) func(f []string) string {
	return func(f []string) string {
		old := debug.SetMaxStack(24 << 20)
		defer debug.SetMaxStack(old)
		return h(f)
	}
}
