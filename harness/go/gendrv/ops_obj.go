package main

// Ops of the Obj family (C18 random filling, C09 object reuse, C07 result transcoders).
import (
	"bytes"
	"fmt"
	"os"
	"reflect"
	"strconv"
	"strings"
	"time"

	"github.com/VKCOM/tl/pkg/basictl"

	"verifh/gen/factory"
	"verifh/gen/meta"
)

// TL2 methods exist in meta.Object only when TL2 code is generated
type objTL2 interface {
	ReadTL2(r []byte, tctx *basictl.TL2ReadContext) ([]byte, error)
	WriteTL2(w []byte, tctx *basictl.TL2WriteContext) []byte
}

func objHasTL2(name string) bool {
	it := meta.FactoryItemByTLName(name)
	return it != nil && it.HasTL2()
}

// objWriteTL2 returns (bytes, "ok") | (nil, "na") when the object has no TL2 | (nil, "panic ...")
func objWriteTL2(obj meta.Object, name string) (w []byte, st string) {
	t, ok := interface{}(obj).(objTL2)
	if !ok || !objHasTL2(name) {
		return nil, "na"
	}
	defer func() {
		if r := recover(); r != nil {
			w, st = nil, "panic"
		}
	}()
	return t.WriteTL2(nil, &basictl.TL2WriteContext{}), "ok"
}

func objReadTL2(obj meta.Object, in []byte) (rest []byte, err error, ok bool) {
	t, is := interface{}(obj).(objTL2)
	if !is {
		return nil, nil, false
	}
	rest, err = t.ReadTL2(in, &basictl.TL2ReadContext{})
	return rest, err, true
}

func objWriteJSON(obj meta.Object) ([]byte, error) {
	return obj.WriteJSONGeneral(&basictl.JSONWriteContext{}, nil)
}

func objReadJSON(obj meta.Object, txt []byte) error {
	return obj.ReadJSONGeneral(&basictl.JSONReadContext{}, &basictl.JsonLexer{Data: txt})
}

// objRand: the scripted source srand (ops_tl1.go) with a draw budget: the (max+1)-th draw panics
// (recovered by main.run -> "panic verif-draw-budget"); the model raises at the same position.
type objRand struct {
	srand
	n, max uint64
}

func (r *objRand) tick() {
	r.n++
	if r.n > r.max {
		panic("verif-draw-budget")
	}
}
func (r *objRand) Uint32() uint32       { r.tick(); return r.srand.Uint32() }
func (r *objRand) Int31() int32         { r.tick(); return r.srand.Int31() }
func (r *objRand) Int63() int64         { r.tick(); return r.srand.Int63() }
func (r *objRand) NormFloat64() float64 { r.tick(); return r.srand.NormFloat64() }

const objDrawBudget = 60000

// objWatch kills the process when one operation runs longer than d (a FillRandom that neither returns,
// nor overflows the stack, nor draws): run_lines_resilient reports the line as "crash fatal error: verif watchdog"
func objWatch(d time.Duration, what string) func() {
	t := time.AfterFunc(d, func() {
		fmt.Fprintln(os.Stderr, "fatal error: verif watchdog: "+what)
		os.Exit(3)
	})
	return func() { t.Stop() }
}

func objFill(name string, seed uint64) meta.Object {
	obj := factory.CreateObjectFromName(name)
	if obj == nil {
		return nil
	}
	defer objWatch(20*time.Second, "FillRandom "+name)()
	obj.FillRandom(basictl.NewRandGenerator(&objRand{srand: srand{s: seed}, max: objDrawBudget}))
	return obj
}

func init() {
	// orand <name> <seed>: FillRandom from the scripted source, then every writer.
	// result: ok <tl1 boxed hex> j=<ok|err|rt-reject|rt-diff> t2=<ok|na|panic|rt-reject|rt-diff> rep=<same|diff>
	//   j / t2: the writer accepted the value, and what it wrote reads back into a fresh object with the same TL1 bytes
	//   rep: a second object filled from the same seed writes the same TL1 bytes
	ops["orand"] = func(f []string) string {
		seed, _ := strconv.ParseUint(f[2], 10, 64)
		obj := objFill(f[1], seed)
		if obj == nil {
			return "driver-error no object " + f[1]
		}
		w, err := obj.WriteTL1BoxedGeneral(nil)
		if err != nil {
			return "writeerr"
		}
		js := "ok"
		if j, err := objWriteJSON(obj); err != nil {
			js = "err"
		} else {
			o2 := factory.CreateObjectFromName(f[1])
			if err := objReadJSON(o2, j); err != nil {
				js = "rt-reject"
			} else if w2, err := o2.WriteTL1BoxedGeneral(nil); err != nil || !bytes.Equal(w, w2) {
				js = "rt-diff"
			}
		}
		t2, ts := objWriteTL2(obj, f[1])
		if ts == "ok" {
			o2 := factory.CreateObjectFromName(f[1])
			if rest, err, _ := objReadTL2(o2, t2); err != nil || len(rest) != 0 {
				ts = "rt-reject"
			} else if w2, err := o2.WriteTL1BoxedGeneral(nil); err != nil || !bytes.Equal(w, w2) {
				ts = "rt-diff"
			}
		}
		rep := "same"
		again := objFill(f[1], seed)
		if w2, err := again.WriteTL1BoxedGeneral(nil); err != nil || !bytes.Equal(w, w2) {
			rep = "diff"
		}
		return "ok " + hx(w) + " j=" + js + " t2=" + ts + " rep=" + rep
	}
}

var _ = reflect.TypeOf
var _ = strings.Join
