package main

// Ops of the Obj family (C18 random filling, C09 object reuse, C07 result transcoders).
import (
	"bytes"
	"encoding/json"
	"fmt"
	"os"
	"reflect"
	"sort"
	"strconv"
	"strings"
	"sync"
	"sync/atomic"
	"time"

	"github.com/VKCOM/tl/pkg/basictl"

	"verifh/gen/factory"
	"verifh/gen/meta"
)

// TL2 methods exist in meta.Object only when TL2 code is generated
type objTL2 interface {
	ReadTL2(r []byte, tctx *basictl.TL2ReadContext) ([]byte, error)
	WriteTL2(w []byte, tctx *basictl.TL2WriteContext) []byte
}

func objHasTL2(name string) bool {
	it := meta.FactoryItemByTLName(name)
	return it != nil && it.HasTL2()
}

// objWriteTL2 returns (bytes, "ok") | (nil, "na") when the object has no TL2 | (nil, "panic ...")
func objWriteTL2(obj meta.Object, name string) (w []byte, st string) {
	t, ok := interface{}(obj).(objTL2)
	if !ok || !objHasTL2(name) {
		return nil, "na"
	}
	defer func() {
		if r := recover(); r != nil {
			w, st = nil, "panic"
		}
	}()
	return t.WriteTL2(nil, &basictl.TL2WriteContext{}), "ok"
}

func objReadTL2(obj meta.Object, in []byte) (rest []byte, err error, ok bool) {
	t, is := interface{}(obj).(objTL2)
	if !is {
		return nil, nil, false
	}
	rest, err = t.ReadTL2(in, &basictl.TL2ReadContext{})
	return rest, err, true
}

func objWriteJSON(obj meta.Object) ([]byte, error) {
	return obj.WriteJSONGeneral(&basictl.JSONWriteContext{}, nil)
}

func objReadJSON(obj meta.Object, txt []byte) error {
	return obj.ReadJSONGeneral(&basictl.JSONReadContext{}, &basictl.JsonLexer{Data: txt})
}

// objRand: the scripted source srand (ops_tl1.go) with a draw budget: the (max+1)-th draw panics
// (recovered by main.run -> "panic verif-draw-budget"); the model raises at the same position.
type objRand struct {
	srand
	n, max uint64
}

func (r *objRand) tick() {
	r.n++
	if r.n > r.max {
		panic("verif-draw-budget")
	}
}
func (r *objRand) Uint32() uint32       { r.tick(); return r.srand.Uint32() }
func (r *objRand) Int31() int32         { r.tick(); return r.srand.Int31() }
func (r *objRand) Int63() int64         { r.tick(); return r.srand.Int63() }
func (r *objRand) NormFloat64() float64 { r.tick(); return r.srand.NormFloat64() }

const objDrawBudget = 60000

// objWatch kills the process when one operation runs longer than d (a FillRandom that neither returns,
// nor overflows the stack, nor draws): run_lines_resilient reports the line as "crash fatal error: verif watchdog"
func objWatch(d time.Duration, what string) func() {
	t := time.AfterFunc(d, func() {
		fmt.Fprintln(os.Stderr, "fatal error: verif watchdog: "+what)
		os.Exit(3)
	})
	return func() { t.Stop() }
}

func objFill(name string, seed uint64) meta.Object {
	obj := factory.CreateObjectFromName(name)
	if obj == nil {
		return nil
	}
	defer objWatch(20*time.Second, "FillRandom "+name)()
	obj.FillRandom(basictl.NewRandGenerator(&objRand{srand: srand{s: seed}, max: objDrawBudget}))
	return obj
}

// objHandlers: RandgeneratorContext variants a user of the public API may install (NewRandGeneratorWithContext).
//   big1     SizeHandler: the first non-zero size becomes size+1024 (a #-field used as a size may exceed LimitValue's 1023)
//   mul37    SizeHandler: size*37
//   maskall  FieldMaskHandler: every used bit set        masknone  FieldMaskHandler: 0
func objHandlers(mode string) (basictl.RandgeneratorContext, bool) {
	switch mode {
	case "big1":
		done := false
		return basictl.RandgeneratorContext{SizeHandler: func(v uint32) uint32 {
			if v != 0 && !done {
				done = true
				return v + 1024
			}
			return v
		}}, true
	case "mul37":
		return basictl.RandgeneratorContext{SizeHandler: func(v uint32) uint32 { return v * 37 }}, true
	case "maskall":
		return basictl.RandgeneratorContext{FieldMaskHandler: func(v uint32, bits uint32) uint32 { return bits }}, true
	case "masknone":
		return basictl.RandgeneratorContext{FieldMaskHandler: func(v uint32, bits uint32) uint32 { return 0 }}, true
	}
	return basictl.RandgeneratorContext{}, false
}

func objFillH(name string, seed uint64, mode string) meta.Object {
	obj := factory.CreateObjectFromName(name)
	hctx, ok := objHandlers(mode)
	if obj == nil || !ok {
		return nil
	}
	defer objWatch(20*time.Second, "FillRandom "+name)()
	obj.FillRandom(basictl.NewRandGeneratorWithContext(&objRand{srand: srand{s: seed}, max: objDrawBudget}, hctx))
	return obj
}

// objAfterFill: every writer on a filled object (shared by orand / orandh)
func objAfterFill(obj meta.Object, name string, again func() meta.Object) string {
	w, err := obj.WriteTL1BoxedGeneral(nil)
	if err != nil {
		return "writeerr"
	}
	js := "ok"
	if j, err := objWriteJSON(obj); err != nil {
		js = "err"
	} else {
		o2 := factory.CreateObjectFromName(name)
		if err := objReadJSON(o2, j); err != nil {
			js = "rt-reject"
		} else if w2, err := o2.WriteTL1BoxedGeneral(nil); err != nil || !bytes.Equal(w, w2) {
			js = "rt-diff"
		}
	}
	t2, ts := objWriteTL2(obj, name)
	if ts == "ok" {
		o2 := factory.CreateObjectFromName(name)
		if rest, err, _ := objReadTL2(o2, t2); err != nil || len(rest) != 0 {
			ts = "rt-reject"
		} else if w2, err := o2.WriteTL1BoxedGeneral(nil); err != nil || !bytes.Equal(w, w2) {
			ts = "rt-diff"
		}
	}
	rep := "same"
	if w2, err := again().WriteTL1BoxedGeneral(nil); err != nil || !bytes.Equal(w, w2) {
		rep = "diff"
	}
	return "ok " + hx(w) + " j=" + js + " t2=" + ts + " rep=" + rep
}

func init() {
	// oconc <name> <seed> <k> <m>: k goroutines, each with its OWN RandGenerator over the scripted source of <seed>, fill a fresh
	// object of the type m times concurrently; every result must equal the sequential reference for that seed.
	// result: ok <reference TL1 boxed hex> conc=<same | diff:<number of differing fills> | panic>
	ops["oconc"] = func(f []string) string {
		seed, _ := strconv.ParseUint(f[2], 10, 64)
		k, _ := strconv.Atoi(f[3])
		m, _ := strconv.Atoi(f[4])
		ref := objFill(f[1], seed)
		if ref == nil {
			return "driver-error no object " + f[1]
		}
		w, err := ref.WriteTL1BoxedGeneral(nil)
		if err != nil {
			return "writeerr"
		}
		defer objWatch(30*time.Second, "concurrent FillRandom "+f[1])()
		var wg sync.WaitGroup
		var diff, panics int64
		for g := 0; g < k; g++ {
			wg.Add(1)
			go func() {
				defer wg.Done()
				defer func() {
					if r := recover(); r != nil {
						atomic.AddInt64(&panics, 1)
					}
				}()
				for it := 0; it < m; it++ {
					obj := factory.CreateObjectFromName(f[1])
					obj.FillRandom(basictl.NewRandGenerator(&objRand{srand: srand{s: seed}, max: objDrawBudget}))
					w2, err := obj.WriteTL1BoxedGeneral(nil)
					if err != nil || !bytes.Equal(w, w2) {
						atomic.AddInt64(&diff, 1)
					}
				}
			}()
		}
		wg.Wait()
		switch {
		case panics != 0:
			return "ok " + hx(w) + " conc=panic"
		case diff != 0:
			return "ok " + hx(w) + " conc=diff:" + strconv.FormatInt(diff, 10)
		}
		return "ok " + hx(w) + " conc=same"
	}
}

func init() {
	// orandh <name> <seed> <mode>: FillRandom under a user RandgeneratorContext (see objHandlers), then every writer; result as orand
	ops["orandh"] = func(f []string) string {
		seed, _ := strconv.ParseUint(f[2], 10, 64)
		obj := objFillH(f[1], seed, f[3])
		if obj == nil {
			return "driver-error no object / mode " + f[1] + " " + f[3]
		}
		return objAfterFill(obj, f[1], func() meta.Object { return objFillH(f[1], seed, f[3]) })
	}
}

func init() {
	// ofill <name> <seed>: like rand1 of ops_tl1.go (FillRandom, written TL1 boxed) but with the draw budget and the
	// watchdog, so that the types whose FillRandom does not terminate (F7) cost a panic line, not minutes
	ops["ofill"] = func(f []string) string {
		seed, _ := strconv.ParseUint(f[2], 10, 64)
		obj := objFill(f[1], seed)
		if obj == nil {
			return "driver-error no object " + f[1]
		}
		w, err := obj.WriteTL1BoxedGeneral(nil)
		if err != nil {
			return "writeerr"
		}
		return "ok " + hx(w)
	}
	// orand <name> <seed>: FillRandom from the scripted source, then every writer.
	// result: ok <tl1 boxed hex> j=<ok|err|rt-reject|rt-diff> t2=<ok|na|panic|rt-reject|rt-diff> rep=<same|diff>
	//   j / t2: the writer accepted the value, and what it wrote reads back into a fresh object with the same TL1 bytes
	//   rep: a second object filled from the same seed writes the same TL1 bytes
	ops["orand"] = func(f []string) string {
		seed, _ := strconv.ParseUint(f[2], 10, 64)
		obj := objFill(f[1], seed)
		if obj == nil {
			return "driver-error no object " + f[1]
		}
		w, err := obj.WriteTL1BoxedGeneral(nil)
		if err != nil {
			return "writeerr"
		}
		js := "ok"
		if j, err := objWriteJSON(obj); err != nil {
			js = "err"
		} else {
			o2 := factory.CreateObjectFromName(f[1])
			if err := objReadJSON(o2, j); err != nil {
				js = "rt-reject"
			} else if w2, err := o2.WriteTL1BoxedGeneral(nil); err != nil || !bytes.Equal(w, w2) {
				js = "rt-diff"
			}
		}
		t2, ts := objWriteTL2(obj, f[1])
		if ts == "ok" {
			o2 := factory.CreateObjectFromName(f[1])
			if rest, err, _ := objReadTL2(o2, t2); err != nil || len(rest) != 0 {
				ts = "rt-reject"
			} else if w2, err := o2.WriteTL1BoxedGeneral(nil); err != nil || !bytes.Equal(w, w2) {
				ts = "rt-diff"
			}
		}
		rep := "same"
		again := objFill(f[1], seed)
		if w2, err := again.WriteTL1BoxedGeneral(nil); err != nil || !bytes.Equal(w, w2) {
			rep = "diff"
		}
		return "ok " + hx(w) + " j=" + js + " t2=" + ts + " rep=" + rep
	}
}

// ---------------------------------------------------------------------------------------- C12
func init() {
	// oconv2 <name> <tl1 boxed hex>: the value in TL2 (through the generated code) -> ok <hex> | reject | na
	ops["oconv2"] = func(f []string) string {
		obj := factory.CreateObjectFromName(f[1])
		if obj == nil {
			return "driver-error no object " + f[1]
		}
		if _, err := obj.ReadTL1Boxed(unhex(f[2])); err != nil {
			return "reject"
		}
		w, st := objWriteTL2(obj, f[1])
		if st != "ok" {
			return st
		}
		return "ok " + hx(w)
	}
	// ofill2 <name> <seed>: FillRandom (scripted source, draw budget), written as TL2 -> ok <hex> | na | panic
	ops["ofill2"] = func(f []string) string {
		seed, _ := strconv.ParseUint(f[2], 10, 64)
		obj := objFill(f[1], seed)
		if obj == nil {
			return "driver-error no object " + f[1]
		}
		w, st := objWriteTL2(obj, f[1])
		if st != "ok" {
			return st
		}
		return "ok " + hx(w)
	}
	// orw2 <name> <hex>: read TL2, then write back what was read -> ok <consumed> <hex> | reject | na
	ops["orw2"] = func(f []string) string {
		obj := factory.CreateObjectFromName(f[1])
		if obj == nil {
			return "driver-error no object " + f[1]
		}
		if !objHasTL2(f[1]) {
			return "na"
		}
		in := unhex(f[2])
		rest, err, has := objReadTL2(obj, in)
		if !has {
			return "na"
		}
		if err != nil {
			return "reject"
		}
		w, st := objWriteTL2(obj, f[1])
		if st != "ok" {
			return "ok " + strconv.Itoa(len(in)-len(rest)) + " " + st
		}
		return "ok " + strconv.Itoa(len(in)-len(rest)) + " " + hx(w)
	}
}

// ---------------------------------------------------------------------------------------- C07
// TL2 transcoders exist in meta.Function only when TL2 code is generated
type objFnTL2 interface {
	ReadResultTL1WriteResultTL2(tctx *basictl.TL2WriteContext, r []byte, w []byte) ([]byte, []byte, error)
	ReadResultTL2WriteResultTL1(tctx *basictl.TL2ReadContext, r []byte, w []byte) ([]byte, []byte, error)
	ReadResultTL2WriteResultJSON(tctx *basictl.TL2ReadContext, jctx *basictl.JSONWriteContext, r []byte, w []byte) ([]byte, []byte, error)
	ReadResultJSONWriteResultTL2(jctx *basictl.JSONReadContext, tctx *basictl.TL2WriteContext, r []byte, w []byte) ([]byte, []byte, error)
}

func init() {
	// oresgen <function name> <request TL1 boxed hex> <seed>: a random result written by the function's own
	// FillRandomResultTL1 (typed FillRandom of the result + WriteResultTL1 under the request) -> ok <hex> | writeerr | badrequest
	ops["oresgen"] = func(f []string) string {
		fn := factory.CreateFunctionFromName(f[1])
		if fn == nil {
			return "driver-error no function " + f[1]
		}
		if _, err := fn.ReadTL1Boxed(unhex(f[2])); err != nil {
			return "badrequest"
		}
		seed, _ := strconv.ParseUint(f[3], 10, 64)
		defer objWatch(20*time.Second, "FillRandomResultTL1 "+f[1])()
		w, err := fn.FillRandomResultTL1(basictl.NewRandGenerator(&objRand{srand: srand{s: seed}, max: objDrawBudget}), nil)
		if err != nil {
			return "writeerr"
		}
		return "ok " + hx(w)
	}
}

func init() {
	// ores <function name> <request TL1 boxed hex> <result TL1 hex> <typed object name | ->
	// result: ok <consumed> <TL1 -> JSON -> TL1 bytes | err> j=.. t2=.. x=.. typed=..
	//   j:     TL1->JSON->TL1 reproduces the consumed result bytes            (same | diff | err)
	//   t2:    TL1->TL2->TL1 likewise                                          (same | diff | err | na)
	//   x:     TL2->JSON equals TL1->JSON and JSON->TL2 equals TL1->TL2        (same | diff | err | na)
	//   typed: a factory object of the result type decodes the result and writes the same JSON / TL1 (same | diff:<what> | na)
	ops["ores"] = func(f []string) string {
		fn := factory.CreateFunctionFromName(f[1])
		if fn == nil {
			return "driver-error no function " + f[1]
		}
		if _, err := fn.ReadTL1Boxed(unhex(f[2])); err != nil {
			return "badrequest"
		}
		res := unhex(f[3])
		rest, j, err := fn.ReadResultTL1WriteResultJSON(&basictl.JSONWriteContext{}, res, nil)
		if err != nil {
			return cls(err)
		}
		consumed := len(res) - len(rest)
		used := res[:consumed]
		out := "ok " + strconv.Itoa(consumed) + " "
		js := "same"
		_, backJ, err := fn.ReadResultJSONWriteResultTL1(&basictl.JSONReadContext{}, j, nil)
		if err != nil {
			out += "err"
			js = "err"
		} else {
			out += hx(backJ)
			if !bytes.Equal(backJ, used) {
				js = "diff"
			}
		}
		t2s, xs := "na", "na"
		var t2 []byte
		if ft, ok := interface{}(fn).(objFnTL2); ok && objHasTL2(f[1]) {
			var e1, e2 error
			_, t2, e1 = ft.ReadResultTL1WriteResultTL2(&basictl.TL2WriteContext{}, res, nil)
			var back2 []byte
			if e1 == nil {
				_, back2, e2 = ft.ReadResultTL2WriteResultTL1(&basictl.TL2ReadContext{}, t2, nil)
			}
			switch {
			case e1 != nil || e2 != nil:
				t2s = "err"
			case bytes.Equal(back2, used):
				t2s = "same"
			default:
				t2s = "diff"
			}
			if e1 == nil {
				_, j2, e3 := ft.ReadResultTL2WriteResultJSON(&basictl.TL2ReadContext{}, &basictl.JSONWriteContext{}, t2, nil)
				_, t22, e4 := ft.ReadResultJSONWriteResultTL2(&basictl.JSONReadContext{}, &basictl.TL2WriteContext{}, j, nil)
				switch {
				case e3 != nil || e4 != nil:
					xs = "err"
				case bytes.Equal(j2, j) && bytes.Equal(t22, t2):
					xs = "same"
				default:
					xs = "diff"
				}
			}
		}
		typed := "na"
		if f[4] != "-" {
			if obj := factory.CreateObjectFromName(f[4]); obj != nil {
				if r2, err := obj.ReadTL1Boxed(res); err != nil || len(res)-len(r2) != consumed {
					typed = "diff:read"
				} else {
					typed = "same"
					if w, err := obj.WriteTL1BoxedGeneral(nil); err != nil || !bytes.Equal(w, used) {
						if js == "same" { // the transcoder reproduced the bytes, the typed object does not
							typed = "diff:tl1"
						}
					}
					if tj, err := objWriteJSON(obj); err != nil || !bytes.Equal(tj, j) {
						typed = "diff:json"
					}
					// (a result in TL2 is wrapped by ReadResultTL2/WriteResultTL2 in its own object layout: not comparable with obj.WriteTL2)
				}
			}
		}
		return out + " j=" + js + " t2=" + t2s + " x=" + xs + " typed=" + typed
	}
}

// ---------------------------------------------------------------------------------------- C09
func objReset(obj meta.Object) bool {
	m := reflect.ValueOf(obj).MethodByName("Reset")
	if !m.IsValid() || m.Type().NumIn() != 0 {
		return false
	}
	m.Call(nil)
	return true
}

// all writers of an object, as one comparable string (a panicking writer is recorded, not propagated)
func objWriteAll(obj meta.Object, name string) string {
	guard := func(tag string, f func() string) (out string) {
		defer func() {
			if r := recover(); r != nil {
				out = tag + ":panic"
			}
		}()
		return tag + ":" + f()
	}
	w1 := guard("1", func() string {
		w, err := obj.WriteTL1BoxedGeneral(nil)
		if err != nil {
			return "writeerr"
		}
		return hx(w)
	})
	wj := guard("j", func() string {
		j, err := objWriteJSON(obj)
		if err != nil {
			return "writeerr"
		}
		return hx(j)
	})
	w2, st := objWriteTL2(obj, name)
	if st == "ok" {
		st = hx(w2)
	}
	return w1 + " " + wj + " 2:" + st
}

// objCmp compares the writers of the reused and of the fresh object
func objCmp(a, b string, what string) string {
	if a == b {
		return "same"
	}
	fa, fb := strings.Fields(a), strings.Fields(b)
	// the fresh object's JSON (and TL2) writer panics on a nil pointer the reused object has allocated; TL1 bytes equal
	if len(fa) == 3 && len(fb) == 3 && fa[0] == fb[0] && fb[1] == "j:panic" && fa[1] != "j:panic" &&
		(fa[2] == fb[2] || fb[2] == "2:panic") {
		return "DIFF:" + what + ":fresh-json-panic"
	}
	return "DIFF:" + what
}

// objNew: the object of a factory item; bytesVersion selects CreateObjectBytes ([]byte strings, slice-backed dictionaries)
func objNew(name string, bytesVersion bool) meta.Object {
	if !bytesVersion {
		return factory.CreateObjectFromName(name)
	}
	it := meta.FactoryItemByTLName(name)
	if it == nil {
		return nil
	}
	return it.CreateObjectBytes()
}

// objDropKey: the JSON document with its k-th (sorted) top-level key removed; nil when the document is not an object with keys
func objDropKey(doc []byte, k int) []byte {
	var m map[string]json.RawMessage
	if err := json.Unmarshal(doc, &m); err != nil || len(m) == 0 {
		return nil
	}
	keys := make([]string, 0, len(m))
	for key := range m {
		keys = append(keys, key)
	}
	sort.Strings(keys)
	delete(m, keys[k%len(keys)])
	out, err := json.Marshal(m)
	if err != nil {
		return nil
	}
	return out
}

// one decode step into obj; returns verdict ("ok <consumed>" | "eof" | "reject" | "na")
func objStep(obj meta.Object, name string, kind string, in []byte) string {
	conv := func(tl2 bool) ([]byte, bool) { // valid TL1 boxed bytes -> the same value in TL2 / JSON, through a scratch object
		tmp := factory.CreateObjectFromName(name)
		if _, err := tmp.ReadTL1Boxed(in); err != nil {
			return nil, false
		}
		if tl2 {
			w, st := objWriteTL2(tmp, name)
			return w, st == "ok"
		}
		w, err := objWriteJSON(tmp)
		return w, err == nil
	}
	cut := func(b []byte, k string) []byte {
		n, _ := strconv.Atoi(k)
		if n > len(b) {
			n = len(b)
		}
		return b[:n]
	}
	switch {
	case kind == "1b":
		rest, err := obj.ReadTL1Boxed(in)
		if err != nil {
			return cls(err)
		}
		return "ok " + strconv.Itoa(len(in)-len(rest))
	case kind == "1r":
		rest, err := obj.ReadTL1(in)
		if err != nil {
			return cls(err)
		}
		return "ok " + strconv.Itoa(len(in)-len(rest))
	case kind == "2" || strings.HasPrefix(kind, "2t"):
		b, ok := conv(true)
		if !ok {
			return "na"
		}
		if kind != "2" {
			b = cut(b, kind[2:])
		}
		rest, err, has := objReadTL2(obj, b)
		if !has {
			return "na"
		}
		if err != nil {
			return "reject"
		}
		return "ok " + strconv.Itoa(len(b)-len(rest))
	case strings.HasPrefix(kind, "jo"): // the value's JSON document with one top-level field ABSENT
		b, ok := conv(false)
		if !ok {
			return "na"
		}
		k, _ := strconv.Atoi(kind[2:])
		if b = objDropKey(b, k); b == nil {
			return "na"
		}
		if err := objReadJSON(obj, b); err != nil {
			return "reject"
		}
		return "ok 0"
	case kind == "j" || strings.HasPrefix(kind, "jt"):
		b, ok := conv(false)
		if !ok {
			return "na"
		}
		if kind != "j" {
			b = cut(b, kind[2:])
		}
		if err := objReadJSON(obj, b); err != nil {
			return "reject"
		}
		return "ok 0"
	}
	return "driver-error bad step " + kind
}

func init() {
	// ohist <name> <step>...   step = R | <kind>:<hex>   kind = 1b | 1r (TL1 boxed / bare bytes as given)
	//                                 | 2 | j | 2t<k> | jt<k> (the VALID TL1 boxed bytes <hex> converted to TL2 / JSON, cut to k bytes)
	// One object is reused through the whole history; every step is also applied to a fresh object.
	// result: one entry per step, separated by " ; ":
	//    <verdict of the reused object>,<its TL1 boxed re-encoding | - >,<same | DIFF:<what>>
	ops["ohistb"] = func(f []string) string { return objHist(f, true) } // the same on the bytes version of the object
	ops["ohist"] = func(f []string) string { return objHist(f, false) }
}

func objHist(f []string, bytesVersion bool) string {
	{
		name := f[1]
		obj := objNew(name, bytesVersion)
		if obj == nil {
			return "driver-error no object " + name
		}
		var out []string
		for _, st := range f[2:] {
			fresh := objNew(name, bytesVersion)
			if st == "R" {
				if !objReset(obj) {
					out = append(out, "na,-,same")
					continue
				}
				a, b := objWriteAll(obj, name), objWriteAll(fresh, name)
				cmp := objCmp(a, b, "reset-write")
				w1 := strings.TrimPrefix(strings.Fields(a)[0], "1:")
				out = append(out, "R,"+w1+","+cmp)
				continue
			}
			i := strings.IndexByte(st, ':')
			kind, in := st[:i], unhex(st[i+1:])
			v1 := objStep(obj, name, kind, in)
			v2 := objStep(fresh, name, kind, in)
			cmp := "same"
			w1 := "-"
			if v1 != v2 {
				cmp = "DIFF:verdict:" + strings.ReplaceAll(v2, " ", "_")
			} else if strings.HasPrefix(v1, "ok") {
				a, b := objWriteAll(obj, name), objWriteAll(fresh, name)
				cmp = objCmp(a, b, "write")
				w1 = strings.TrimPrefix(strings.Fields(a)[0], "1:")
			}
			out = append(out, strings.ReplaceAll(v1, " ", "_")+","+w1+","+cmp)
		}
		return "ok " + strings.Join(out, " ; ")
	}
}
