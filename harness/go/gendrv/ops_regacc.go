package main

// Reg family, C43: generated field accessors SetX / ClearX / IsSetX, driven through reflection on
// struct types reached from the factory's objects (any generator option: no TL2-specific imports).

import (
	"errors"
	"fmt"
	"hash/fnv"
	"reflect"
	"regexp"
	"runtime/debug"
	"strconv"
	"strings"

	"github.com/VKCOM/tl/pkg/basictl"
	"verifh/gen/factory"
)

var regCamelRe = regexp.MustCompile(`[0-9A-Za-z]+`)
var regAllUpperRe = regexp.MustCompile(`^[A-Z][A-Z0-9]+$`)

// port of internal/utils.CNameToCamelName (the scratch module cannot import internal packages)
func regCamel(s string) string {
	chunks := regCamelRe.FindAllString(s, -1)
	for i, c := range chunks {
		if regAllUpperRe.MatchString(c) {
			chunks[i] = strings.ToUpper(c[:1]) + strings.ToLower(c[1:])
		} else {
			chunks[i] = strings.ToUpper(c[:1]) + c[1:]
		}
	}
	return strings.Join(chunks, "")
}

// <item>/f<k>/e/...: type of the item's object, then Go struct field k (pointers dereferenced) or element type
func regNavType(path string) (reflect.Type, error) {
	parts := strings.Split(path, "/")
	obj := factory.CreateObjectFromName(parts[0])
	if obj == nil {
		return nil, errors.New("no-object")
	}
	t := reflect.TypeOf(obj)
	for t.Kind() == reflect.Ptr {
		t = t.Elem()
	}
	for _, p := range parts[1:] {
		switch {
		case p == "e":
			switch t.Kind() {
			case reflect.Slice, reflect.Array, reflect.Map:
				t = t.Elem()
			default:
				return nil, fmt.Errorf("nav-kind:%s:%v", p, t.Kind())
			}
		case strings.HasPrefix(p, "f"):
			k, _ := strconv.Atoi(p[1:])
			if t.Kind() != reflect.Struct || k >= t.NumField() {
				return nil, fmt.Errorf("nav-kind:%s:%v", p, t.Kind())
			}
			t = t.Field(k).Type
		default:
			return nil, errors.New("nav-step:" + p)
		}
		for t.Kind() == reflect.Ptr {
			t = t.Elem()
		}
	}
	return t, nil
}

type regFieldDesc struct {
	name   string
	gi     int // Go struct field index, -1 = none (bit field / omitted)
	k      int // mask nat parameter index, -1 = none
	tl2    bool
	suffix string
	hasSet, hasClear, hasIsSet bool
}

func regNats(ps []uint32) []reflect.Value {
	var r []reflect.Value
	for _, p := range ps {
		r = append(r, reflect.ValueOf(p))
	}
	return r
}

func regErrOf(out []reflect.Value) error {
	if len(out) == 0 {
		return nil
	}
	last := out[len(out)-1]
	if last.Type().Implements(reflect.TypeOf((*error)(nil)).Elem()) && !last.IsNil() {
		return last.Interface().(error)
	}
	return nil
}

func regHash(b []byte) string {
	h := fnv.New32a()
	h.Write(b)
	return fmt.Sprintf("%08x", h.Sum32())
}

// top-level keys of a JSON object with the raw text of their values.  A tolerant scanner: generated JSON may
// contain tokens encoding/json refuses (NaN, non-UTF-8 strings); only strings and nesting are tracked.
func regTopKeys(b []byte) (map[string][]byte, bool) {
	res := map[string][]byte{}
	i := 0
	skipWS := func() {
		for i < len(b) && (b[i] == ' ' || b[i] == '\n' || b[i] == '\t' || b[i] == '\r') {
			i++
		}
	}
	str := func() (string, bool) { // b[i] == '"'
		start := i + 1
		i++
		for i < len(b) {
			if b[i] == '\\' {
				i += 2
				continue
			}
			if b[i] == '"' {
				s := string(b[start:i])
				i++
				return s, true
			}
			i++
		}
		return "", false
	}
	skipWS()
	if i >= len(b) || b[i] != '{' {
		return nil, false
	}
	i++
	for {
		skipWS()
		if i < len(b) && b[i] == '}' {
			return res, true
		}
		if i >= len(b) || b[i] != '"' {
			return nil, false
		}
		key, ok := str()
		if !ok {
			return nil, false
		}
		skipWS()
		if i >= len(b) || b[i] != ':' {
			return nil, false
		}
		i++
		skipWS()
		start, depth := i, 0
		for i < len(b) {
			c := b[i]
			if c == '"' {
				if _, ok := str(); !ok {
					return nil, false
				}
				continue
			}
			if c == '{' || c == '[' {
				depth++
			} else if c == '}' || c == ']' {
				if depth == 0 {
					break
				}
				depth--
			} else if c == ',' && depth == 0 {
				break
			}
			i++
		}
		if i >= len(b) {
			return nil, false
		}
		res[key] = b[start:i]
		if b[i] == ',' {
			i++
		}
	}
}

type regAcc struct {
	t      reflect.Type
	obj    reflect.Value // pointer
	ps     []uint32
	fields []regFieldDesc
}

func (a *regAcc) call(obj reflect.Value, name string, args ...reflect.Value) ([]reflect.Value, bool) {
	m := obj.MethodByName(name)
	if !m.IsValid() {
		return nil, false
	}
	if m.Type().NumIn() != len(args) {
		return nil, false
	}
	return m.Call(args), true
}

func (a *regAcc) readTL1(obj reflect.Value, b []byte, ps []uint32) error {
	out, ok := a.call(obj, "ReadTL1", append([]reflect.Value{reflect.ValueOf(b)}, regNats(ps)...)...)
	if !ok {
		return errors.New("no ReadTL1 method with these arguments")
	}
	return regErrOf(out)
}

func (a *regAcc) isSet(obj reflect.Value, f *regFieldDesc) string {
	m := obj.MethodByName("IsSet" + f.suffix)
	if !m.IsValid() {
		return "?"
	}
	var args []reflect.Value
	if m.Type().NumIn() == 1 {
		if f.k < 0 || f.k >= len(a.ps) {
			return "?"
		}
		args = append(args, reflect.ValueOf(a.ps[f.k]))
	} else if m.Type().NumIn() != 0 {
		return "?"
	}
	if m.Call(args)[0].Bool() {
		return "1"
	}
	return "0"
}

func (a *regAcc) observe() string {
	is, js, t2, jv := "", "", "", ""
	// IsSet
	for i := range a.fields {
		if a.fields[i].hasIsSet {
			is += a.isSet(a.obj, &a.fields[i])
		}
	}
	// TL1
	t1 := "err"
	if out, ok := a.call(a.obj, "WriteTL1", append([]reflect.Value{reflect.ValueOf([]byte(nil))}, regNats(a.ps)...)...); ok {
		if regErrOf(out) == nil {
			t1 = hx(out[0].Bytes())
		}
	} else {
		t1 = "nomethod"
	}
	// JSON
	jctx := &basictl.JSONWriteContext{}
	if out, ok := a.call(a.obj, "WriteJSONGeneral", append([]reflect.Value{reflect.ValueOf(jctx), reflect.ValueOf([]byte(nil))}, regNats(a.ps)...)...); ok {
		if regErrOf(out) != nil {
			js, jv = "err", "err"
		} else if m, ok := regTopKeys(out[0].Bytes()); !ok {
			js, jv = "unparsable", "unparsable"
		} else {
			for i := range a.fields {
				f := &a.fields[i]
				raw, present := m[f.name]
				if f.hasIsSet {
					if present {
						js += "1"
					} else {
						js += "0"
					}
				}
				if i > 0 {
					jv += ","
				}
				if present {
					jv += regHash(raw)
				} else {
					jv += "-"
				}
			}
		}
	} else {
		js, jv = "nomethod", "nomethod"
	}
	// TL2: write, read back into a fresh object, ask IsSet there
	anyTL2 := false
	for i := range a.fields {
		if a.fields[i].hasIsSet && a.fields[i].tl2 {
			anyTL2 = true
		}
	}
	if anyTL2 {
		out, ok := a.call(a.obj, "WriteTL2", reflect.ValueOf([]byte(nil)), reflect.ValueOf(&basictl.TL2WriteContext{}))
		if !ok {
			t2 = "nomethod"
		} else {
			back := reflect.New(a.t)
			out2, ok2 := a.call(back, "ReadTL2", out[0], reflect.ValueOf(&basictl.TL2ReadContext{}))
			if !ok2 {
				t2 = "nomethod"
			} else if regErrOf(out2) != nil {
				t2 = "readerr"
			} else {
				for i := range a.fields {
					if a.fields[i].hasIsSet && a.fields[i].tl2 {
						t2 += a.isSet(back, &a.fields[i])
					}
				}
			}
		}
	}
	dash := func(s string) string {
		if s == "" {
			return "-"
		}
		return s
	}
	return fmt.Sprintf("is=%s t1=%s js=%s t2=%s jv=%s", dash(is), t1, dash(js), dash(t2), dash(jv))
}

func (a *regAcc) maskArg(f *regFieldDesc, ext bool) reflect.Value {
	if !ext || f.k < 0 || f.k >= len(a.ps) {
		return reflect.ValueOf((*uint32)(nil))
	}
	return reflect.ValueOf(&a.ps[f.k])
}

func init() {
	// acc <tid> <path> <nps> <ps..> <psd..> <nf> <name:gi:k:tl2>.. | <steps..>
	ops["acc"] = func(f []string) string {
		old := debug.SetMaxStack(32 << 20) // runaway recursion (F7 / F39, not ours) must die quickly
		defer debug.SetMaxStack(old)
		t, err := regNavType(f[2])
		if err != nil {
			return err.Error()
		}
		if t.Kind() != reflect.Struct {
			return "nav-not-struct:" + t.Kind().String()
		}
		nps, _ := strconv.Atoi(f[3])
		pos := 4
		parse := func() []uint32 {
			var r []uint32
			for i := 0; i < nps; i++ {
				v, _ := strconv.ParseUint(f[pos], 10, 32)
				r = append(r, uint32(v))
				pos++
			}
			return r
		}
		ps0 := parse()
		psd := parse()
		nf, _ := strconv.Atoi(f[pos])
		pos++
		a := &regAcc{t: t, ps: append([]uint32{}, ps0...)}
		for i := 0; i < nf; i++ {
			d := strings.Split(f[pos], ":")
			pos++
			fd := regFieldDesc{name: d[0], gi: -1, k: -1, tl2: d[3] == "1"}
			if d[1] != "-" {
				fd.gi, _ = strconv.Atoi(d[1])
			}
			if d[2] != "-" {
				fd.k, _ = strconv.Atoi(d[2])
			}
			fd.suffix = regCamel(fd.name)
			if fd.gi >= 0 {
				if fd.gi >= t.NumField() {
					return "field-order-mismatch:" + fd.name
				}
				if gn := t.Field(fd.gi).Name; gn != fd.suffix {
					if !strings.HasPrefix(gn, fd.suffix) { // deconflicted names keep the camel name as a prefix
						return "field-order-mismatch:" + fd.name + ":" + gn
					}
					fd.suffix = gn
				}
			}
			a.fields = append(a.fields, fd)
		}
		if pos >= len(f) || f[pos] != "|" {
			return "driver-error bad acc op"
		}
		steps := f[pos+1:]
		a.obj = reflect.New(t)
		var sb strings.Builder
		sb.WriteString("acc=")
		for i := range a.fields {
			fd := &a.fields[i]
			fd.hasSet = a.obj.MethodByName("Set" + fd.suffix).IsValid()
			fd.hasClear = a.obj.MethodByName("Clear" + fd.suffix).IsValid()
			fd.hasIsSet = a.obj.MethodByName("IsSet" + fd.suffix).IsValid()
			if i > 0 {
				sb.WriteString(",")
			}
			c := func(b bool, s string) string {
				if b {
					return s
				}
				return "-"
			}
			sb.WriteString(c(fd.hasSet, "S") + c(fd.hasClear, "C") + c(fd.hasIsSet, "I"))
		}
		for _, step := range steps {
			p := strings.Split(step, ":")
			fail := ""
			switch p[0] {
			case "fresh":
				a.obj = reflect.New(t)
				a.ps = append([]uint32{}, ps0...)
			case "read":
				a.obj = reflect.New(t)
				a.ps = append([]uint32{}, ps0...)
				if err := a.readTL1(a.obj, unhex(p[1]), a.ps); err != nil {
					fail = "read-failed"
				}
			case "set":
				i, _ := strconv.Atoi(p[1])
				fd := &a.fields[i]
				donor := reflect.New(t)
				if err := a.readTL1(donor, unhex(p[3]), psd); err != nil {
					fail = "donor-read-failed"
					break
				}
				if fd.gi < 0 {
					fail = "no-go-field"
					break
				}
				x := donor.Elem().Field(fd.gi)
				m := a.obj.MethodByName("Set" + fd.suffix)
				if !m.IsValid() {
					fail = "no-method:Set" + fd.suffix
					break
				}
				want := m.Type().In(0)
				for x.Kind() == reflect.Ptr && x.Type() != want {
					if x.IsNil() {
						x = reflect.Zero(x.Type().Elem())
					} else {
						x = x.Elem()
					}
				}
				if x.Type() != want {
					fail = "set-type-mismatch:" + x.Type().String() + "/" + want.String()
					break
				}
				args := []reflect.Value{x}
				if m.Type().NumIn() == 2 {
					args = append(args, a.maskArg(fd, p[2] == "1"))
				}
				m.Call(args)
			case "setb":
				i, _ := strconv.Atoi(p[1])
				fd := &a.fields[i]
				m := a.obj.MethodByName("Set" + fd.suffix)
				if !m.IsValid() || m.Type().In(0).Kind() != reflect.Bool {
					fail = "no-method:Set" + fd.suffix
					break
				}
				args := []reflect.Value{reflect.ValueOf(p[2] == "1")}
				if m.Type().NumIn() == 2 {
					args = append(args, a.maskArg(fd, p[3] == "1"))
				}
				m.Call(args)
			case "clear":
				i, _ := strconv.Atoi(p[1])
				fd := &a.fields[i]
				m := a.obj.MethodByName("Clear" + fd.suffix)
				if !m.IsValid() {
					fail = "no-method:Clear" + fd.suffix
					break
				}
				var args []reflect.Value
				if m.Type().NumIn() == 1 {
					args = append(args, a.maskArg(fd, p[2] == "1"))
				}
				m.Call(args)
			default:
				fail = "bad-step:" + step
			}
			if fail != "" {
				sb.WriteString(" | " + fail)
				break
			}
			sb.WriteString(" | " + a.observe())
		}
		return sb.String()
	}
	// acctype <path>: Go type reached by the path and the TL name it reports (navigation check)
	ops["acctype"] = func(f []string) string {
		t, err := regNavType(f[1])
		if err != nil {
			return err.Error()
		}
		name := "-"
		if t.Kind() == reflect.Struct {
			if m := reflect.New(t).MethodByName("TLName"); m.IsValid() && m.Type().NumIn() == 0 {
				name = m.Call(nil)[0].String()
			}
		}
		return fmt.Sprintf("ok %s %s %d", t.Name(), name, func() int {
			if t.Kind() == reflect.Struct {
				return t.NumField()
			}
			return -1
		}())
	}
}
