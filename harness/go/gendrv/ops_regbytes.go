package main

// Reg family, C10: string variants vs []byte variants (--generateByteVersions).  Only compiled into drivers
// of packages generated with that option (gen/factory_bytes exists only then).

import (
	"bytes"
	"fmt"
	"reflect"
	"runtime/debug"
	"sort"
	"strings"

	"github.com/VKCOM/tl/pkg/basictl"
	"verifh/gen/factory"
	_ "verifh/gen/factory_bytes" // init() installs the bytes constructors; its CreateObject* header functions do not exist with --split-internal
	"verifh/gen/meta"
)

// the bytes variant through the registry item (what factory_bytes.CreateObjectFromName does when it exists)
func regBytesObj(name string) meta.Object {
	it := meta.FactoryItemByTLName(name)
	if it == nil {
		return nil
	}
	return it.CreateObjectBytes()
}

type regTL2Writer interface {
	WriteTL2(w []byte, tctx *basictl.TL2WriteContext) []byte
}

type regOut struct {
	t1, js, t2 []byte
	t1err, jserr, hasT2 bool
}

func regWriteAll(obj meta.Object, tl2 bool) (o regOut) {
	var err error
	if o.t1, err = obj.WriteTL1BoxedGeneral(nil); err != nil {
		o.t1err = true
	}
	if o.js, err = obj.WriteJSONGeneral(&basictl.JSONWriteContext{}, nil); err != nil {
		o.jserr = true
	}
	if w, ok := obj.(regTL2Writer); ok && tl2 {
		o.hasT2 = true
		o.t2 = w.WriteTL2(nil, &basictl.TL2WriteContext{})
	}
	return o
}

func regEq(a, b regOut) string {
	f := func(x bool) string {
		if x {
			return "1"
		}
		return "0"
	}
	t2 := "-"
	if a.hasT2 && b.hasT2 {
		t2 = f(bytes.Equal(a.t2, b.t2))
	}
	return "t1=" + f(!a.t1err && !b.t1err && bytes.Equal(a.t1, b.t1)) + ",js=" + f(!a.jserr && !b.jserr && bytes.Equal(a.js, b.js)) + ",t2=" + t2
}

func init() {
	// bytesitems: items whose bytes variant is a different Go type
	ops["bytesitems"] = func(f []string) string {
		var parts []string
		for _, it := range meta.GetAllTLItems() {
			a, b := it.CreateObject(), it.CreateObjectBytes()
			if reflect.TypeOf(a) != reflect.TypeOf(b) {
				fs := factory.CreateObjectFromName(it.TLName())
				if reflect.TypeOf(fs) != reflect.TypeOf(a) {
					parts = append(parts, it.TLName()+"!factory")
				} else {
					parts = append(parts, it.TLName())
				}
			}
		}
		sort.Strings(parts)
		return "ok " + strings.Join(parts, " ")
	}
	// brw <san> <tid> <name> <hex>: the same boxed TL1 bytes read by both variants, everything re-encoded
	ops["brw"] = func(f []string) string {
		old := debug.SetMaxStack(32 << 20) // runaway recursion (F7 / F39, not ours) must die quickly
		defer debug.SetMaxStack(old)
		it := meta.FactoryItemByTLName(f[3])
		if it == nil {
			return "driver-error no item " + f[3]
		}
		in := unhex(f[4])
		tl2 := it.HasTL2()
		show := func(o regOut, rest []byte, err error) string {
			if err != nil {
				return cls(err)
			}
			if o.t1err {
				return "writeerr"
			}
			return fmt.Sprintf("ok:%d:%s", len(in)-len(rest), hx(o.t1))
		}
		// 1. string variant
		so := factory.CreateObjectFromName(f[3])
		srest, serr := so.ReadTL1Boxed(in)
		var sout regOut
		if serr == nil {
			sout = regWriteAll(so, tl2)
		}
		// 2. bytes variant
		bo := regBytesObj(f[3])
		brest, berr := bo.ReadTL1Boxed(in)
		var bout regOut
		if berr == nil {
			bout = regWriteAll(bo, tl2)
		}
		res := "s=" + show(sout, srest, serr) + " b=" + show(bout, brest, berr)
		if serr != nil || berr != nil || sout.t1err || bout.t1err {
			return res
		}
		// 3. what the string variant wrote (sorted, duplicate free) read by the bytes variant: all formats must agree
		b2 := regBytesObj(f[3])
		if _, err := b2.ReadTL1Boxed(sout.t1); err != nil {
			return res + " canon=unreadable"
		}
		res += " canon=" + regEq(sout, regWriteAll(b2, tl2))
		// 4. the JSON the string variant wrote, read by both variants
		s3, b3 := factory.CreateObjectFromName(f[3]), regBytesObj(f[3])
		e1 := s3.ReadJSONGeneral(&basictl.JSONReadContext{}, &basictl.JsonLexer{Data: sout.js})
		e2 := b3.ReadJSONGeneral(&basictl.JSONReadContext{}, &basictl.JsonLexer{Data: sout.js})
		if e1 != nil || e2 != nil {
			res += fmt.Sprintf(" json=readerr:%v/%v", e1 != nil, e2 != nil)
		} else {
			res += " json=" + regEq(regWriteAll(s3, tl2), regWriteAll(b3, tl2))
		}
		// 5. when the input itself was sorted and duplicate free the two variants agree directly
		if bytes.Equal(sout.t1, bout.t1) {
			res += " direct=" + regEq(sout, bout)
		} else {
			res += " direct=-"
		}
		return res
	}
	// breuse <san> <tid> <name> <hexA> <hexB>: content B (sorted, duplicate free: taken from the string variant's own
	// output) read in each format by each variant into (1) a fresh object, (2) an object that read A before, (3) an object
	// that read A and was Reset(): all three must hold B.  Per variant and format: ok | rt (a fresh object does not
	// reproduce B) | reuse | reset | readerr | - (format not generated)
	ops["breuse"] = func(f []string) string {
		old := debug.SetMaxStack(32 << 20)
		defer debug.SetMaxStack(old)
		it := meta.FactoryItemByTLName(f[3])
		if it == nil {
			return "driver-error no item " + f[3]
		}
		tl2 := it.HasTL2()
		src := func(h string) (regOut, bool) {
			o := factory.CreateObjectFromName(f[3])
			if _, err := o.ReadTL1Boxed(unhex(h)); err != nil {
				return regOut{}, false
			}
			w := regWriteAll(o, tl2)
			return w, !w.t1err && !w.jserr
		}
		a, okA := src(f[4])
		b, okB := src(f[5])
		if !okA || !okB {
			return "input-rejected"
		}
		read := func(o meta.Object, format string, in regOut) error {
			switch format {
			case "t1":
				_, err := o.ReadTL1Boxed(in.t1)
				return err
			case "js":
				return o.ReadJSONGeneral(&basictl.JSONReadContext{}, &basictl.JsonLexer{Data: in.js})
			default:
				r, ok := o.(regTL2Reader)
				if !ok {
					return fmt.Errorf("no ReadTL2")
				}
				_, err := r.ReadTL2(in.t2, &basictl.TL2ReadContext{})
				return err
			}
		}
		same := func(x, y regOut) bool { return !strings.Contains(regEq(x, y), "=0") }
		var parts []string
		for _, v := range []string{"s", "b"} {
			mk := func() meta.Object {
				if v == "s" {
					return factory.CreateObjectFromName(f[3])
				}
				return regBytesObj(f[3])
			}
			for _, format := range []string{"t1", "js", "t2"} {
				code := "ok"
				if format == "t2" && !b.hasT2 {
					parts = append(parts, v+":"+format+"=-")
					continue
				}
				fresh := mk()
				if err := read(fresh, format, b); err != nil {
					parts = append(parts, v+":"+format+"=readerr")
					continue
				}
				of := regWriteAll(fresh, tl2)
				if !same(of, b) {
					code = "rt"
				} else {
					reused := mk()
					e1 := read(reused, format, a)
					e2 := read(reused, format, b)
					rst := mk()
					e3 := read(rst, format, a)
					if r, ok := rst.(regReset); ok {
						r.Reset()
					}
					e4 := read(rst, format, b)
					if e1 != nil || e2 != nil || e3 != nil || e4 != nil {
						code = "readerr2"
					} else if !same(of, regWriteAll(reused, tl2)) {
						code = "reuse"
					} else if !same(of, regWriteAll(rst, tl2)) {
						code = "reset"
					}
				}
				parts = append(parts, v+":"+format+"="+code)
			}
		}
		return "ok " + strings.Join(parts, " ")
	}
}

func init() {
	// bmut <t1|t2> <name> <hex>: an arbitrary (usually malformed) input fed to both variants: verdict and consumed length of
	// each; when both accept: enc=same (all re-encodings equal) | norm (equal after the string variant re-reads what the bytes
	// variant wrote: unsorted / repeated dictionary keys) | differ
	ops["bmut"] = func(f []string) string {
		old := debug.SetMaxStack(32 << 20)
		defer debug.SetMaxStack(old)
		it := meta.FactoryItemByTLName(f[2])
		if it == nil {
			return "driver-error no item " + f[2]
		}
		in := unhex(f[3])
		tl2 := it.HasTL2()
		read := func(o meta.Object) (string, bool) {
			var rest []byte
			var err error
			if f[1] == "t1" {
				rest, err = o.ReadTL1Boxed(in)
			} else {
				r, ok := o.(regTL2Reader)
				if !ok {
					return "noreader", false
				}
				rest, err = r.ReadTL2(in, &basictl.TL2ReadContext{})
			}
			if err != nil {
				return cls(err), false
			}
			return fmt.Sprintf("ok:%d", len(in)-len(rest)), true
		}
		so, bo := factory.CreateObjectFromName(f[2]), regBytesObj(f[2])
		sv, sok := read(so)
		bv, bok := read(bo)
		res := "s=" + sv + " b=" + bv
		if !sok || !bok {
			return res
		}
		sw, bw := regWriteAll(so, tl2), regWriteAll(bo, tl2)
		if sw.t1err || bw.t1err {
			return res + fmt.Sprintf(" enc=writeerr:%v/%v", sw.t1err, bw.t1err)
		}
		same := func(x, y regOut) bool { return !strings.Contains(regEq(x, y), "=0") }
		if same(sw, bw) {
			return res + " enc=same"
		}
		s2 := factory.CreateObjectFromName(f[2])
		if _, err := s2.ReadTL1Boxed(bw.t1); err == nil && same(regWriteAll(s2, tl2), sw) {
			return res + " enc=norm"
		}
		return res + " enc=differ:" + regEq(sw, bw)
	}
	// btl2 <name> <hex TL1 boxed>: the TL2 encoding the string variant writes for this content ("-" when TL2 is not generated)
	ops["btl2"] = func(f []string) string {
		o := factory.CreateObjectFromName(f[1])
		if o == nil {
			return "driver-error no object " + f[1]
		}
		if _, err := o.ReadTL1Boxed(unhex(f[2])); err != nil {
			return cls(err)
		}
		w, ok := o.(regTL2Writer)
		it := meta.FactoryItemByTLName(f[1])
		if !ok || it == nil || !it.HasTL2() {
			return "notl2"
		}
		return "ok " + hx(w.WriteTL2(nil, &basictl.TL2WriteContext{}))
	}
}

type regReset interface{ Reset() }
type regTL2Reader interface {
	ReadTL2(r []byte, tctx *basictl.TL2ReadContext) ([]byte, error)
}
