package main

// JSON ops of the generated code (family Json: C05, C06).
import (
	"bytes"
	"encoding/json"
	"math"
	"runtime/debug"
	"strconv"

	"github.com/VKCOM/tl/pkg/basictl"

	"verifh/gen/factory"
)

// WriteTL2 exists in meta.Object only when TL2 code is generated
type tl2Writer interface {
	WriteTL2(w []byte, tctx *basictl.TL2WriteContext) []byte
}

func tl2OrNone(f func() []byte) (out string) {
	defer func() {
		if r := recover(); r != nil {
			out = "none"
		}
	}()
	return hx(f())
}

func init() {
	// wj <name> <boxed> <tl1hex>: ReadTL1 then WriteJSONGeneral with the default context
	ops["wj"] = func(f []string) string {
		obj := factory.CreateObjectFromName(f[1])
		if obj == nil {
			return "driver-error no object " + f[1]
		}
		in := unhex(f[3])
		var err error
		if f[2] == "1" {
			_, err = obj.ReadTL1Boxed(in)
		} else {
			_, err = obj.ReadTL1(in)
		}
		if err != nil {
			return cls(err)
		}
		w, err := obj.WriteJSONGeneral(&basictl.JSONWriteContext{}, nil)
		if err != nil {
			return "writeerr"
		}
		return "ok " + hx(w)
	}
	// rj <name> <jsonhex>: ReadJSONGeneral into a fresh object (LegacyTypeNames off), then TL1 boxed re-encoding
	ops["rj"] = func(f []string) string {
		obj := factory.CreateObjectFromName(f[1])
		if obj == nil {
			return "driver-error no object " + f[1]
		}
		txt := unhex(f[2])
		if err := obj.ReadJSONGeneral(&basictl.JSONReadContext{}, &basictl.JsonLexer{Data: txt}); err != nil {
			return "reject"
		}
		w, err := obj.WriteTL1BoxedGeneral(nil)
		if err != nil {
			return "ok writeerr"
		}
		return "ok " + hx(w)
	}
	// rtj <name> <boxed> <tl1hex> <hastl2>: the round trip evaluated on the implementation only:
	// TL1 -> object A -> JSON text J; json.Valid(J); J -> fresh object B; writers of A and B compared
	// result: ok <json valid 0/1> <J hex> <read back ok/reject> <tl1 equal 0/1> <json equal 0/1> <tl2 equal 0/1/->
	ops["rtj"] = func(f []string) string {
		a := factory.CreateObjectFromName(f[1])
		b := factory.CreateObjectFromName(f[1])
		if a == nil || b == nil {
			return "driver-error no object " + f[1]
		}
		in := unhex(f[3])
		var err error
		if f[2] == "1" {
			_, err = a.ReadTL1Boxed(in)
		} else {
			_, err = a.ReadTL1(in)
		}
		if err != nil {
			return cls(err)
		}
		j, err := a.WriteJSONGeneral(&basictl.JSONWriteContext{}, nil)
		if err != nil {
			return "writeerr"
		}
		valid := "0"
		if json.Valid(j) {
			valid = "1"
		}
		if err := b.ReadJSONGeneral(&basictl.JSONReadContext{}, &basictl.JsonLexer{Data: j}); err != nil {
			return "ok " + valid + " " + hx(j) + " reject - - -"
		}
		eq := func(x, y []byte, e1, e2 error) string {
			if (e1 != nil) != (e2 != nil) {
				return "0"
			}
			if e1 != nil || bytes.Equal(x, y) {
				return "1"
			}
			return "0"
		}
		a1, ea1 := a.WriteTL1BoxedGeneral(nil)
		b1, eb1 := b.WriteTL1BoxedGeneral(nil)
		aj, eaj := a.WriteJSONGeneral(&basictl.JSONWriteContext{}, nil)
		bj, ebj := b.WriteJSONGeneral(&basictl.JSONWriteContext{}, nil)
		t2 := "-"
		if f[4] == "1" {
			a2 := tl2OrNone(func() []byte { return a.(tl2Writer).WriteTL2(nil, &basictl.TL2WriteContext{}) })
			b2 := tl2OrNone(func() []byte { return b.(tl2Writer).WriteTL2(nil, &basictl.TL2WriteContext{}) })
			if a2 == b2 {
				t2 = "1"
			} else {
				t2 = "0"
			}
		}
		return "ok " + valid + " " + hx(j) + " ok " + eq(a1, b1, ea1, eb1) + " " + eq(aj, bj, eaj, ebj) + " " + t2
	}
	// randj <name> <seed>: FillRandom with a scripted source, written boxed; a small stack limit makes the
	// runaway recursion of F7 (C18) die quickly instead of filling 256 MB first
	ops["randj"] = func(f []string) string {
		obj := factory.CreateObjectFromName(f[1])
		if obj == nil {
			return "driver-error no object " + f[1]
		}
		old := debug.SetMaxStack(8 << 20)
		defer debug.SetMaxStack(old)
		seed, _ := strconv.ParseUint(f[2], 10, 64)
		obj.FillRandom(basictl.NewRandGenerator(&srand{s: seed}))
		w, err := obj.WriteTL1BoxedGeneral(nil)
		if err != nil {
			return "writeerr"
		}
		return "ok " + hx(w)
	}
	// ffmt <32|64> <bits>: the float-text oracle of the model (strconv is not modelled):
	// strconv.AppendFloat(nil, v, 'f', -1, bits) of the bit pattern
	ops["ffmt"] = func(f []string) string {
		b, err := strconv.ParseUint(f[2], 10, 64)
		if err != nil {
			return "driver-error bad bits"
		}
		if f[1] == "32" {
			return "ok " + hx(strconv.AppendFloat(nil, float64(math.Float32frombits(uint32(b))), 'f', -1, 32))
		}
		return "ok " + hx(strconv.AppendFloat(nil, math.Float64frombits(b), 'f', -1, 64))
	}
}
