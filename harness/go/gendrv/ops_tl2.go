package main

// TL2 operations (C03, C04, C13).  Errors are not classified: every read error is "err".

import (
	"bytes"
	"fmt"
	"runtime/debug"
	"strconv"
	"strings"

	"github.com/VKCOM/tl/pkg/basictl"

	"verifh/gen/factory"
)

// meta.Object has the TL2 methods only when the package was generated with TL2 enabled; this
// file must compile for every unit, so they are reached through a local interface.
type tl2obj interface {
	ReadTL1(w []byte) ([]byte, error)
	ReadTL1Boxed(w []byte) ([]byte, error)
	WriteTL1General(w []byte) ([]byte, error)
	WriteTL1BoxedGeneral(w []byte) ([]byte, error)
	WriteJSONGeneral(jctx *basictl.JSONWriteContext, w []byte) ([]byte, error)
	FillRandom(rg *basictl.RandGenerator)
	ReadTL2(r []byte, tctx *basictl.TL2ReadContext) ([]byte, error)
	WriteTL2(w []byte, tctx *basictl.TL2WriteContext) []byte
}

func newTL2(name string) tl2obj {
	o := factory.CreateObjectFromName(name)
	if o == nil {
		return nil
	}
	t, ok := any(o).(tl2obj)
	if !ok {
		return nil
	}
	return t
}

// A runaway recursion (FillRandom on some recursive types: F7; writing an infinite default
// object) ends in a fatal stack overflow that recover() cannot catch; with the default limit of
// main.go (256 MB) dying takes minutes on a loaded machine, so TL2 ops run with a small limit.
func small(h func(f []string) string) func(f []string) string {
	return func(f []string) string {
		old := debug.SetMaxStack(24 << 20)
		defer debug.SetMaxStack(old)
		return h(f)
	}
}

func init() {
	// rw2 <tid> <name> <hex>: read TL2, then write back what was read
	ops["rw2"] = small(func(f []string) string {
		obj := newTL2(f[2])
		if obj == nil {
			return "driver-error no object " + f[2]
		}
		in := unhex(f[3])
		rest, err := obj.ReadTL2(in, nil)
		if err != nil {
			return "err"
		}
		w := obj.WriteTL2(nil, nil)
		return "ok " + strconv.Itoa(len(in)-len(rest)) + " " + hx(w)
	})
	// rw2d <tid> <name> <dirty hex> <hex>: like rw2, but the destination object has first decoded
	// <dirty hex> (a reused object): the result must not depend on what the object held before
	ops["rw2d"] = small(func(f []string) string {
		obj := newTL2(f[2])
		if obj == nil {
			return "driver-error no object " + f[2]
		}
		if _, err := obj.ReadTL2(unhex(f[3]), nil); err != nil {
			return "dirty-err"
		}
		in := unhex(f[4])
		rest, err := obj.ReadTL2(in, nil)
		if err != nil {
			return "err"
		}
		w := obj.WriteTL2(nil, nil)
		return "ok " + strconv.Itoa(len(in)-len(rest)) + " " + hx(w)
	})
	// idem2 <tid> <name> <hex>: oracle (model-free): b -> read -> w1 -> read (fresh object) -> w2 -> read -> w3;
	// answers "ok" when w1 == w2 == w3, both re-reads consume exactly their input, and a size
	// buffer reused across writes gives the same bytes; otherwise what differs
	ops["idem2"] = small(func(f []string) string {
		obj := newTL2(f[2])
		if obj == nil {
			return "driver-error no object " + f[2]
		}
		in := unhex(f[3])
		if _, err := obj.ReadTL2(in, nil); err != nil {
			return "err"
		}
		w1 := obj.WriteTL2(nil, nil)
		tctx := basictl.TL2WriteContext{}
		w1b := obj.WriteTL2(nil, &tctx)
		w1c := obj.WriteTL2([]byte{0xaa, 0xbb}, &tctx)
		if !bytes.Equal(w1, w1b) || !bytes.Equal(w1, w1c[2:]) {
			return "diff sizebuffer " + hx(w1) + " " + hx(w1b) + " " + hx(w1c)
		}
		obj2 := newTL2(f[2])
		rest, err := obj2.ReadTL2(w1, nil)
		if err != nil {
			return "diff reread-error " + hx(w1)
		}
		if len(rest) != 0 {
			return "diff reread-left " + strconv.Itoa(len(rest)) + " " + hx(w1)
		}
		w2 := obj2.WriteTL2(nil, nil)
		if !bytes.Equal(w1, w2) {
			return "diff rewrite " + hx(w1) + " " + hx(w2)
		}
		// the same bytes followed by other data: exactly len(w1) bytes are consumed
		obj3 := newTL2(f[2])
		tail := []byte{0x07, 0xff, 0x00, 0x31}
		rest, err = obj3.ReadTL2(append(append([]byte{}, w1...), tail...), nil)
		if err != nil || !bytes.Equal(rest, tail) {
			return "diff tail " + hx(w1)
		}
		w3 := obj3.WriteTL2(nil, nil)
		if !bytes.Equal(w1, w3) {
			return "diff rewrite-tail " + hx(w1) + " " + hx(w3)
		}
		// reading into a used object gives the same result as reading into a fresh one
		if _, err = obj.ReadTL2(w1, nil); err != nil {
			return "diff dirty-error " + hx(w1)
		}
		if w4 := obj.WriteTL2(nil, nil); !bytes.Equal(w1, w4) {
			return "diff dirty " + hx(w1) + " " + hx(w4)
		}
		return "ok"
	})
	// rand2 <name> <seed>: FillRandom with a scripted source, written in TL2
	ops["rand2"] = small(func(f []string) string {
		obj := newTL2(f[1])
		if obj == nil {
			return "driver-error no object " + f[1]
		}
		seed, _ := strconv.ParseUint(f[2], 10, 64)
		obj.FillRandom(basictl.NewRandGenerator(&srand{s: seed}))
		return "ok " + hx(obj.WriteTL2(nil, nil))
	})
	// rand12 <name> <seed>: FillRandom with a scripted source, written boxed in TL1
	ops["rand12"] = small(func(f []string) string {
		obj := newTL2(f[1])
		if obj == nil {
			return "driver-error no object " + f[1]
		}
		seed, _ := strconv.ParseUint(f[2], 10, 64)
		obj.FillRandom(basictl.NewRandGenerator(&srand{s: seed}))
		w, err := obj.WriteTL1BoxedGeneral(nil)
		if err != nil {
			return "writeerr"
		}
		return "ok " + hx(w)
	})
	// fill2 <name> <seed>: FillRandom only (tells a FillRandom crash, left to C18, from a WriteTL2 crash)
	ops["fill2"] = small(func(f []string) string {
		obj := newTL2(f[1])
		if obj == nil {
			return "driver-error no object " + f[1]
		}
		seed, _ := strconv.ParseUint(f[2], 10, 64)
		obj.FillRandom(basictl.NewRandGenerator(&srand{s: seed}))
		return "ok"
	})
	// conv <san> <tid> <name> <boxed> <hex>: ReadTL1 -> WriteTL2 -> ReadTL2 (fresh) -> WriteTL1General
	ops["conv"] = small(func(f []string) string {
		obj := newTL2(f[3])
		if obj == nil {
			return "driver-error no object " + f[3]
		}
		in := unhex(f[5])
		boxed := f[4] == "1"
		var rest []byte
		var err error
		if boxed {
			rest, err = obj.ReadTL1Boxed(in)
		} else {
			rest, err = obj.ReadTL1(in)
		}
		if err != nil {
			return "err1"
		}
		pre := "ok " + strconv.Itoa(len(in)-len(rest)) + " "
		b2 := obj.WriteTL2(nil, nil)
		obj2 := newTL2(f[3])
		rest2, err := obj2.ReadTL2(b2, nil)
		if err != nil {
			return pre + hx(b2) + " read2-err"
		}
		if len(rest2) != 0 {
			return pre + hx(b2) + " trailing2"
		}
		var w []byte
		if boxed {
			w, err = obj2.WriteTL1BoxedGeneral(nil)
		} else {
			w, err = obj2.WriteTL1General(nil)
		}
		if err != nil {
			return pre + hx(b2) + " writeerr1"
		}
		return pre + hx(b2) + " " + hx(w)
	})
	// convj <san> <tid> <name> <boxed> <hex>: oracle (model-free): JSON of the TL1-decoded object
	// and of the object decoded from its TL2 form, and TL1 written from both
	ops["convj"] = small(func(f []string) string {
		obj := newTL2(f[3])
		if obj == nil {
			return "driver-error no object " + f[3]
		}
		in := unhex(f[5])
		boxed := f[4] == "1"
		var err error
		if boxed {
			_, err = obj.ReadTL1Boxed(in)
		} else {
			_, err = obj.ReadTL1(in)
		}
		if err != nil {
			return "err1"
		}
		wr := func(o interface {
			WriteTL1General(w []byte) ([]byte, error)
			WriteTL1BoxedGeneral(w []byte) ([]byte, error)
		}) ([]byte, error) {
			if boxed {
				return o.WriteTL1BoxedGeneral(nil)
			}
			return o.WriteTL1General(nil)
		}
		t1, err1 := wr(obj)
		j1, jerr1 := obj.WriteJSONGeneral(&basictl.JSONWriteContext{}, nil)
		b2 := obj.WriteTL2(nil, nil)
		obj2 := newTL2(f[3])
		if rest, err := obj2.ReadTL2(b2, nil); err != nil || len(rest) != 0 {
			return "diff read2 " + hx(b2)
		}
		t2, err2 := wr(obj2)
		var j2 []byte
		var jerr2 error
		if msg := func() (msg string) {
			defer func() {
				if r := recover(); r != nil {
					msg = fmt.Sprint(r)
				}
			}()
			j2, jerr2 = obj2.WriteJSONGeneral(&basictl.JSONWriteContext{}, nil)
			return ""
		}(); msg != "" {
			return "diff json-panic-after-tl2-read " + strings.ReplaceAll(msg, " ", "_") + " via " + hx(b2)
		}
		if (err1 == nil) != (err2 == nil) || !bytes.Equal(t1, t2) {
			return "diff tl1 " + hx(t1) + " " + hx(t2) + " via " + hx(b2)
		}
		if (jerr1 == nil) != (jerr2 == nil) || !bytes.Equal(j1, j2) {
			return "diff json " + hx(j1) + " " + hx(j2) + " via " + hx(b2)
		}
		return "ok"
	})
}
