// jprimdrv: runs the JSON primitive writers of pkg/basictl and the Json2Read* helpers that
// tl2gen (built from /repo) generated into ./gen on this run, one operation per line, and
// prints results in the format of the reference model driver (ocaml/drv_jprim.ml).
// Independent decoders (encoding/json, encoding/base64, strconv) are applied to the
// writers' output as well; any disagreement replaces the result line by a diagnostic.
package main

import (
	"bufio"
	"bytes"
	"encoding/base64"
	"encoding/hex"
	"encoding/json"
	"fmt"
	"math"
	"os"
	"regexp"
	"strconv"
	"strings"
	"unicode/utf8"

	"github.com/VKCOM/tl/pkg/basictl"

	"verifh/jprimdrv/gen/tljp"
	"verifh/jprimdrv/gen/verifx"
)

func unhex(s string) []byte {
	if s == "-" {
		return []byte{}
	}
	b, err := hex.DecodeString(s)
	if err != nil {
		panic(err)
	}
	return b
}

func hx(b []byte) string {
	if len(b) == 0 {
		return "-"
	}
	return hex.EncodeToString(b)
}

func b01(b bool) string {
	if b {
		return "1"
	}
	return "0"
}

func lexer(t []byte) *verifx.Lexer {
	// the lexer may alias its input; give it a private copy
	return &verifx.Lexer{Data: append([]byte(nil), t...)}
}

// read one value with f and require that nothing but whitespace follows
func finish(in *verifx.Lexer, err error) error {
	if err != nil {
		return err
	}
	in.Consumed()
	return in.Error()
}

var rfcNumber = regexp.MustCompile(`^-?(0|[1-9][0-9]*)(\.[0-9]+)?([eE][+-]?[0-9]+)?$`)

func opStr(s []byte) string {
	a := basictl.JSONWriteString(nil, string(s))
	b := basictl.JSONWriteStringBytes([]byte{0xAA}, s) // non-empty destination: must append
	if !bytes.Equal(a, b[1:]) || b[0] != 0xAA {
		return "variant-mismatch JSONWriteString/JSONWriteStringBytes " + hx(a) + " " + hx(b[1:])
	}
	// small destination with spare capacity (exercises alloc())
	c := basictl.JSONWriteStringBytes(make([]byte, 1, 8), s)
	if !bytes.Equal(a, c[1:]) {
		return "variant-mismatch JSONWriteStringBytes/spare-capacity " + hx(a) + " " + hx(c[1:])
	}
	back := "none"
	var rs string
	in := lexer(a)
	e1 := finish(in, verifx.ReadString(in, &rs))
	rb := []byte("dirty-old-content")
	in2 := lexer(a)
	e2 := finish(in2, verifx.ReadStringBytes(in2, &rb))
	if (e1 == nil) != (e2 == nil) || (e1 == nil && rs != string(rb)) {
		return "variant-mismatch Json2ReadString/Json2ReadStringBytes " + hx(a)
	}
	if e1 == nil {
		back = hx([]byte(rs))
	}
	// through a generated type (object with one string field)
	rec := tljp.Rec{S: string(s)}
	var rec2 tljp.Rec
	if err := rec2.UnmarshalJSON(rec.WriteJSON(nil)); (err == nil) != (e1 == nil) || (err == nil && rec2.S != rs) {
		return "variant-mismatch generated-type/helper " + hx(a)
	}
	recb := tljp.RecbBytes{S: s}
	var recb2 tljp.RecbBytes
	if err := recb2.UnmarshalJSON(recb.WriteJSON(nil)); (err == nil) != (e1 == nil) || (err == nil && string(recb2.S) != rs) {
		return "variant-mismatch generated-bytes-type/helper " + hx(a)
	}
	u := utf8.Valid(s)
	v := json.Valid(a) && utf8.Valid(a)
	// independent decode with the standard library
	if v {
		var std []byte
		if u {
			var x string
			if err := json.Unmarshal(a, &x); err != nil {
				return "std-mismatch " + hx(a) + " " + err.Error()
			}
			std = []byte(x)
		} else {
			var m map[string]string
			if err := json.Unmarshal(a, &m); err != nil || len(m) != 1 {
				return "std-mismatch " + hx(a) + " not-a-single-key-object"
			}
			d, err := base64.StdEncoding.DecodeString(m["base64"])
			if _, ok := m["base64"]; !ok || err != nil {
				return "std-mismatch " + hx(a) + " no-base64-key-or-bad-base64"
			}
			std = d
		}
		if !bytes.Equal(std, s) {
			return "std-mismatch " + hx(a) + " " + hx(std)
		}
	}
	return "ok " + hx(a) + " " + back + " v=" + b01(v) + " u=" + b01(u)
}

func opUnesc(t []byte) string {
	if len(t) == 0 || t[0] != '"' || !json.Valid(t) {
		return "reject"
	}
	var rs string
	in := lexer(t)
	if err := finish(in, verifx.ReadString(in, &rs)); err != nil {
		return "variant-mismatch json.Valid/Json2ReadString " + err.Error()
	}
	if utf8.Valid(t) {
		var x string
		if err := json.Unmarshal(t, &x); err != nil || x != rs {
			return "variant-mismatch encoding/json/Json2ReadString " + hx([]byte(x)) + " " + hx([]byte(rs))
		}
	}
	return "ok " + hx([]byte(rs))
}

func stdInt(text []byte, want string) string {
	if !json.Valid(text) || !rfcNumber.Match(text) {
		return "std-mismatch not-a-json-number " + hx(text)
	}
	var n json.Number
	if err := json.Unmarshal(text, &n); err != nil || n.String() != want {
		return "std-mismatch " + hx(text) + " " + n.String()
	}
	return ""
}

func opF64(bits uint64) string {
	v := math.Float64frombits(bits)
	text := basictl.JSONWriteFloat64(nil, v)
	var back float64
	in := lexer(text)
	if err := finish(in, verifx.ReadFloat64(in, &back)); err != nil {
		return "fin FAIL read-error " + hx(text) + " " + err.Error()
	}
	bb := math.Float64bits(back)
	if math.IsNaN(v) || math.IsInf(v, 0) {
		if !json.Valid(text) {
			return "special FAIL invalid-json " + hx(text)
		}
		return "special " + hx(text) + " " + strconv.FormatUint(bb, 10)
	}
	// finite: validation of the strconv oracle (hypotheses of the _partial theorem)
	if bb != bits {
		return fmt.Sprintf("fin FAIL roundtrip text=%s back=%d", hx(text), bb)
	}
	if !json.Valid(text) || !rfcNumber.Match(text) {
		return "fin FAIL not-a-json-number " + hx(text)
	}
	var x float64
	if err := json.Unmarshal(text, &x); err != nil || math.Float64bits(x) != bits {
		return fmt.Sprintf("fin FAIL encoding/json text=%s back=%d", hx(text), math.Float64bits(x))
	}
	if p, err := strconv.ParseFloat(string(text), 64); err != nil || math.Float64bits(p) != bits {
		return "fin FAIL strconv.ParseFloat " + hx(text)
	}
	var rec2 tljp.Rec
	rec := tljp.Rec{D: v}
	if err := rec2.UnmarshalJSON(rec.WriteJSON(nil)); err != nil || (math.Float64bits(rec2.D) != bits && bits != 1<<63) {
		// (-0 is omitted by the generated writer as a zero field and comes back as +0)
		return "fin FAIL generated-type " + hx(text)
	}
	return "fin ok"
}

func opF32(bits uint32) string {
	v := math.Float32frombits(bits)
	text := basictl.JSONWriteFloat32(nil, v)
	var back float32
	in := lexer(text)
	if err := finish(in, verifx.ReadFloat32(in, &back)); err != nil {
		return "fin FAIL read-error " + hx(text) + " " + err.Error()
	}
	bb := math.Float32bits(back)
	if v != v || math.IsInf(float64(v), 0) {
		if !json.Valid(text) {
			return "special FAIL invalid-json " + hx(text)
		}
		return "special " + hx(text) + " " + strconv.FormatUint(uint64(bb), 10)
	}
	if bb != bits {
		return fmt.Sprintf("fin FAIL roundtrip text=%s back=%d", hx(text), bb)
	}
	if !json.Valid(text) || !rfcNumber.Match(text) {
		return "fin FAIL not-a-json-number " + hx(text)
	}
	var x float32
	if err := json.Unmarshal(text, &x); err != nil || math.Float32bits(x) != bits {
		return fmt.Sprintf("fin FAIL encoding/json text=%s back=%d", hx(text), math.Float32bits(x))
	}
	if p, err := strconv.ParseFloat(string(text), 32); err != nil || math.Float32bits(float32(p)) != bits {
		return "fin FAIL strconv.ParseFloat " + hx(text)
	}
	var rec2 tljp.Rec
	rec := tljp.Rec{F: v}
	if err := rec2.UnmarshalJSON(rec.WriteJSON(nil)); err != nil || (math.Float32bits(rec2.F) != bits && bits != 1<<31) {
		return "fin FAIL generated-type " + hx(text)
	}
	return "fin ok"
}

func rd(err error, val string) string {
	if err != nil {
		return "reject"
	}
	return "ok " + val
}

func run(f []string) (out string) {
	defer func() {
		if r := recover(); r != nil {
			out = fmt.Sprintf("panic %v", r)
		}
	}()
	switch f[0] {
	case "str":
		return opStr(unhex(f[1]))
	case "jvalid":
		t := unhex(f[1])
		return "v=" + b01(json.Valid(t) && utf8.Valid(t))
	case "unesc":
		return opUnesc(unhex(f[1]))
	case "u8":
		n, err := strconv.ParseUint(f[1], 10, 8)
		if err != nil {
			return "driver-error " + err.Error()
		}
		text := basictl.JSONWriteByte(nil, byte(n))
		if m := stdInt(text, f[1]); m != "" {
			return m
		}
		var back byte
		in := lexer(text)
		if err := finish(in, verifx.ReadByte(in, &back)); err != nil {
			return "ok " + hx(text) + " none"
		}
		return "ok " + hx(text) + " " + strconv.FormatUint(uint64(back), 10)
	case "u32":
		n, err := strconv.ParseUint(f[1], 10, 32)
		if err != nil {
			return "driver-error " + err.Error()
		}
		text := basictl.JSONWriteUint32(nil, uint32(n))
		if m := stdInt(text, f[1]); m != "" {
			return m
		}
		var back uint32
		in := lexer(text)
		if err := finish(in, verifx.ReadUint32(in, &back)); err != nil {
			return "ok " + hx(text) + " none"
		}
		return "ok " + hx(text) + " " + strconv.FormatUint(uint64(back), 10)
	case "u64":
		n, err := strconv.ParseUint(f[1], 10, 64)
		if err != nil {
			return "driver-error " + err.Error()
		}
		text := basictl.JSONWriteUint64(nil, n)
		if m := stdInt(text, f[1]); m != "" {
			return m
		}
		var back uint64
		in := lexer(text)
		if err := finish(in, verifx.ReadUint64(in, &back)); err != nil {
			return "ok " + hx(text) + " none"
		}
		return "ok " + hx(text) + " " + strconv.FormatUint(back, 10)
	case "i32":
		n, err := strconv.ParseInt(f[1], 10, 32)
		if err != nil {
			return "driver-error " + err.Error()
		}
		text := basictl.JSONWriteInt32(nil, int32(n))
		if m := stdInt(text, f[1]); m != "" {
			return m
		}
		var back int32
		in := lexer(text)
		if err := finish(in, verifx.ReadInt32(in, &back)); err != nil {
			return "ok " + hx(text) + " none"
		}
		return "ok " + hx(text) + " " + strconv.FormatInt(int64(back), 10)
	case "i64":
		n, err := strconv.ParseInt(f[1], 10, 64)
		if err != nil {
			return "driver-error " + err.Error()
		}
		text := basictl.JSONWriteInt64(nil, n)
		if m := stdInt(text, f[1]); m != "" {
			return m
		}
		var back int64
		in := lexer(text)
		if err := finish(in, verifx.ReadInt64(in, &back)); err != nil {
			return "ok " + hx(text) + " none"
		}
		return "ok " + hx(text) + " " + strconv.FormatInt(back, 10)
	case "bool":
		v := f[1] == "1"
		text := basictl.JSONWriteBool(nil, v)
		if !json.Valid(text) {
			return "std-mismatch not-json " + hx(text)
		}
		var back bool
		in := lexer(text)
		if err := finish(in, verifx.ReadBool(in, &back)); err != nil {
			return "ok " + hx(text) + " none"
		}
		return "ok " + hx(text) + " " + strconv.FormatBool(back)
	case "ru8":
		var v byte
		in := lexer(unhex(f[1]))
		return rd(finish(in, verifx.ReadByte(in, &v)), strconv.FormatUint(uint64(v), 10))
	case "ru32":
		var v uint32
		in := lexer(unhex(f[1]))
		return rd(finish(in, verifx.ReadUint32(in, &v)), strconv.FormatUint(uint64(v), 10))
	case "ru64":
		var v uint64
		in := lexer(unhex(f[1]))
		return rd(finish(in, verifx.ReadUint64(in, &v)), strconv.FormatUint(v, 10))
	case "ri32":
		var v int32
		in := lexer(unhex(f[1]))
		return rd(finish(in, verifx.ReadInt32(in, &v)), strconv.FormatInt(int64(v), 10))
	case "ri64":
		var v int64
		in := lexer(unhex(f[1]))
		return rd(finish(in, verifx.ReadInt64(in, &v)), strconv.FormatInt(v, 10))
	case "rbool":
		var v bool
		in := lexer(unhex(f[1]))
		return rd(finish(in, verifx.ReadBool(in, &v)), strconv.FormatBool(v))
	case "f64":
		n, err := strconv.ParseUint(f[1], 10, 64)
		if err != nil {
			return "driver-error " + err.Error()
		}
		return opF64(n)
	case "f32":
		n, err := strconv.ParseUint(f[1], 10, 32)
		if err != nil {
			return "driver-error " + err.Error()
		}
		return opF32(uint32(n))
	}
	return "driver-error unknown op " + strings.Join(f, " ")
}

func main() {
	sc := bufio.NewScanner(os.Stdin)
	sc.Buffer(make([]byte, 1<<20), 1<<28)
	w := bufio.NewWriterSize(os.Stdout, 1<<20)
	defer w.Flush()
	for sc.Scan() {
		f := strings.Fields(sc.Text())
		if len(f) == 0 {
			w.WriteString("\n")
			continue
		}
		w.WriteString(run(f))
		w.WriteByte('\n')
	}
}
