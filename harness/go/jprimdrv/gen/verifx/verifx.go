// Package verifx re-exports the JSON read helpers that tl2gen emits into the internal
// package of the generated tree (freshly generated from /repo on every run), so that the
// driver can call exactly the functions generated code calls.
package verifx

import (
	"github.com/mailru/easyjson/jlexer"

	"verifh/jprimdrv/gen/internal"
)

type Lexer = jlexer.Lexer

func ReadString(in *jlexer.Lexer, dst *string) error      { return internal.Json2ReadString(in, dst) }
func ReadStringBytes(in *jlexer.Lexer, dst *[]byte) error { return internal.Json2ReadStringBytes(in, dst) }
func ReadBool(in *jlexer.Lexer, dst *bool) error          { return internal.Json2ReadBool(in, dst) }
func ReadByte(in *jlexer.Lexer, dst *byte) error          { return internal.Json2ReadByte(in, dst) }
func ReadUint32(in *jlexer.Lexer, dst *uint32) error      { return internal.Json2ReadUint32(in, dst) }
func ReadInt32(in *jlexer.Lexer, dst *int32) error        { return internal.Json2ReadInt32(in, dst) }
func ReadInt64(in *jlexer.Lexer, dst *int64) error        { return internal.Json2ReadInt64(in, dst) }
func ReadUint64(in *jlexer.Lexer, dst *uint64) error      { return internal.Json2ReadUint64(in, dst) }
func ReadFloat32(in *jlexer.Lexer, dst *float32) error    { return internal.Json2ReadFloat32(in, dst) }
func ReadFloat64(in *jlexer.Lexer, dst *float64) error    { return internal.Json2ReadFloat64(in, dst) }
