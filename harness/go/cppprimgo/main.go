// cppprimgo: the Go side of C31's primitive-level leg.  Runs pkg/basictl's TL1 primitives on the line
// protocol of harness/cpp/primdriver.cpp / ocaml/drv_cpp.ml (pr / prn / pw / pwn); the connector
// parameters (<chunk>, <first>:<chunk>:<cap>) do not exist on the Go side and are ignored, except
// that a write longer than <cap> is reported as `writeerr` like the bounded C++ connector does.
package main

import (
	"bufio"
	"encoding/hex"
	"errors"
	"fmt"
	"io"
	"math"
	"os"
	"strconv"
	"strings"

	"github.com/VKCOM/tl/pkg/basictl"
)

func unhex(s string) []byte {
	if s == "-" {
		return []byte{}
	}
	b, err := hex.DecodeString(s)
	if err != nil {
		panic(err)
	}
	return b
}

func hx(b []byte) string {
	if len(b) == 0 {
		return "-"
	}
	return hex.EncodeToString(b)
}

func showBytes(b []byte) string {
	if len(b) <= 64 {
		return hx(b)
	}
	var sum uint32
	for _, x := range b {
		sum += uint32(x)
	}
	return fmt.Sprintf("#%d:%d:%s:%s", len(b), sum, hx(b[:16]), hx(b[len(b)-16:]))
}

func cls(err error) string {
	if errors.Is(err, io.ErrUnexpectedEOF) {
		return "eof"
	}
	return "reject"
}

func doRead(p string, in []byte) string {
	var rest []byte
	var err error
	var val string
	parts := strings.Split(p, ":")
	switch parts[0] {
	case "nat":
		var v uint32
		rest, err = basictl.NatRead(in, &v)
		val = strconv.FormatUint(uint64(v), 10)
	case "int":
		var v int32
		rest, err = basictl.IntRead(in, &v)
		val = strconv.FormatUint(uint64(uint32(v)), 10)
	case "float":
		var v float32
		rest, err = basictl.FloatRead(in, &v)
		val = strconv.FormatUint(uint64(math.Float32bits(v)), 10)
	case "long":
		var v int64
		rest, err = basictl.LongRead(in, &v)
		val = strconv.FormatUint(uint64(v), 10)
	case "double":
		var v float64
		rest, err = basictl.DoubleRead(in, &v)
		val = strconv.FormatUint(math.Float64bits(v), 10)
	case "string":
		var v string
		rest, err = basictl.StringRead(in, &v)
		val = showBytes([]byte(v))
	case "bool":
		f, _ := strconv.ParseUint(parts[1], 10, 32)
		t, _ := strconv.ParseUint(parts[2], 10, 32)
		var v bool
		rest, err = basictl.ReadBool(in, &v, uint32(f), uint32(t))
		val = "0"
		if v {
			val = "1"
		}
	default:
		return "driver-error bad prim"
	}
	if err != nil {
		return cls(err)
	}
	return fmt.Sprintf("ok %s %d", val, len(in)-len(rest))
}

func doWrite(p string, spec string, value []byte, num uint64) string {
	var w []byte
	parts := strings.Split(p, ":")
	switch parts[0] {
	case "nat":
		w = basictl.NatWrite(nil, uint32(num))
	case "int":
		w = basictl.IntWrite(nil, int32(uint32(num)))
	case "float":
		w = basictl.FloatWrite(nil, math.Float32frombits(uint32(num)))
	case "long":
		w = basictl.LongWrite(nil, int64(num))
	case "double":
		w = basictl.DoubleWrite(nil, math.Float64frombits(num))
	case "string":
		w = basictl.StringWriteBytes(nil, value)
	case "bool":
		f, _ := strconv.ParseUint(parts[1], 10, 32)
		t, _ := strconv.ParseUint(parts[2], 10, 32)
		if num == 1 {
			w = basictl.NatWrite(nil, uint32(t))
		} else {
			w = basictl.NatWrite(nil, uint32(f))
		}
	default:
		return "driver-error bad prim"
	}
	sp := strings.Split(spec, ":")
	if c, err := strconv.Atoi(sp[len(sp)-1]); err == nil && len(w) > c {
		return "writeerr"
	}
	return "ok " + showBytes(w)
}

func run(f []string) (out string) {
	defer func() {
		if r := recover(); r != nil {
			out = fmt.Sprintf("panic %v", r)
		}
	}()
	switch {
	case f[0] == "pr" && len(f) == 4:
		return doRead(f[1], unhex(f[3]))
	case f[0] == "prn" && len(f) == 7:
		n, _ := strconv.Atoi(f[4])
		b := unhex(f[5])
		in := append([]byte{}, unhex(f[3])...)
		for i := 0; i < n; i++ {
			in = append(in, b[0])
		}
		in = append(in, unhex(f[6])...)
		return doRead(f[1], in)
	case f[0] == "pw" && len(f) == 4:
		if f[1] == "string" {
			return doWrite(f[1], f[2], unhex(f[3]), 0)
		}
		n, _ := strconv.ParseUint(f[3], 10, 64)
		return doWrite(f[1], f[2], nil, n)
	case f[0] == "pwn" && len(f) == 5:
		n, _ := strconv.Atoi(f[3])
		b := unhex(f[4])
		v := make([]byte, n)
		for i := range v {
			v[i] = b[0]
		}
		return doWrite(f[1], f[2], v, 0)
	}
	return "driver-error unknown op " + f[0]
}

func main() {
	sc := bufio.NewScanner(os.Stdin)
	sc.Buffer(make([]byte, 1<<20), 1<<28)
	w := bufio.NewWriter(os.Stdout)
	defer w.Flush()
	for sc.Scan() {
		f := strings.Fields(sc.Text())
		if len(f) == 0 {
			fmt.Fprintln(w)
			continue
		}
		fmt.Fprintln(w, run(f))
		w.Flush()
	}
}
