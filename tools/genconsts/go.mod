module verif/genconsts

go 1.21
