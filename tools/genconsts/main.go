// genconsts: translator T-const. Reads Go source files of /repo with go/parser
// (no repo code is executed) and writes the named constants and tables as Coq
// definitions. Fails loudly if a constant disappears or has an unsupported shape.
package main

import (
	"encoding/json"
	"fmt"
	"go/ast"
	"go/constant"
	"go/parser"
	"go/token"
	"os"
	"path/filepath"
	"regexp"
	"sort"
	"strconv"
	"strings"
)

type Item struct {
	File   string   `json:"file"`
	Prefix string   `json:"prefix"`
	Ints   []string `json:"ints"`    // integer constants (package level or inside any func)
	Strs   []string `json:"strings"` // string constants -> list N
	Tables []string `json:"bool_tables"`
	// negative integer constants: emitted as `Definition <name>_neg : N := |value|` (the constant is -<name>_neg)
	NegInts []string `json:"neg_ints"`
	// integer literal arguments: func name + call name + arg index -> named constant
	CallArgs []struct {
		Name   string `json:"name"`
		Func   string `json:"func"`
		Callee string `json:"callee"`
		Arg    int    `json:"arg"`
		Nth    int    `json:"nth"`
	} `json:"call_args"`
	// integer returned by a one-statement method `func (recv) method() T { return <const expr> }`,
	// e.g. the generated `func (RpcDestActor) TLTag() uint32 { return 0x7568aabd }`
	MethodInts []struct {
		Name   string `json:"name"`
		Recv   string `json:"recv"`
		Method string `json:"method"`
	} `json:"method_ints"`
	// integer assigned to a field inside a function: the nth `<expr>.<field> = <const int expr>` of func
	AssignInts []struct {
		Name  string `json:"name"`
		Func  string `json:"func"`
		Field string `json:"field"`
		Nth   int    `json:"nth"`
	} `json:"assign_ints"`
	// --- C++ sources (kinds added for C31; see cppItem at the end of this file) ---
	// "lang": "cpp" makes the item a C++ item: the file is NOT parsed as Go.  Its text is either the file itself or,
	// with "embedded_key", the raw string literal assigned to m["<key>"] inside the Go file (the copy of the C++
	// runtime that tlgen emits: internal/tlcodegen/helpers_cpp_generated.go).
	Lang        string `json:"lang"`
	EmbeddedKey string `json:"embedded_key"`
	// `constexpr <type> NAME = <integer literal>;` or `#define NAME <integer literal>`
	CppConsts []string `json:"cpp_consts"`
	// integer literal captured by group 1 of a regex applied to the body of a named C++ function
	// (`<ret> <func>(...) ... { body }`, brace matched).  All matches must carry the same literal and there must be
	// exactly "count" of them (default: at least one).
	CppFuncLits []struct {
		Name  string `json:"name"`
		Func  string `json:"func"`
		Regex string `json:"regex"`
		Count int    `json:"count"`
	} `json:"cpp_func_literals"`
	// comparison operator captured by group 1 of a regex applied to the body of a named C++ function, emitted as a
	// code: "<" 0, "<=" 1, ">" 2, ">=" 3, "==" 4, "!=" 5 (the model applies it with CppModel.cmp_op).  Exactly one match.
	CppFuncOps []struct {
		Name  string `json:"name"`
		Func  string `json:"func"`
		Regex string `json:"regex"`
	} `json:"cpp_func_ops"`
}

// methodInt finds `func (… recv) method() … { return X }` and evaluates X.
func methodInt(f *ast.File, e *env, recv, method string) (constant.Value, bool) {
	for _, d := range f.Decls {
		fd, ok := d.(*ast.FuncDecl)
		if !ok || fd.Name.Name != method || fd.Recv == nil || len(fd.Recv.List) != 1 || fd.Body == nil || len(fd.Body.List) != 1 {
			continue
		}
		t := fd.Recv.List[0].Type
		if st, ok := t.(*ast.StarExpr); ok {
			t = st.X
		}
		id, ok := t.(*ast.Ident)
		if !ok || id.Name != recv {
			continue
		}
		rs, ok := fd.Body.List[0].(*ast.ReturnStmt)
		if !ok || len(rs.Results) != 1 {
			continue
		}
		v, err := e.eval(rs.Results[0], 0)
		if err != nil || v.Kind() != constant.Int || constant.Sign(v) < 0 {
			continue
		}
		return v, true
	}
	return nil, false
}

type env struct {
	consts map[string]ast.Expr
	iota   map[string]int
}

func (e *env) eval(x ast.Expr, iotaVal int) (constant.Value, error) {
	switch v := x.(type) {
	case *ast.BasicLit:
		return constant.MakeFromLiteral(v.Value, v.Kind, 0), nil
	case *ast.ParenExpr:
		return e.eval(v.X, iotaVal)
	case *ast.Ident:
		if v.Name == "iota" {
			return constant.MakeInt64(int64(iotaVal)), nil
		}
		if v.Name == "true" {
			return constant.MakeBool(true), nil
		}
		if v.Name == "false" {
			return constant.MakeBool(false), nil
		}
		if d, ok := e.consts[v.Name]; ok {
			return e.eval(d, e.iota[v.Name])
		}
		return nil, fmt.Errorf("unknown identifier %s", v.Name)
	case *ast.UnaryExpr:
		a, err := e.eval(v.X, iotaVal)
		if err != nil {
			return nil, err
		}
		return constant.UnaryOp(v.Op, a, 0), nil
	case *ast.BinaryExpr:
		a, err := e.eval(v.X, iotaVal)
		if err != nil {
			return nil, err
		}
		b, err := e.eval(v.Y, iotaVal)
		if err != nil {
			return nil, err
		}
		switch v.Op {
		case token.SHL, token.SHR:
			s, _ := constant.Uint64Val(b)
			return constant.Shift(a, v.Op, uint(s)), nil
		case token.QUO:
			if a.Kind() == constant.Int && b.Kind() == constant.Int {
				return constant.BinaryOp(a, token.QUO_ASSIGN, b), nil
			}
		}
		return constant.BinaryOp(a, v.Op, b), nil
	case *ast.CallExpr: // conversions like uint32(x), len("..")
		if id, ok := v.Fun.(*ast.Ident); ok && len(v.Args) == 1 {
			a, err := e.eval(v.Args[0], iotaVal)
			if err != nil {
				return nil, err
			}
			if id.Name == "len" && a.Kind() == constant.String {
				return constant.MakeInt64(int64(len(constant.StringVal(a)))), nil
			}
			return a, nil
		}
		if sel, ok := v.Fun.(*ast.SelectorExpr); ok && len(v.Args) == 1 { // time.Duration(..) etc
			_ = sel
			return e.eval(v.Args[0], iotaVal)
		}
	case *ast.SelectorExpr:
		// a few well-known stdlib constants
		if id, ok := v.X.(*ast.Ident); ok {
			switch id.Name + "." + v.Sel.Name {
			case "utf8.RuneSelf":
				return constant.MakeInt64(0x80), nil
			case "math.MaxInt":
				return constant.MakeFromLiteral("9223372036854775807", token.INT, 0), nil
			case "math.MaxUint32":
				return constant.MakeFromLiteral("4294967295", token.INT, 0), nil
			case "math.MaxInt32":
				return constant.MakeFromLiteral("2147483647", token.INT, 0), nil
			case "time.Second":
				return constant.MakeFromLiteral("1000000000", token.INT, 0), nil
			case "time.Millisecond":
				return constant.MakeFromLiteral("1000000", token.INT, 0), nil
			}
		}
	}
	return nil, fmt.Errorf("unsupported constant expression %T", x)
}

func collect(f *ast.File) (*env, map[string]*ast.CompositeLit) {
	e := &env{consts: map[string]ast.Expr{}, iota: map[string]int{}}
	tables := map[string]*ast.CompositeLit{}
	ast.Inspect(f, func(n ast.Node) bool {
		gd, ok := n.(*ast.GenDecl)
		if !ok {
			return true
		}
		if gd.Tok == token.CONST {
			var last []ast.Expr
			for i, s := range gd.Specs {
				vs := s.(*ast.ValueSpec)
				vals := vs.Values
				if len(vals) == 0 {
					vals = last
				} else {
					last = vals
				}
				for j, name := range vs.Names {
					if j < len(vals) {
						e.consts[name.Name] = vals[j]
						e.iota[name.Name] = i
					}
				}
			}
		}
		if gd.Tok == token.VAR {
			for _, s := range gd.Specs {
				vs := s.(*ast.ValueSpec)
				for j, name := range vs.Names {
					if j < len(vs.Values) {
						if cl, ok := vs.Values[j].(*ast.CompositeLit); ok {
							tables[name.Name] = cl
						}
					}
				}
			}
		}
		return true
	})
	return e, tables
}

func coqIdent(prefix, name string) string {
	return prefix + name
}

func bytesList(s string) string {
	parts := make([]string, len(s))
	for i := 0; i < len(s); i++ {
		parts[i] = strconv.Itoa(int(s[i]))
	}
	return "[" + strings.Join(parts, "; ") + "]"
}

func main() {
	if len(os.Args) != 4 {
		fmt.Fprintln(os.Stderr, "usage: genconsts <repo> <spec.json> <out.v>")
		os.Exit(2)
	}
	repo, specPath, out := os.Args[1], os.Args[2], os.Args[3]
	raw, err := os.ReadFile(specPath)
	if err != nil {
		panic(err)
	}
	var items []Item
	if err := json.Unmarshal(raw, &items); err != nil {
		panic(err)
	}
	var sb strings.Builder
	sb.WriteString("(* GENERATED by tools/genconsts from /repo sources on every run. Do not edit. *)\n")
	sb.WriteString("From Coq Require Import List NArith Bool.\nImport ListNotations.\nOpen Scope N_scope.\n\n")
	fail := false
	for _, it := range items {
		if it.Lang == "cpp" {
			if !cppItem(repo, it, &sb) {
				fail = true
			}
			continue
		}
		fset := token.NewFileSet()
		f, err := parser.ParseFile(fset, filepath.Join(repo, it.File), nil, 0)
		if err != nil {
			fmt.Fprintf(os.Stderr, "genconsts: %v\n", err)
			os.Exit(1)
		}
		e, tables := collect(f)
		sb.WriteString(fmt.Sprintf("(* %s *)\n", it.File))
		for _, name := range it.Ints {
			d, ok := e.consts[name]
			if !ok {
				fmt.Fprintf(os.Stderr, "genconsts: constant %s not found in %s\n", name, it.File)
				fail = true
				continue
			}
			v, err := e.eval(d, e.iota[name])
			if err != nil || v.Kind() != constant.Int || constant.Sign(v) < 0 {
				fmt.Fprintf(os.Stderr, "genconsts: constant %s in %s: %v (value %v)\n", name, it.File, err, v)
				fail = true
				continue
			}
			sb.WriteString(fmt.Sprintf("Definition %s : N := %s.\n", coqIdent(it.Prefix, name), v.ExactString()))
		}
		for _, name := range it.NegInts {
			d, ok := e.consts[name]
			if !ok {
				fmt.Fprintf(os.Stderr, "genconsts: constant %s not found in %s\n", name, it.File)
				fail = true
				continue
			}
			v, err := e.eval(d, e.iota[name])
			if err != nil || v.Kind() != constant.Int || constant.Sign(v) >= 0 {
				fmt.Fprintf(os.Stderr, "genconsts: constant %s in %s: expected a negative integer: %v (value %v)\n", name, it.File, err, v)
				fail = true
				continue
			}
			sb.WriteString(fmt.Sprintf("Definition %s_neg : N := %s.\n", coqIdent(it.Prefix, name), constant.UnaryOp(token.SUB, v, 0).ExactString()))
		}
		for _, name := range it.Strs {
			d, ok := e.consts[name]
			if !ok {
				fmt.Fprintf(os.Stderr, "genconsts: string constant %s not found in %s\n", name, it.File)
				fail = true
				continue
			}
			v, err := e.eval(d, 0)
			if err != nil || v.Kind() != constant.String {
				fmt.Fprintf(os.Stderr, "genconsts: string constant %s in %s: %v\n", name, it.File, err)
				fail = true
				continue
			}
			sb.WriteString(fmt.Sprintf("Definition %s : list N := %s.\n", coqIdent(it.Prefix, name), bytesList(constant.StringVal(v))))
		}
		for _, name := range it.Tables {
			cl, ok := tables[name]
			if !ok {
				fmt.Fprintf(os.Stderr, "genconsts: table %s not found in %s\n", name, it.File)
				fail = true
				continue
			}
			vals := map[int]bool{}
			max := -1
			for _, el := range cl.Elts {
				kv, ok := el.(*ast.KeyValueExpr)
				if !ok {
					fmt.Fprintf(os.Stderr, "genconsts: table %s: non key-value element\n", name)
					fail = true
					continue
				}
				k, err1 := e.eval(kv.Key, 0)
				v, err2 := e.eval(kv.Value, 0)
				if err1 != nil || err2 != nil {
					fmt.Fprintf(os.Stderr, "genconsts: table %s: %v %v\n", name, err1, err2)
					fail = true
					continue
				}
				ki, _ := constant.Int64Val(k)
				vals[int(ki)] = constant.BoolVal(v)
				if int(ki) > max {
					max = int(ki)
				}
			}
			keys := make([]int, 0, len(vals))
			for k := range vals {
				keys = append(keys, k)
			}
			sort.Ints(keys)
			parts := make([]string, max+1)
			for i := 0; i <= max; i++ {
				if vals[i] {
					parts[i] = "true"
				} else {
					parts[i] = "false"
				}
			}
			sb.WriteString(fmt.Sprintf("Definition %s : list bool :=\n  [%s].\n", coqIdent(it.Prefix, name), strings.Join(parts, "; ")))
		}
		for _, ca := range it.CallArgs {
			found := false
			ast.Inspect(f, func(n ast.Node) bool {
				fd, ok := n.(*ast.FuncDecl)
				if !ok || fd.Name.Name != ca.Func || fd.Body == nil {
					return true
				}
				nth := 0
				ast.Inspect(fd.Body, func(m ast.Node) bool {
					call, ok := m.(*ast.CallExpr)
					if !ok {
						return true
					}
					var cname string
					switch c := call.Fun.(type) {
					case *ast.Ident:
						cname = c.Name
					case *ast.SelectorExpr:
						cname = c.Sel.Name
					}
					if cname == ca.Callee {
						if nth == ca.Nth && ca.Arg < len(call.Args) {
							v, err := e.eval(call.Args[ca.Arg], 0)
							if err == nil && v.Kind() == constant.Int {
								sb.WriteString(fmt.Sprintf("Definition %s : N := %s.\n", coqIdent(it.Prefix, ca.Name), v.ExactString()))
								found = true
							}
						}
						nth++
					}
					return true
				})
				return false
			})
			if !found {
				fmt.Fprintf(os.Stderr, "genconsts: call argument %s (%s in %s) not found in %s\n", ca.Name, ca.Callee, ca.Func, it.File)
				fail = true
			}
		}
		for _, mi := range it.MethodInts {
			v, ok := methodInt(f, e, mi.Recv, mi.Method)
			if !ok {
				fmt.Fprintf(os.Stderr, "genconsts: method constant %s (func (%s) %s) not found in %s\n", mi.Name, mi.Recv, mi.Method, it.File)
				fail = true
				continue
			}
			sb.WriteString(fmt.Sprintf("Definition %s : N := %s.\n", coqIdent(it.Prefix, mi.Name), v.ExactString()))
		}
		for _, ai := range it.AssignInts {
			found := false
			ast.Inspect(f, func(n ast.Node) bool {
				fd, ok := n.(*ast.FuncDecl)
				if !ok || fd.Name.Name != ai.Func || fd.Body == nil {
					return true
				}
				nth := 0
				ast.Inspect(fd.Body, func(m ast.Node) bool {
					as, ok := m.(*ast.AssignStmt)
					if !ok || as.Tok != token.ASSIGN || len(as.Lhs) != 1 || len(as.Rhs) != 1 {
						return true
					}
					sel, ok := as.Lhs[0].(*ast.SelectorExpr)
					if !ok || sel.Sel.Name != ai.Field {
						return true
					}
					if nth == ai.Nth {
						v, err := e.eval(as.Rhs[0], 0)
						if err == nil && v.Kind() == constant.Int && constant.Sign(v) >= 0 {
							sb.WriteString(fmt.Sprintf("Definition %s : N := %s.\n", coqIdent(it.Prefix, ai.Name), v.ExactString()))
							found = true
						}
					}
					nth++
					return true
				})
				return false
			})
			if !found {
				fmt.Fprintf(os.Stderr, "genconsts: assignment %s (.%s in %s) not found in %s\n", ai.Name, ai.Field, ai.Func, it.File)
				fail = true
			}
		}
		sb.WriteString("\n")
	}
	if fail {
		os.Exit(1)
	}
	// write only when changed so that make does not rebuild needlessly
	old, _ := os.ReadFile(out)
	if string(old) != sb.String() {
		if err := os.WriteFile(out, []byte(sb.String()), 0o644); err != nil {
			panic(err)
		}
	}
}

// ----------------------------------------------------------------------------------------------
// C++ items (kinds "cpp_consts", "cpp_func_literals").  No C++ is executed or compiled: constants
// are extracted textually, and the extraction fails loudly when the expected shape is not found.

// cppText returns the C++ text of the item: the file itself, or the raw string assigned to
// m["<EmbeddedKey>"] in a Go file.
func cppText(repo string, it Item) (string, error) {
	path := filepath.Join(repo, it.File)
	if it.EmbeddedKey == "" {
		raw, err := os.ReadFile(path)
		return string(raw), err
	}
	fset := token.NewFileSet()
	f, err := parser.ParseFile(fset, path, nil, 0)
	if err != nil {
		return "", err
	}
	var text string
	n := 0
	ast.Inspect(f, func(nd ast.Node) bool {
		as, ok := nd.(*ast.AssignStmt)
		if !ok || len(as.Lhs) != 1 || len(as.Rhs) != 1 {
			return true
		}
		ix, ok := as.Lhs[0].(*ast.IndexExpr)
		if !ok {
			return true
		}
		k, ok := ix.Index.(*ast.BasicLit)
		if !ok || k.Kind != token.STRING {
			return true
		}
		ks, err := strconv.Unquote(k.Value)
		if err != nil || ks != it.EmbeddedKey {
			return true
		}
		v, ok := as.Rhs[0].(*ast.BasicLit)
		if !ok || v.Kind != token.STRING {
			return true
		}
		vs, err := strconv.Unquote(v.Value)
		if err != nil {
			return true
		}
		text = vs
		n++
		return true
	})
	if n != 1 {
		return "", fmt.Errorf("%d assignments to [%q] in %s (want exactly 1)", n, it.EmbeddedKey, it.File)
	}
	return text, nil
}

var cppIntRe = regexp.MustCompile(`^(0[xX][0-9a-fA-F']+|[0-9][0-9']*)([uUlL]*)$`)

// cppInt parses a C++ integer literal (decimal / hex, digit separators, u/l suffixes).
func cppInt(lit string) (constant.Value, bool) {
	m := cppIntRe.FindStringSubmatch(strings.TrimSpace(lit))
	if m == nil {
		return nil, false
	}
	d := strings.ReplaceAll(m[1], "'", "")
	if len(d) > 1 && d[0] == '0' && d[1] != 'x' && d[1] != 'X' { // octal: not used by the runtime, refuse
		return nil, false
	}
	v := constant.MakeFromLiteral(d, token.INT, 0)
	if v.Kind() != constant.Int {
		return nil, false
	}
	return v, true
}

// cppFuncBody returns the brace-matched body of the definition of `name` (e.g. "tl_istream::string_read"),
// comments stripped.  Exactly one definition must exist.
func cppFuncBody(text, name string) (string, error) {
	text = regexp.MustCompile(`(?s)/\*.*?\*/`).ReplaceAllString(text, " ")
	text = regexp.MustCompile(`//[^\n]*`).ReplaceAllString(text, " ")
	re := regexp.MustCompile(`(^|[^A-Za-z0-9_:])` + regexp.QuoteMeta(name) + `\s*\([^;{}]*\)[^;{}]*\{`)
	locs := re.FindAllStringIndex(text, -1)
	if len(locs) != 1 {
		return "", fmt.Errorf("%d definitions of %s (want exactly 1)", len(locs), name)
	}
	start := locs[0][1]
	depth := 1
	for i := start; i < len(text); i++ {
		switch text[i] {
		case '{':
			depth++
		case '}':
			depth--
			if depth == 0 {
				return text[start:i], nil
			}
		}
	}
	return "", fmt.Errorf("unbalanced braces in %s", name)
}

// constants extracted by "cpp_consts" so far (Coq name -> value): a "cpp_func_literals" capture may name one
var cppKnown = map[string]constant.Value{}

func cppItem(repo string, it Item, sb *strings.Builder) bool {
	ok := true
	text, err := cppText(repo, it)
	where := it.File
	if it.EmbeddedKey != "" {
		where += " [" + it.EmbeddedKey + "]"
	}
	if err != nil {
		fmt.Fprintf(os.Stderr, "genconsts: %s: %v\n", where, err)
		return false
	}
	sb.WriteString(fmt.Sprintf("(* %s *)\n", where))
	for _, name := range it.CppConsts {
		re := regexp.MustCompile(`(?m)(?:constexpr\s+[A-Za-z0-9_:<> ]+?\s+|^\s*#\s*define\s+)` + regexp.QuoteMeta(name) + `\s*=?\s*([0-9a-fA-FxXuUlL']+)\s*;?\s*$`)
		ms := re.FindAllStringSubmatch(text, -1)
		if len(ms) != 1 {
			fmt.Fprintf(os.Stderr, "genconsts: C++ constant %s: %d definitions in %s (want exactly 1)\n", name, len(ms), where)
			ok = false
			continue
		}
		v, good := cppInt(ms[0][1])
		if !good {
			fmt.Fprintf(os.Stderr, "genconsts: C++ constant %s in %s: unsupported literal %q\n", name, where, ms[0][1])
			ok = false
			continue
		}
		sb.WriteString(fmt.Sprintf("Definition %s : N := %s.\n", coqIdent(it.Prefix, name), v.ExactString()))
		cppKnown[coqIdent(it.Prefix, name)] = v
	}
	for _, fl := range it.CppFuncLits {
		body, err := cppFuncBody(text, fl.Func)
		if err != nil {
			fmt.Fprintf(os.Stderr, "genconsts: C++ literal %s: %v in %s\n", fl.Name, err, where)
			ok = false
			continue
		}
		re, err := regexp.Compile(fl.Regex)
		if err != nil || re.NumSubexp() < 1 {
			fmt.Fprintf(os.Stderr, "genconsts: C++ literal %s: bad regex %q\n", fl.Name, fl.Regex)
			ok = false
			continue
		}
		ms := re.FindAllStringSubmatch(body, -1)
		if len(ms) == 0 || (fl.Count > 0 && len(ms) != fl.Count) {
			fmt.Fprintf(os.Stderr, "genconsts: C++ literal %s: %d matches of %q in %s of %s (want %d)\n", fl.Name, len(ms), fl.Regex, fl.Func, where, fl.Count)
			ok = false
			continue
		}
		var val constant.Value
		good := true
		for _, m := range ms {
			for i := 2; i < len(m) && m[1] == ""; i++ { // alternatives: the first non-empty group counts
				m[1] = m[i]
			}
			v, g := cppInt(m[1])
			if !g { // a named constant extracted earlier in this spec with the same prefix (basictl::TL_UINT32_SIZE)
				id := m[1]
				if i := strings.LastIndex(id, "::"); i >= 0 {
					id = id[i+2:]
				}
				v, g = cppKnown[coqIdent(it.Prefix, id)]
			}
			if !g || (val != nil && !constant.Compare(val, token.EQL, v)) {
				good = false
				break
			}
			val = v
		}
		if !good {
			fmt.Fprintf(os.Stderr, "genconsts: C++ literal %s: matches of %q in %s of %s are not one integer literal: %v\n", fl.Name, fl.Regex, fl.Func, where, ms)
			ok = false
			continue
		}
		sb.WriteString(fmt.Sprintf("Definition %s : N := %s.\n", coqIdent(it.Prefix, fl.Name), val.ExactString()))
	}
	opCode := map[string]int{"<": 0, "<=": 1, ">": 2, ">=": 3, "==": 4, "!=": 5}
	for _, fo := range it.CppFuncOps {
		body, err := cppFuncBody(text, fo.Func)
		if err != nil {
			fmt.Fprintf(os.Stderr, "genconsts: C++ operator %s: %v in %s\n", fo.Name, err, where)
			ok = false
			continue
		}
		re, err := regexp.Compile(fo.Regex)
		if err != nil || re.NumSubexp() < 1 {
			fmt.Fprintf(os.Stderr, "genconsts: C++ operator %s: bad regex %q\n", fo.Name, fo.Regex)
			ok = false
			continue
		}
		ms := re.FindAllStringSubmatch(body, -1)
		if len(ms) != 1 {
			fmt.Fprintf(os.Stderr, "genconsts: C++ operator %s: %d matches of %q in %s of %s (want exactly 1)\n", fo.Name, len(ms), fo.Regex, fo.Func, where)
			ok = false
			continue
		}
		code, known := opCode[ms[0][1]]
		if !known {
			fmt.Fprintf(os.Stderr, "genconsts: C++ operator %s: %q is not a comparison operator (%s of %s)\n", fo.Name, ms[0][1], fo.Func, where)
			ok = false
			continue
		}
		sb.WriteString(fmt.Sprintf("Definition %s : N := %d. (* %s *)\n", coqIdent(it.Prefix, fo.Name), code, ms[0][1]))
	}
	sb.WriteString("\n")
	return ok
}
