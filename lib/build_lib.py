"""Family "build" (C14, C31): mutated schema generator, generator option sets, one generate+build
unit in a scratch module, classification of non-building output, outdir snapshots."""
import hashlib
import os
import re
import shutil
from pathlib import Path

import randschema
from schema_ir import GenPkg
from vlib import VERIF, REPO, sh, goenv, trunc

RPC_OPTS = ["--generateRPCCode", "--basicRPCPath=github.com/VKCOM/tl/pkg/rpc"]


def option_sets(prefix="rs."):
    """name -> tl2gen options (besides --language/--outdir/--pkgPath/--basicPkgPath)"""
    return {
        "plain": [],
        "tl2": ["--tl2WhiteList=*"],
        "split": ["--split-internal"],
        "bytes": [f"--generateByteVersions={prefix}"],
        "rpc": list(RPC_OPTS),
        "random": ["--generateRandomCode"],
    }


# --------------------------------------------------------------------------- known classes of non-building output (F11)

SIG_A = "C14:F11a:file-case-collision"
SIG_B = "C14:F11b:constant-redeclared"
SIG_C = "C14:F11c:field-vs-method"
SIG_D = "C14:F11d:internal-ident-redeclared"
SIG_E = "C14:F11e:method-redeclared"
SIG_F = "C14:F11f:typedef-of-bool-tl2"
SIG_G = "C14:F11g:empty-type-under-mask"

CLASS_PATTERNS = [
    ("a", SIG_A, re.compile(r"case-insensitive (file name|import) collision")),
    ("b", SIG_B, re.compile(r"constants/constants\.go:\d+:\d+: \w+ redeclared")),
    ("c", SIG_C, re.compile(r"field and method with the same name")),
    ("d", SIG_D, re.compile(r"gen/internal/[^\s:]+\.go:\d+:\d+: \w+ redeclared in this block")),
    ("e", SIG_E, re.compile(r"method \w+\.\w+ already declared")),
    ("f", SIG_F, re.compile(r"cannot use item\.ptr\(\) \(value of type \*bool\) as bool value in argument to basictl\.\w*TL2")),
    ("g", SIG_G, re.compile(r"cannot use v \(variable of type bool\) as \w+ value in assignment")),
]
MESSAGE_ONLY_CLASSES = {"f", "g"}     # not naming clashes: the model makes no prediction, the compiler message decides


def error_lines(log):
    return [l for l in log.splitlines() if re.search(r"\.go:\d+:\d+: ", l) and not l.startswith("\t")]


def classify_build_failure(log):
    """set of known class letters whose diagnostic occurs in a failed `go build` log"""
    return [(k, sig) for k, sig, pat in CLASS_PATTERNS if pat.search(log)]


def first_error_line(log):
    for l in log.splitlines():
        if re.search(r"\.go:\d+:\d+: ", l) or "collision" in l:
            return re.sub(r"/var/tmp/\S*?/gen/", "gen/", l.strip())
    return (log.strip().splitlines() or ["<empty>"])[0]


# --------------------------------------------------------------------------- outdir snapshots

def tree_hash(root):
    """(hash, number of files) of everything under root; (None, 0) when it does not exist"""
    root = Path(root)
    if not root.exists():
        return None, 0
    h = hashlib.sha256()
    n = 0
    for dp, dns, fns in sorted(os.walk(root)):
        dns.sort()
        rel = os.path.relpath(dp, root)
        h.update(b"D" + rel.encode())
        for fn in sorted(fns):
            p = Path(dp) / fn
            h.update(b"F" + fn.encode())
            try:
                h.update(p.read_bytes())
                h.update(str(p.stat().st_mtime_ns).encode())
            except OSError:
                h.update(b"<unreadable>")
            n += 1
    return h.hexdigest(), n


# --------------------------------------------------------------------------- scratch module

class BuildPkg(GenPkg):
    """GenPkg without the gendrv driver and with full control over the tl2gen options."""

    def prepare(self):
        if self.dir.exists():
            shutil.rmtree(self.dir)
        self.dir.mkdir(parents=True)
        src = VERIF / "harness" / "go" / "gendrv"
        (self.dir / "go.mod").write_text((src / "go.mod.tmpl").read_text().replace("@REPO@", str(REPO)))
        shutil.copy(REPO / "go.sum", self.dir / "go.sum")

    def tl2gen_cmd(self, files, options):
        return [str(self.tl2gen), "--language=go", f"--outdir={self.dir / 'gen'}", "--pkgPath=verifh/gen/tl",
                "--basicPkgPath=github.com/VKCOM/tl/pkg/basictl"] + list(options) + [str(f) for f in files]

    def run_tl2gen(self, files=None, options=None, timeout=300):
        cmd = self.tl2gen_cmd(files if files is not None else self.files, self.options if options is None else options)
        rc, so, se = sh(cmd, timeout=timeout, cwd=self.dir)
        self.gen_log = so + se
        return rc, so + se

    def go_build(self, timeout=1500):
        env = goenv()
        env["GOMAXPROCS"] = "4"    # many builds run side by side
        rc, so, se = sh(["go", "build", "-p", "4", "./gen/..."], cwd=self.dir, env=env, timeout=timeout)
        return rc, so + se


BASE_SCHEMA = """int#a8509bda ? = Int;
string#b5286e24 ? = String;
prev.item x:int y:string = prev.Item;
"""


class Result:
    def __init__(self, name, kind, optname, options, files):
        self.name, self.kind, self.optname, self.options, self.files = name, kind, optname, options, files
        self.rc = None
        self.gen_log = ""
        self.outcome = None        # built | nobuild | rejected | gen-timeout
        self.build_log = ""
        self.problems = []         # (sig, what)   violations of the property
        self.classes = []          # known classes of a failed build
        self.prev = False
        self.gen_dir = None
        self.pkg = None


def run_unit(scratch, tl2gen, name, kind, files, optname, options, prev=False, keep=False):
    """tl2gen into a scratch module, then either `go build ./gen/...` (exit 0) or the rejection
    checks (exit != 0).  prev=True first fills the outdir with a generation of another schema."""
    r = Result(name, kind, optname, options, files)
    pkg = BuildPkg(scratch, f"{name}_{optname}", tl2gen, files, options)
    pkg.prepare()
    r.pkg = pkg
    gen = pkg.dir / "gen"
    before = (None, 0)
    if prev:
        base = pkg.dir / "prev.tl"
        base.write_text(BASE_SCHEMA)
        rc0, log0 = pkg.run_tl2gen(files=[base], options=[])
        if rc0 == 0:
            r.prev = True
            before = tree_hash(gen)
    rc, log = pkg.run_tl2gen()
    r.rc, r.gen_log = rc, log
    r.gen_dir = gen
    if rc == 124:
        r.outcome = "gen-timeout"
        r.problems.append((f"C14:gen-timeout:{name}:{optname}", "tl2gen did not finish in 300 s"))
        return r
    if "panic:" in log or "goroutine " in log:
        r.problems.append((f"C14:panic:{name}:{optname}", "tl2gen panicked: " + trunc(_panic_line(log), 300)))
    if rc != 0:
        r.outcome = "rejected"
        msg = [l for l in _strip_ansi(log).splitlines() if l.strip() and not l.startswith("tl2gen version")
               and "TL Generation Failed" not in l and not l.startswith("tl2pure:")]
        if not msg:
            r.problems.append((f"C14:reject-without-message:{name}:{optname}", f"tl2gen exit {rc} without an error message: {trunc(log, 200)}"))
        after = tree_hash(gen)
        if r.prev:
            if after != before:
                r.problems.append((f"C14:partial-output:{name}:{optname}", f"rejected schema, but the previous content of the outdir changed ({before[1]} -> {after[1]} files)"))
        elif after[1] != 0:
            r.problems.append((f"C14:partial-output:{name}:{optname}", f"rejected schema, but {after[1]} files were written"))
        if not keep:
            shutil.rmtree(pkg.dir, ignore_errors=True)
        return r
    brc, blog = pkg.go_build()
    r.build_log = blog
    if brc == 0:
        r.outcome = "built"
    else:
        r.outcome = "nobuild"
        r.classes = classify_build_failure(blog)
    return r


def _strip_ansi(s):
    return re.sub(r"\x1b\[[0-9;]*m", "", s)


def _panic_line(log):
    for l in log.splitlines():
        if "panic:" in l:
            return l
    return log[:300]


# --------------------------------------------------------------------------- mutated schemas

GO_KEYWORDS = ["break", "case", "chan", "const", "continue", "default", "defer", "else", "fallthrough", "for", "func",
               "go", "goto", "if", "import", "interface", "map", "package", "range", "return", "select", "struct",
               "switch", "type", "var", "nil", "true0", "false0", "iota", "len", "error", "any", "item", "w", "r", "err"]
METHOD_FIELDS = ["string", "reset", "tLName", "tLTag", "tL_tag", "fillRandom", "readTL1", "writeTL1", "readTL2", "writeTL2",
                 "read", "write", "marshalJSON", "unmarshalJSON", "readJSON", "writeJSON", "writeJSONOpt", "calculateLayout",
                 "repairMasks", "asUnion", "readTL1Boxed", "writeTL1Boxed", "writeTL1General", "internalReadTL2"]
DERIVED_TYPES = ["unused", "errorInvalidEnumTag", "errorClientWrite", "unionElement", "json2ReadUnion", "tLItem", "object"]
WORDS = ["item", "node", "leaf", "pair0", "alpha", "beta", "gamma", "delta", "box", "cell"]
SIMPLE = ["int", "long", "string", "double", "float", "Bool", "#", "Int", "String"]


def _up(s):
    return s[:1].upper() + s[1:]


def _case_variants(r, w):
    """two spellings of w differing only in the case of letters after the first"""
    a = list(w)
    idx = [i for i in range(1, len(a)) if a[i].isalpha()]
    k = r.sample(idx, max(1, min(len(idx), r.choice([1, 1, 2, len(idx)]))))
    b = list(a)
    for i in k:
        b[i] = b[i].swapcase()
    return "".join(a), "".join(b)


class MutGen:
    """Mutation blocks appended to a small random schema.  Every block is a list of TL1 lines;
    `expect` collects the F11 classes the block is designed to hit (documentation only: the
    verdict always comes from tl2gen + go build)."""

    def __init__(self, rng, ns="rs"):
        self.r = rng
        self.ns = ns
        self.k = 0
        self.kinds = []

    def fresh(self, base=None):
        self.k += 1
        return f"{base or self.r.choice(WORDS)}M{self.k}"

    # -- names
    def case_only(self):
        w = self.fresh() + "ab"
        a, b = _case_variants(self.r, w)
        return [f"{self.ns}.{a} x:int = {self.ns}.{_up(a)};", f"{self.ns}.{b} y:int = {self.ns}.{_up(b)};"]

    def ns_vs_underscore(self):
        w = self.fresh()
        ns = self.r.choice([self.ns, "b", "ab"])
        forms = [f"{ns}.{w} x:int = {ns}.{_up(w)};", f"{ns}{_up(w)} y:int = {_up(ns)}{_up(w)};", f"{ns}_{w} z:int = {_up(ns)}_{w};"]
        self.r.shuffle(forms)
        return forms[:self.r.choice([2, 3])]

    def suffix_lookalikes(self):
        w = self.fresh()
        ns = self.ns
        cands = [f"{ns}.{w}", f"{ns}.{w}0", f"{ns}.{w}00", f"{ns}.{w}1", f"{ns}{_up(w)}", f"{ns}{_up(w)}0", f"{ns}_{w}0"]
        self.r.shuffle(cands)
        out = []
        for c in cands[:self.r.choice([2, 3, 4])]:
            nsp, _, nm = c.rpartition(".")
            t = (nsp + "." if nsp else "") + _up(nm)
            out.append(f"{c} x:int = {t};")
        return out

    def digits_underscores(self):
        w = self.fresh()
        return [f"{self.ns}.{w}_b_c x:int = {self.ns}.{_up(w)}_b_c;", f"{self.ns}.{w}BC1 a_b:int aB1:int = {self.ns}.{_up(w)}BC1;",
                f"a1.{w}2 x_1:int x2:int = a1.{_up(w)}2;"]

    def derived_type_names(self):
        k = self.r.random()
        if k < 0.4:
            w = self.r.choice(DERIVED_TYPES)
            return [f"{w} x:int = {_up(w)};"]
        if k < 0.7:
            w = self.fresh()
            return [f"{self.ns}.{w} x:string = {self.ns}.{_up(w)};", f"{self.ns}.{w}Bytes y:string = {self.ns}.{_up(w)}Bytes;"]
        w = self.fresh()
        suf = self.r.choice(["ReadTL1", "WriteTL1", "Maybe", "Boxed", "BoxedMaybe", "FillRandom", "Reset"])
        return [f"{w} x:int = {_up(w)};", f"{w}user v:(vector {w}) m:(Maybe {w}) = {_up(w)}user;",
                f"builtinVector{_up(w)}{suf} y:int = BuiltinVector{_up(w)}{suf};", f"{w}{suf} z:int = {_up(w)}{suf};"]

    # -- field names
    def keyword_fields(self):
        fs = self.r.sample(GO_KEYWORDS, self.r.choice([2, 3, 5]))
        return [self._struct(fs)]

    def _struct(self, fields, masked=False):
        w = self.fresh()
        body = []
        if masked:
            body.append("fm:#")
        for f in fields:
            t = self.r.choice(["int", "string", "(vector int)", "long"])
            if masked and self.r.random() < 0.6:
                body.append(f"{f}:fm.{self.r.randrange(8)}?{self.r.choice([t, 'true'])}")
            else:
                body.append(f"{f}:{t}")
        return f"{self.ns}.{w} {' '.join(body)} = {self.ns}.{_up(w)};"

    def method_fields(self):
        fs = self.r.sample(METHOD_FIELDS, self.r.choice([1, 1, 2]))
        return [self._struct(fs, masked=self.r.random() < 0.4)]

    def accessor_fields(self):
        w = self.fresh()
        return [f"{self.ns}.{w} fm:# x:fm.0?int setX:int clearX:fm.1?string isSetX:fm.2?true getX:int write:fm.3?int = {self.ns}.{_up(w)};"]

    # -- shapes
    def recursion(self):
        a, b = self.fresh(), self.fresh()
        ns = self.ns
        k = self.r.randrange(4)
        if k == 0:
            return [f"{ns}.{a} x:int next:(Maybe {ns}.{a}) = {ns}.{_up(a)};"]
        if k == 1:
            return [f"{ns}.{a} fm:# kids:fm.0?(vector {ns}.{b}) = {ns}.{_up(a)};", f"{ns}.{b} up:(vector {ns}.{a}) x:(Maybe {ns}.{b}) = {ns}.{_up(b)};"]
        if k == 2:
            return [f"{ns}.{a}Leaf x:int = {ns}.{_up(a)};", f"{ns}.{a}Node l:{ns}.{_up(a)} r:{ns}.{_up(a)} = {ns}.{_up(a)};",
                    f"{ns}.{b} t:{ns}.{_up(a)} d:(dictionary {ns}.{_up(a)}) = {ns}.{_up(b)};"]
        return [f"{ns}.{a} n:# self:n.0?{ns}.{a} arr:n.1?(tuple {ns}.{a} 2) = {ns}.{_up(a)};"]

    REC_KINDS = ["maybe", "vector", "mask-bare", "mask-boxed", "mask-vector", "dict"]

    def rec_ref(self, kind, t, T, mask):
        """a guarded reference to type t (boxed name T); mask = name of a # field declared earlier, or None"""
        if kind == "maybe" or (mask is None and kind.startswith("mask")):
            return f"(Maybe {t})"
        if kind == "vector":
            return f"(vector {t})"
        if kind == "dict":
            return f"(dictionary {T})"
        bit = self.r.choice([0, 1, 5, 31])
        return {"mask-bare": f"{mask}.{bit}?{t}", "mask-boxed": f"{mask}.{bit}?{T}", "mask-vector": f"{mask}.{bit}?(vector {T})"}[kind]

    def rec_struct(self, kind, pos, name=None, target=None):
        """one struct whose recursive field sits at position pos (0..4) among
             flags:#  val:flags.0?int  size:#  arr:size*[int]  tail:flags.1?string
        i.e. before / between / after the # fields that later fields use as a field mask and as a size"""
        ns = self.ns
        a = name or self.fresh("rec")
        t = target or f"{ns}.{a}"
        T = t.rpartition(".")[0] + "." + _up(t.rpartition(".")[2]) if "." in t else _up(t)
        base = ["flags:#", "val:flags.0?int", "size:#", f"arr:size*[int]", "tail:flags.1?string"]
        mask = "flags" if pos >= 1 else None
        fields = base[:pos] + [f"next:{self.rec_ref(kind, t, T, mask)}"] + base[pos:]
        if self.r.random() < 0.3:
            fields.append(f"more:{self.rec_ref(self.r.choice(self.REC_KINDS), t, T, 'flags')}")
        return f"{ns}.{a} {' '.join(fields)} = {ns}.{_up(a)};"

    def recursion_positions(self, full=False):
        """self-recursive structs: every kind of guarded reference x every position relative to the # fields
        (full=True: the whole grid; otherwise a random handful), a recursive union, mutual recursion over 2-3 types"""
        ns = self.ns
        lines = []
        grid = [(k, p) for k in self.REC_KINDS for p in range(6)]
        if not full:
            grid = self.r.sample(grid, 5)
        for k, p in grid:
            lines.append(self.rec_struct(k, min(p, 5)))
        # recursive union: the recursive variant has its reference before / after a mask field
        u = self.fresh("ru")
        lines += [f"{ns}.{u}Nil = {ns}.{_up(u)};",
                  f"{ns}.{u}Cons next:(Maybe {ns}.{_up(u)}) fm:# head:fm.0?int kids:fm.1?(vector {ns}.{_up(u)}) n:# arr:n*[int] = {ns}.{_up(u)};",
                  f"{ns}.{u}Snoc fm:# head:fm.0?int next:fm.2?{ns}.{_up(u)} n:# arr:n*[{ns}.{_up(u)}] = {ns}.{_up(u)};"]
        # mutual recursion across 2 and 3 types, the back reference at a random position
        for n in (2, 3):
            names = [self.fresh("mr") for _ in range(n)]
            for i, a in enumerate(names):
                nxt = names[(i + 1) % n]
                lines.append(self.rec_struct(self.r.choice(self.REC_KINDS), self.r.randrange(6), name=a, target=f"{ns}.{nxt}"))
        return lines

    def deep_templates(self):
        ns = self.ns
        a, b = self.fresh("box"), self.fresh()
        depth = self.r.choice([3, 4, 6])
        wraps = ["vector {}", "Maybe {}", "tuple {} 2", "dictionary {}", f"{ns}.{a} {{}}", "dictionaryAny int {}", f"{ns}.{_up(a)} {{}}"]
        t = self.r.choice(["int", "string", "long"])
        for _ in range(depth):
            t = "(" + self.r.choice(wraps).format(t) + ")"
        return [f"{ns}.{a} {{t:Type}} x:t y:(vector t) = {ns}.{_up(a)} t;", f"{ns}.{b} deep:{t} = {ns}.{_up(b)};"]

    def single_ctor_union(self):
        ns = self.ns
        a, b = self.fresh(), self.fresh()
        return [f"{ns}.{a}Only x:int s:string = {ns}.{_up(a)}Type;", f"{ns}.{b} u:{ns}.{_up(a)}Type v:(vector {ns}.{_up(a)}Type) m:(Maybe {ns}.{a}Only) = {ns}.{_up(b)};"]

    def masks_everywhere(self):
        ns = self.ns
        a, e, u = self.fresh(), self.fresh(), self.fresh()
        lines = [f"{ns}.{e} x:int = {ns}.{_up(e)};", f"{ns}.{u}A = {ns}.{_up(u)};", f"{ns}.{u}B y:int = {ns}.{_up(u)};"]
        kinds = ["int", "long", "string", "double", "Bool", "true", "#", "(vector int)", "(tuple string 3)", "(Maybe int)", "(dictionary int)",
                 f"{ns}.{e}", f"{ns}.{_up(e)}", f"{ns}.{_up(u)}", "(vector (Maybe string))", "(dictionaryAny long string)", "3*[int]"]
        self.r.shuffle(kinds)
        fs = ["m:#"]
        for i, k in enumerate(kinds[:self.r.choice([6, 10, len(kinds)])]):
            fs.append(f"f{i}:m.{i}?{k}")
        lines.append(f"{ns}.{a} {' '.join(fs)} = {ns}.{_up(a)};")
        b = self.fresh()
        lines.append(f"{ns}.{b} {{n:#}} g0:n.0?int g1:n.1?(vector string) g2:n.31?true = {ns}.{_up(b)} n;")
        lines.append(f"{ns}.{b}User k:# v:({ns}.{b} k) w:({ns}.{b} 3) = {ns}.{_up(b)}User;")
        return lines

    def function_names(self):
        ns = self.ns
        names = self.r.sample(["handle", "handler", "client", "write", "read", self.fresh("fn")], 3)
        return [f"@read {ns}.{n} x:int => {self.r.choice(['Int', 'String', 'Vector<int>', 'Maybe<string>'])};" for n in names]

    def enum_names(self):
        ns = self.ns
        a = self.fresh()
        extra = self.r.choice([[], [f"{ns}{_up(a)}Red z:int = {_up(ns)}{_up(a)}Red;"], [f"{ns}.{a}Color0 x:int = {ns}.{_up(a)}Color0;"]])
        return [f"{ns}.{a}Red = {ns}.{_up(a)}Color;", f"{ns}.{a}Blue = {ns}.{_up(a)}Color;",
                f"{ns}.{a}Use c:{ns}.{_up(a)}Color v:(vector {ns}.{_up(a)}Color) = {ns}.{_up(a)}Use;"] + extra

    BLOCKS = ["case_only", "ns_vs_underscore", "suffix_lookalikes", "digits_underscores", "derived_type_names", "keyword_fields",
              "method_fields", "accessor_fields", "recursion", "recursion_positions", "deep_templates", "single_ctor_union", "masks_everywhere",
              "function_names", "enum_names"]

    def text(self, blocks=None, base_types=3):
        g = randschema.Gen(self.r, ns=self.ns, ntypes=base_types)
        base = g.text() if base_types else randschema.HEADER
        chosen = blocks or self.r.sample(self.BLOCKS, self.r.choice([1, 1, 2, 3]))
        self.kinds = list(chosen)
        lines = []
        for b in chosen:
            lines += getattr(self, b)()
        return base + "\n".join(lines) + "\n"


CORRUPTIONS = ["missing-semicolon", "unknown-type", "duplicate-type", "duplicate-function", "token-garbage", "zero-tag", "stray-token",
               "lowercase-type", "duplicate-field", "unbalanced-paren"]


def corrupt(rng, text, how=None):
    """make a schema (very probably) invalid: the reject path of the generator.  Returns (text, kind)."""
    how = how or rng.choice(CORRUPTIONS)
    lines = text.split("\n")
    decl = [i for i, l in enumerate(lines) if l.strip().endswith(";") and re.match(r"^[a-z][\w.]* ", l) and "?" not in l.split(" ")[0] and "#" not in l.split(" ")[0]]
    funs = [i for i, l in enumerate(lines) if l.strip().endswith(";") and l.startswith("@")]
    if not decl:
        return text + "garbage here\n", "garbage"
    i = rng.choice(decl)
    l = lines[i]
    if how == "missing-semicolon":
        lines[i] = l.replace(";", "", 1)
    elif how == "unknown-type":
        lines[i] = l.replace(" = ", " = unknown.Type9 ", 1) if rng.random() < 0.5 else re.sub(r":(\w+)", ":noSuchType9", l, count=1)
    elif how == "duplicate-type":
        lines.insert(i, l)
    elif how == "duplicate-function":
        if funs:
            j = rng.choice(funs)
            lines.insert(j, lines[j])
        else:
            lines.append("@read rs.dupFn x:int => Int;")
            lines.append("@read rs.dupFn y:int => Int;")
    elif how == "token-garbage":
        toks = l.split(" ")
        j = rng.randrange(len(toks))
        toks[j] = rng.choice(["(", ")", "{", "%%", "=", "?", "[", "x:", "1:int"])
        lines[i] = " ".join(toks)
    elif how == "zero-tag":
        lines[i] = re.sub(r"^([\w.]+)", lambda m: m.group(1) + "#00000000", l, count=1)
    elif how == "stray-token":
        lines[i] = re.sub(r"(\w+):", r"\1 \1:", l, count=1) if ":" in l else l.replace(" = ", " stray = ", 1)
    elif how == "lowercase-type":
        lines[i] = re.sub(r" = ([\w.]+)", lambda m: " = " + m.group(1).lower(), l, count=1)
    elif how == "duplicate-field":
        m = re.search(r" (\w+):(\S+)", l)
        lines[i] = l.replace(" = ", f" {m.group(1)}:int = ", 1) if m else l.replace(" = ", " dupf:int dupf:int = ", 1)
    else:   # unbalanced-paren
        lines[i] = l.replace(" = ", " zz:(vector int = ", 1)
    return "\n".join(lines), how



# --------------------------------------------------------------------------- C++ (C31)

CPP_FLAGS = ["-std=c++20", "-O1", "-w"]
CPP_CACHE = VERIF / "build" / "cpp"
CPP_METHODS = {"read", "write", "read_boxed", "write_boxed", "write_json", "tl_tag", "tl_name", "read_result", "write_result",
               "read_write_result"}


def trim_for_cpp(text):
    """drop the combinators the C++ generator cannot express: a field named like a generated method.
    Returns (trimmed text, [dropped combinator names])."""
    out, dropped = [], []
    for stmt in re.split(r"(?<=;)", text):
        body = re.sub(r"//[^\n]*", "", stmt)
        m = re.match(r"\s*(?:@\w+\s+)*([a-z][\w.]*)", body)
        fields = set(re.findall(r"(?<![\w.{])([a-z_]\w*):", body))
        if m and fields & CPP_METHODS:
            dropped.append(m.group(1))
            continue
        out.append(stmt)
    return "".join(out), dropped


class CppPkg:
    """C++ code generated by the legacy generator (`tlgen --language=cpp`) for a set of schema files,
    compiled with harness/cpp/driver.cpp.  The linked driver is cached under
    /verif/build/cpp/<hash of generated sources + driver + flags>."""

    def __init__(self, scratch, name, tlgen, files):
        self.dir = Path(scratch) / f"cpp_{name}"
        self.name = name
        self.tlgen = tlgen
        self.files = [str(f) for f in files]
        self.log = ""
        self.exe = None
        self.cached = False
        self.hash = None
        self.build_s = 0.0
        self.failed_units = []

    def generate(self):
        if self.dir.exists():
            shutil.rmtree(self.dir)
        self.dir.mkdir(parents=True)
        cmd = [str(self.tlgen), "--language=cpp", "--cpp-generate-factory=true", "--cpp-generate-meta=true",
               f"--outdir={self.dir / 'gen'}"] + self.files
        rc, so, se = sh(cmd, timeout=600)
        self.log = so + se
        return rc == 0

    def sources(self):
        gen = self.dir / "gen"
        return sorted(p for p in gen.rglob("*.cpp") if p.name != "main.cpp")

    def build(self, jobs=8, timeout=3000):
        import time
        from concurrent.futures import ThreadPoolExecutor
        gen = self.dir / "gen"
        drv = VERIF / "harness" / "cpp" / "driver.cpp"
        h = hashlib.sha256()
        h.update(" ".join(CPP_FLAGS).encode())
        h.update(drv.read_bytes())
        for p in sorted(list(gen.rglob("*.cpp")) + list(gen.rglob("*.h"))):
            h.update(str(p.relative_to(gen)).encode())
            h.update(p.read_bytes())
        self.hash = h.hexdigest()[:24]
        cdir = CPP_CACHE / self.hash
        exe = cdir / "drv"
        if exe.exists():
            self.exe, self.cached = exe, True
            return True
        t0 = time.time()
        tmp = CPP_CACHE / f".tmp-{self.hash}-{os.getpid()}"
        if tmp.exists():
            shutil.rmtree(tmp)
        tmp.mkdir(parents=True)
        units = [(p, tmp / (str(p.relative_to(gen)).replace("/", "_") + ".o")) for p in self.sources()] + [(drv, tmp / "driver.o")]

        def cc(u):
            src, obj = u
            rc, so, se = sh(["g++"] + CPP_FLAGS + ["-I", str(gen), "-c", str(src), "-o", str(obj)], timeout=timeout)
            return src, rc, so + se

        ok = True
        with ThreadPoolExecutor(max_workers=jobs) as ex:
            for src, rc, out in ex.map(cc, units):
                if rc != 0:
                    ok = False
                    self.failed_units.append(str(src.relative_to(gen)) if src != drv else "driver.cpp")
                    self.log += f"\n--- {src}\n" + out[:3000]
        if ok:
            rc, so, se = sh(["g++", "-o", str(tmp / "drv")] + [str(o) for _, o in units], timeout=timeout)
            if rc != 0:
                ok = False
                self.log += "\n--- link\n" + (so + se)[:3000]
        self.build_s = round(time.time() - t0, 1)
        if not ok:
            shutil.rmtree(tmp, ignore_errors=True)
            return False
        for _, o in units:
            o.unlink()
        try:
            tmp.rename(cdir)
        except OSError:       # someone else finished the same build
            shutil.rmtree(tmp, ignore_errors=True)
        self.exe = exe
        return exe.exists()


def cpp_repo_units(scratch, quick=True):
    """the repository schemas C31 drives through C++ (trimmed by trim_for_cpp): [(name, files, full, dropped)]"""
    tls = REPO / "internal/tlcodegen/test/tls"
    d = Path(scratch) / "schemas"
    d.mkdir(parents=True, exist_ok=True)
    groups = [("cpp", [tls / "cpp.tl"]), ("cases", [tls / "cases.tl"]), ("cppx", [VERIF / "corpus/C31/cppx.tl"])]
    if not quick:
        groups += [("goldmaster", [tls / "goldmaster.tl", tls / "goldmaster2.tl", tls / "goldmaster3.tl"]), ("schema", [tls / "schema.tl"])]
    out = []
    for name, srcs in groups:
        files, dropped_all = [], []
        for s in srcs:
            txt, dropped = trim_for_cpp(s.read_text())
            dropped_all += dropped
            p = d / f"{name}_{s.name}"
            p.write_text(txt)
            files.append(p)
        out.append((name, files, srcs if dropped_all else None, dropped_all))
    return out


def warm_cpp_cache(quick=True):
    """setup hook: pre-build the C++ drivers C31 needs (minutes the first time, a no-op afterwards)"""
    import tempfile
    import schema_ir
    scratch = Path(tempfile.mkdtemp(prefix="verif-cppwarm-", dir="/var/tmp"))
    try:
        bins, err = schema_ir.build_tools(scratch, which=("tlgen",))
        if err:
            return {"error": err}
        res = {}
        for name, files, full, dropped in cpp_repo_units(scratch, quick):
            c = CppPkg(scratch, name, bins["tlgen"], files)
            ok = c.generate() and c.build()
            res[name] = {"ok": ok, "cached": c.cached, "seconds": c.build_s, "hash": c.hash}
        return res
    finally:
        shutil.rmtree(scratch, ignore_errors=True)
