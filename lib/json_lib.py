"""Family Json (C05, C06): annotated schema IR for the Coq model Json/JsonModel.v, value generation
extended for JSON (all-byte strings, dictionary keys, special floats), float-text oracle plumbing."""
import random
from pathlib import Path

from schema_ir import PRIM_MAP, prim_tokens, key_prim_of, _field_line, ValueGen, Budget, toplevel_objects

FAMILY = "json"


def hx(b):
    return b.hex() if b else "-"


def unmodelled_reason(ins, x):
    """why an instance is outside the JSON model (None = modelled)"""
    if x.get("originTL2"):
        return "originTL2"
    if x["kind"] == "prim" and PRIM_MAP.get(x["name"], "notl1") == "notl1":
        return "prim " + x["name"]
    if x["kind"] == "struct":
        for f in x["fields"]:
            if x.get("hasTL2") and f.get("mask") is not None and f.get("tl2bit") is None:
                return "masked field without tl2 bit in a TL2 struct"
    if x["kind"] == "dict" and key_prim_of(ins, x) is None:
        return "dict key not primitive"
    return None


def write_jir_file(ins, path):
    lines = []
    for x in ins:
        k = x["kind"]
        if k == "prim":
            lines.append(" ".join(["prim", str(x["id"])] + prim_tokens(x)))
        elif k == "struct":
            lines.append(f"struct {x['id']} {x['tag']} {len(x['fields'])} {int(bool(x.get('hasTL2')))} {int(bool(x.get('isTypedef')))}")
            for f in x["fields"]:
                lines.append(f"jfield {hx(f['name'].encode())} {int(bool(f.get('isBit')))} " + _field_line(f))
        elif k == "union":
            vs = x["variants"]
            lines.append(" ".join(["union", str(x["id"]), str(len(vs)), str(int(bool(x.get("hasTL2")))),
                                   str(int(bool(x.get("isEnum")))), str(int(bool(x.get("isMaybe"))))] + [str(v) for v in vs]))
            names = x.get("variantNames") or [""] * len(vs)
            for v, vn in zip(vs, names):
                lines.append(f"vname {hx(ins[v]['tlName'].encode())} {hx(vn.encode())}")
        elif k == "array":
            kind = "vector" if not x.get("isTuple") else ("dyn" if x.get("dynamicSize") else f"fixed:{x.get('count', 0)}")
            lines.append(f"array {x['id']} {kind}")
            lines.append(_field_line(x["elem"]))
        elif k == "dict":
            kp = key_prim_of(ins, x)
            lines.append(" ".join(["dict", str(x["id"])] + (prim_tokens(kp) if kp else ["notl1"])))
            lines.append(_field_line(x["elem"]))
        else:
            raise ValueError("unknown instance kind " + k)
    Path(path).write_text("\n".join(lines) + "\n")


def dump_jir(verifdump, files, whitelist, outdir):
    """kernel dump as the Go generator resolves instances (constants instantiated) + annotated IR file for the model.
    Returns (instances | None, jir path, error)"""
    import json as _json
    from vlib import sh
    outdir = Path(outdir)
    cmd = [str(verifdump), f"--dumpOut={outdir / 'jir.json'}", "--instantiateConstants"]
    if whitelist is not None:
        cmd.append(f"--tl2WhiteList={whitelist}")
    cmd += [str(f) for f in files]
    rc, so, se = sh(cmd, timeout=120)
    if rc != 0:
        return None, None, (so + se)[-800:]
    ins = _json.loads((outdir / "jir.json").read_text())
    for x in ins:
        x.setdefault("fields", [])
    try:
        write_jir_file(ins, outdir / "jir.txt")
    except Exception as e:  # noqa
        return None, None, f"jir: {e!r}"
    return ins, outdir / "jir.txt", ""


def reachable(ins, tid):
    seen, todo = set(), [tid]
    while todo:
        t = todo.pop()
        if t in seen or t < 0:
            continue
        seen.add(t)
        x = ins[t]
        for f in x.get("fields") or []:
            todo.append(f["type"])
        for v in x.get("variants") or []:
            todo.append(v)
        if x.get("elem"):
            todo.append(x["elem"]["type"])
    return seen


def modelled_tops(ins, have):
    """(tid, name, instance) of factory objects whose whole type graph is inside the model; plus skipped {name: reason}"""
    tops, skipped = [], {}
    for tid, name, x in toplevel_objects(ins):
        if name not in have or x.get("isFunction"):
            continue
        why = None
        for t in reachable(ins, tid):
            why = unmodelled_reason(ins, ins[t])
            if why:
                break
        if why:
            skipped[name] = why
        else:
            tops.append((tid, name, x))
    return tops, skipped


F32_SPECIAL = [0x00000000, 0x80000000, 0x00000001, 0x807fffff, 0x00800000, 0x7f7fffff, 0xff7fffff, 0x7f800000, 0xff800000,
               0x7fc00000, 0x3f800000, 0xbf800000, 0x3dcccccd, 0x4b800000, 0x5d5e0b6b, 0x33d6bf95, 0x501502f9, 0x38d1b717]
F64_SPECIAL = [0x0, 0x8000000000000000, 0x1, 0x800fffffffffffff, 0x0010000000000000, 0x7fefffffffffffff, 0xffefffffffffffff,
               0x7ff0000000000000, 0xfff0000000000000, 0x7ff8000000000001, 0x3ff0000000000000, 0x3fb999999999999a,
               0x4340000000000000, 0x444b1ae4d6e2ef50, 0x3eb0c6f7a0b5ed8d, 0x4202a05f20000000, 0x3f1a36e2eb1c432d]
# NaN payloads other than the canonical ones collapse to the canonical NaN by construction of the format ("NaN")
F32_NANS = [0x7fc00001, 0xffc00000, 0x7f800001, 0x7fffffff]
F64_NANS = [0x7ff8000000000000, 0xfff8000000000001, 0x7ff0000000000001, 0x7fffffffffffffff]


class JValueGen(ValueGen):
    """ValueGen with the strings / floats the JSON properties quantify over"""

    def __init__(self, ins, rng, nan_payloads=False, **kw):
        super().__init__(ins, rng, **kw)
        self.nan_payloads = nan_payloads

    def string(self):
        r = self.rng
        m = r.random()
        l = r.choice(self.STR_LENS)
        if m < 0.25:
            return bytes(r.choice(b"abcXYZ019 _") for _ in range(l))
        if m < 0.45:   # characters the escaper treats specially
            alpha = ['"', "\\", "\n", "\r", "\t", "\x00", "\x1f", "<", ">", "&", "\u2028", "\u2029", "\x7f", "/", "a", "\u00e9", "\u20ac", "\U0001f600", "\ufffd",
                     # neighbours of U+2028/9 and the U+206x format characters (boundaries of the \\u202X escape branch)
                     "\u2026", "\u2027", "\u202a", "\u202e", "\u202f", "\u2030", "\u205f", "\u2060", "\u2065", "\u2066", "\u2067", "\u2068", "\u2069", "\u206a", "\u206f", "\u2070", "\u2020", "\u2128", "\u2228"]
            return "".join(r.choice(alpha) for _ in range(l)).encode("utf-8")
        if m < 0.55:   # for each escape branch of JSONWriteString, every code point in a window around its boundaries
            windows = [range(0x2020, 0x2071),                      # U+2028/9 (the \\u202X branch) and the U+206x format characters
                       range(0x2020, 0x2071),
                       range(0x00, 0x31),                          # controls, space, ", &
                       range(0x3a, 0x41), range(0x5a, 0x5f),        # < > and the backslash
                       range(0x7d, 0x83),                          # DEL / RuneSelf
                       [0xd7fe, 0xd7ff, 0xe000, 0xe001, 0xfffb, 0xfffc, 0xfffd, 0xfffe, 0xffff, 0x10000, 0x10fffe, 0x10ffff]]
            pool = list(r.choice(windows))
            return "".join(chr(r.choice(pool)) for _ in range(max(1, l))).encode("utf-8")
        if m < 0.65:   # valid UTF-8 of all lengths
            cps = [r.choice([r.randrange(0x20, 0x7f), r.randrange(0x80, 0x800), r.randrange(0x800, 0xd800), r.randrange(0xe000, 0x10000), r.randrange(0x10000, 0x110000)]) for _ in range(l)]
            return "".join(chr(c) for c in cps).encode("utf-8")
        if m < 0.8:    # broken UTF-8: overlong, surrogates, truncated sequences, stray continuation bytes
            parts = [b"\xc0\x80", b"\xe0\x80\x80", b"\xed\xa0\x80", b"\xf4\x90\x80\x80", b"\xe2\x82", b"\x80", b"\xff", b"\xfe", b"\xf0\x9f\x98", b"a", b"\xc3\xa9"]
            return b"".join(r.choice(parts) for _ in range(max(1, l // 2)))
        return bytes(r.getrandbits(8) for _ in range(l))

    def prim(self, x, usage, depth):
        p = PRIM_MAP.get(x["name"], "notl1")
        r = self.rng
        if p == "float":
            if r.random() < 0.5:
                return ("n", r.choice(F32_SPECIAL + (F32_NANS if self.nan_payloads else [])))
            return ("n", r.getrandbits(32) if r.random() < 0.5 else (r.getrandbits(31) & ~0x7f800000) | (r.randrange(100, 160) << 23))
        if p == "double":
            if r.random() < 0.5:
                return ("n", r.choice(F64_SPECIAL + (F64_NANS if self.nan_payloads else [])))
            return ("n", r.getrandbits(64) if r.random() < 0.5 else (r.getrandbits(63) & ~(0x7ff << 52)) | (r.randrange(960, 1100) << 52))
        v = super().prim(x, usage, depth)
        if p in ("float", "double") and not self.nan_payloads:
            return v
        return v


def is_nan_bits(bits, is64):
    if is64:
        return (bits >> 52) & 0x7ff == 0x7ff and bits & ((1 << 52) - 1) != 0
    return (bits >> 23) & 0xff == 0xff and bits & ((1 << 23) - 1) != 0


def float_tables(ref, ir_path, go_exe, ops_tl1, run_lines):
    """ops_tl1: list of (tid, boxed, tl1hex).  Asks the model which finite floats it needs texts for, asks strconv
    (Go side, op ffmt) for them and returns the `ftab` lines to prepend to model batches."""
    lines = [f"floats {t} {b} {h}" for t, b, h in ops_tl1]
    rc, out, err = run_lines(ref, [str(ir_path)], lines)
    want = set()
    for o in out:
        if o.startswith("ok ") and len(o) > 3:
            want.update(o[3:].split(","))
    want = sorted(w for w in want if w)
    if not want:
        return []
    rc, go, err = run_lines(go_exe, [], [f"ffmt {w.split(':')[0]} {w.split(':')[1]}" for w in want])
    tab = []
    for w, g in zip(want, go):
        if g.startswith("ok "):
            tab.append(f"ftab {w.split(':')[0]} {w.split(':')[1]} {g[3:]}")
    return tab


# --------------------------------------------------------------------------- shared run shape of C05 / C06

DRIVER_FILES = ("main.go", "ops_tl1.go", "ops_json.go")
DIAG_NAMES = {"1": "negzero-float-omitted", "2": "nan-payload", "3": "F9:non-utf8-dict-key", "4": "dict-key-escape-not-unescaped"}


class JUnit:
    """everything one schema unit needs for the JSON ops: annotated IR, modelled top-level objects, TL1 inputs"""

    def __init__(self, u):
        self.u = u
        self.name = u.name
        self.jins = None
        self.jir = None
        self.tops = []
        self.skipped = {}
        self.inputs = []      # (tid, factory name, boxed TL1 hex, kind)
        self.ftab = []
        self.error = None
        self.stats = {}


def prepare_inputs(ctx, ju, bins, ref, rng, nvals, nrand, nan_stream=True):
    """dump the annotated IR, pick the modelled objects, produce TL1 inputs (model ValueGen -> enc1; Go FillRandom)"""
    import vlib
    from vlib import run_lines, run_lines_resilient
    from schema_ir import vtext
    u = ju.u
    d = ctx.scratch / f"unit_{u.name}"
    ju.jins, ju.jir, err = dump_jir(bins["verifdump"], u.files, u.whitelist, d)
    if ju.jins is None:
        ju.error = "kernel dump (instantiateConstants): " + err
        return
    rc, items, err = run_lines(u.gen.exe, [], ["items"])
    have = {x.split(",")[0] for x in items[0][3:].split(";")} if items and items[0].startswith("ok ") else set()
    ju.has_tl2 = {x.split(",")[0]: x.split(",")[4] == "true" for x in items[0][3:].split(";")} if have else {}
    ju.tops, ju.skipped = modelled_tops(ju.jins, have)
    st = {"types": len(ju.tops), "unmodelled_types": len(ju.skipped), "budget_skips": 0, "model_values": 0, "go_rand_values": 0,
          "nan_payload_values": 0, "model_enc_none": 0}
    enc, meta = [], []
    gens = [("model-value", JValueGen(ju.jins, rng), nvals)]
    if nan_stream:
        gens.append(("nan-payload-value", JValueGen(ju.jins, rng, nan_payloads=True), max(1, nvals // 4)))
    for kind, vg, n in gens:
        for tid, name, x in ju.tops:
            if kind == "nan-payload-value" and not has_float(ju.jins, tid):
                continue
            for _ in range(n):
                try:
                    v = vg.top(tid)
                except Budget:
                    st["budget_skips"] += 1
                    break
                enc.append(f"enc {tid} 1 | {vtext(v)}")
                meta.append((tid, name, kind))
    san = ["1"] if u.san else ["0"]
    rc, eo, err = run_lines(ref, [str(ju.jir)] + san, enc)
    if rc != 0 or len(eo) != len(enc):
        ju.error = f"model driver failed on enc: rc={rc} {err[-300:]}"
        return
    for (tid, name, kind), o in zip(meta, eo):
        if o.startswith("ok "):
            ju.inputs.append((tid, name, o[3:], kind))
            st["model_values" if kind == "model-value" else "nan_payload_values"] += 1
        else:
            st["model_enc_none"] += 1
    rl = [f"randj {name} {rng.getrandbits(48)}" for tid, name, x in ju.tops for _ in range(nrand)]
    rm = [(tid, name) for tid, name, x in ju.tops for _ in range(nrand)]
    rout = run_lines_resilient(u.gen.exe, [], rl, timeout=600)
    for (tid, name), o in zip(rm, rout):
        if o.startswith("ok "):
            ju.inputs.append((tid, name, o[3:], "go-random-value"))
            st["go_rand_values"] += 1
    ju.ftab = float_tables(ref, ju.jir, u.gen.exe, [(t, 1, h) for t, n, h, k in ju.inputs], lambda e, a, l: run_lines(e, a + (san if e == ref else []), l))
    ju.stats = st


def has_float(ins, tid):
    return any(ins[t]["kind"] == "prim" and PRIM_MAP.get(ins[t]["name"]) in ("float", "double") for t in reachable(ins, tid))


def model_run(ref, ju, lines, timeout=1800):
    """run model ops of one unit (float table first); returns outputs aligned with lines, or raises"""
    from vlib import run_lines
    rc, out, err = run_lines(ref, [str(ju.jir), "1" if ju.u.san else "0"], ju.ftab + lines, timeout=timeout)
    if rc != 0 or len(out) != len(ju.ftab) + len(lines):
        raise RuntimeError(f"model driver failed: rc={rc} lines={len(out)}/{len(ju.ftab) + len(lines)} {err[-400:]}")
    return out[len(ju.ftab):]


def json_units(ctx, quick, nrandom_schemas):
    """build tools, schema units (repository corpus under both TL2 settings + random schemas) with the JSON ops"""
    import randschema
    from gencommon import repo_corpus, prepare_units
    from schema_ir import build_tools
    bins, berr = build_tools(ctx.scratch)
    units = []
    if not berr:
        specs = repo_corpus(quick)
        half = nrandom_schemas // 2
        specs += randschema.make_specs(ctx, nrandom_schemas - half, prefix="rj")
        specs += randschema.make_specs(ctx, half, prefix="rk", tl2=True)
        units = prepare_units(ctx, specs, bins, driver_files=DRIVER_FILES)
    return bins, berr, units
