"""Shared pieces of the Frame family checks (C35 packet framing, C40 RPC headers)."""
from vlib import *

FAMILY = "frame"
OVERLAY = {"verif_frame_test.go": VERIF / "overlay" / "pkg" / "rpc" / "verif_frame_test.go"}

TAG_PING = 0x5730a2df
TAG_PONG = 0x8430eaa7
TYPE_NONCE = 0x7acb87aa
TYPE_HANDSHAKE = 0x7682eef5


def hx(b):
    return b.hex() if b else "-"


def unhx(s):
    return b"" if s in ("-", ".") else bytes.fromhex(s)


def sub(b):
    return b.hex() if b else "."


def heal_extract():
    """vlib.build_refmodel keeps its stamp when an extraction run fails after the old .ml files were removed
    (e.g. while /repo carried a constant that broke the model); drop the stamp so that it extracts again."""
    exdir = BUILD / "extract" / FAMILY
    if exdir.is_dir() and not list(exdir.glob("*.ml")):
        for st in (exdir / ".hash", BUILD / "ocaml" / FAMILY / ".hash"):
            if st.exists():
                st.unlink()


class GoSide:
    """Runs the overlay harness; splits every result line at ' | ' into the part that is compared with
    the model and the implementation-only part (kept in .side for the oracle and the second pass)."""

    def __init__(self):
        self.binary = None
        self.side = []

    def build(self, ctx):
        if self.binary is None:
            self.binary, err = build_overlay_test("pkg/rpc", OVERLAY, ctx.scratch, name="frame")
            if not self.binary:
                return err
        return ""

    def run(self, ctx, lines, name="TestVerifFrame"):
        err = self.build(ctx)
        if err:
            return None, None, err
        rc, out, log_ = run_overlay_test(self.binary, name, lines, ctx.scratch, timeout=1500)
        if rc != 0 or len(out) != len(lines):
            return None, None, f"harness exit {rc}, {len(out)} result lines for {len(lines)} ops: {log_[-1500:]}"
        left, side = [], []
        for o in out:
            a, _, b = o.partition(" | ")
            left.append(a)
            side.append(b)
        return left, side, ""

    def runner(self, ctx, lines):
        left, side, err = self.run(ctx, lines)
        if left is None:
            return None, err
        self.side = side
        return left, ""


def kv(s):
    """'a=1 b=2' -> dict"""
    d = {}
    for tok in s.split(" "):
        if "=" in tok:
            k, _, v = tok.partition("=")
            d[k] = v
    return d


def parse_recv(s):
    if s == "-":
        return []
    res = []
    try:
        for it in s.split(";"):
            t, _, b = it.partition(":")
            res.append((int(t), unhx(b)))
    except ValueError:
        return None
    return res
