"""C31, primitive-level leg: the extracted C++ runtime model (coq/theories/Cpp/CppModel.v, ocaml/drv_cpp.ml) against the
real C++ runtime that `tlgen --language=cpp` emits (harness/cpp/primdriver.cpp) and against pkg/basictl (Go,
harness/go/cppprimgo), on single-primitive operations with explicit connector buffer sizes.

Line protocol: see the header of harness/cpp/primdriver.cpp."""
import hashlib
import os
import shutil
import time
from pathlib import Path

from vlib import VERIF, BUILD, sh, build_go_harness
import build_lib as B

CPP_CACHE = BUILD / "cpp"
RUNTIME_SRCS = ["basictl/io_streams.cpp", "basictl/io_throwable_streams.cpp", "basictl/impl/string_io.cpp"]

SIG_F32 = "C31:cpp-accepts-noncanonical:str-medium"
SIG_HUGE_W = "C31:cpp-huge-string:write-refused"
SIG_HUGE_R = "C31:cpp-huge-string:read-rejected"

PRIMS = ["nat", "int", "float", "long", "double"]
SIZE = {"nat": 4, "int": 4, "float": 4, "long": 8, "double": 8}
BOOL_TAGS = (0xbc799737, 0x997275b5)


def build_primdrv(scratch, tlgen):
    """tlgen --language=cpp on a one-line schema (only gen/basictl is used), then g++ primdriver.cpp + the
    emitted runtime.  Cached under /verif/build/cpp/prim-<hash of emitted runtime + driver + flags>.
    Returns (exe or None, log, seconds, cached)."""
    d = Path(scratch) / "cpp_prim"
    if d.exists():
        shutil.rmtree(d)
    d.mkdir(parents=True)
    (d / "one.tl").write_text("int#a8509bda ? = Int;\nprim.one x:int = prim.One;\n")
    rc, so, se = sh([str(tlgen), "--language=cpp", f"--outdir={d / 'gen'}", str(d / "one.tl")], timeout=300)
    if rc != 0:
        return None, "tlgen --language=cpp failed: " + B._strip_ansi(so + se)[-600:], 0.0, False
    gen = d / "gen"
    drv = VERIF / "harness" / "cpp" / "primdriver.cpp"
    h = hashlib.sha256()
    h.update(" ".join(B.CPP_FLAGS).encode())
    h.update(drv.read_bytes())
    for p in sorted((gen / "basictl").rglob("*")):
        if p.is_file() and p.suffix in (".cpp", ".h"):
            h.update(str(p.relative_to(gen)).encode())
            h.update(p.read_bytes())
    cdir = CPP_CACHE / ("prim-" + h.hexdigest()[:24])
    exe = cdir / "primdrv"
    if exe.exists():
        return exe, "", 0.0, True
    t0 = time.time()
    tmp = CPP_CACHE / f".tmp-prim-{os.getpid()}"
    if tmp.exists():
        shutil.rmtree(tmp)
    tmp.mkdir(parents=True)
    cmd = ["g++"] + B.CPP_FLAGS + ["-I", str(gen), "-o", str(tmp / "primdrv"), str(drv)] + [str(gen / s) for s in RUNTIME_SRCS]
    rc, so, se = sh(cmd, timeout=1200)
    if rc != 0:
        shutil.rmtree(tmp, ignore_errors=True)
        return None, "g++ primdriver.cpp: " + (so + se)[-800:], round(time.time() - t0, 1), False
    try:
        tmp.rename(cdir)
    except OSError:
        shutil.rmtree(tmp, ignore_errors=True)
    return exe, "", round(time.time() - t0, 1), False


def build_go(scratch):
    r = build_go_harness("cppprimgo", scratch)
    if isinstance(r, tuple):
        return (r[0], r[1]) if r[0] else (None, r[1])
    return r, ""


# ---------------------------------------------------------------------------------------------- op generation

def tl_str(b):
    """canonical TL1 string encoding (what Go's StringWrite emits)"""
    n = len(b)
    if n <= 253:
        h = bytes([n])
    elif n <= 0xffffff:
        h = b"\xfe" + n.to_bytes(3, "little")
    else:
        h = b"\xff" + n.to_bytes(7, "little")
    return h + b + b"\x00" * (-(len(h) + n) % 4)


def hx(b):
    return b.hex() or "-"


def gen_ops(rng, quick):
    """-> list of (line, kind, run_model).  Kinds name the input class; huge (2^24) ops are run on the extracted
    model only in the thorough tier (a 16M-element Coq list costs minutes there)."""
    ops = []
    chunks = [0, 0, 1, 2, 3, 4, 5, 7, 8, 16, 255, 256, 257]
    rb = lambda n: bytes(rng.getrandbits(8) for _ in range(n))

    def spec(enc_len, exact=None, big=False):
        first = rng.choice([0, 0, 1, 2, 3, 4, 5, 7, 9])
        chunk = rng.choice([0, 4096, 65536] if big else [0, 0, 1, 2, 3, 4, 5, 8, 64])   # the model's loops are quadratic in the number of buffers
        cap = exact if exact is not None else enc_len + rng.choice([0, 1, 3, 4, 100])
        return f"{first}:{chunk}:{cap}"

    # scalars
    for p in PRIMS:
        sz = SIZE[p]
        for _ in range(4 if quick else 30):
            data = rb(rng.choice([0, 1, sz - 1, sz, sz, sz + 1, sz + 5]))
            ops.append((f"pr {p} {rng.choice(chunks)} {hx(data)}", "scalar-read", True))
        for v in [0, 1, (1 << (8 * sz)) - 1, 1 << (8 * sz - 1)] + [rng.getrandbits(8 * sz) for _ in range(2 if quick else 20)]:
            ops.append((f"pw {p} {spec(sz)} {v}", "scalar-write", True))
        ops.append((f"pw {p} {spec(sz, exact=sz - 1)} {rng.getrandbits(8 * sz)}", "scalar-write:no-room", True))
        ops.append((f"pw {p} {spec(sz, exact=sz)} {rng.getrandbits(8 * sz)}", "scalar-write:exact-room", True))
    # Bool
    f, t = BOOL_TAGS
    bp = f"bool:{f}:{t}"
    for tag in (f, t, f ^ 1, 0, rng.getrandbits(32)):
        for _ in range(1 if quick else 4):
            ops.append((f"pr {bp} {rng.choice(chunks)} {hx(tag.to_bytes(4, 'little') + rb(rng.choice([0, 3])))}", "bool-read", True))
    ops.append((f"pr {bp} {rng.choice(chunks)} {hx(t.to_bytes(4, 'little')[:3])}", "bool-read:truncated", True))
    for v in (0, 1):
        ops.append((f"pw {bp} {spec(4)} {v}", "bool-write", True))
    # strings
    lens = list(range(0, 9)) + list(range(249, 260)) + [1000]
    lens += [rng.randrange(0, 300) for _ in range(4 if quick else 40)]
    lens += [65535, 65536, 65537] if not quick else [rng.choice([65535, 65536, 65537])]
    for n in lens:
        s = rb(n) if n < 2000 else bytes([rng.getrandbits(8)]) * n
        enc = tl_str(s)
        ops.append((f"pr string {rng.choice(chunks if n < 2000 else [0, 4096, 65535, 65536])} {hx(enc + rb(rng.choice([0, 0, 1, 4])))}", "string-read:valid", True))
        ops.append((f"pr string 0 {hx(enc)}", "string-read:valid", True))
        if n < 2000:
            cut = rng.randrange(len(enc))
            ops.append((f"pr string {rng.choice(chunks)} {hx(enc[:cut])}", "string-read:truncated", True))
            npad = len(enc) - (1 if n <= 253 else 4) - n
            if npad:
                bad = bytearray(enc)
                bad[len(enc) - 1 - rng.randrange(npad)] = rng.randrange(1, 256)
                ops.append((f"pr string 0 {hx(bytes(bad) + rb(rng.choice([0, 4])))}", "string-read:bad-padding", True))
                ops.append((f"pr string {rng.choice(chunks[2:])} {hx(bytes(bad))}", "string-read:bad-padding", True))
            ops.append((f"pw string {spec(len(enc))} {hx(s)}", "string-write", True))
            ops.append((f"pw string {spec(len(enc), exact=len(enc))} {hx(s)}", "string-write:exact-room", True))
            ops.append((f"pw string {spec(len(enc), exact=len(enc) - 1)} {hx(s)}", "string-write:no-room", True))
        else:
            ops.append((f"pwn string {spec(len(enc), big=True)} {n} {hx(s[:1])}", "string-write", True))
    # non-minimal forms
    for n in [0, 1, 3, 4, 100, 252, 253] + [rng.randrange(0, 254) for _ in range(2 if quick else 10)]:
        s = rb(n)
        med = b"\xfe" + n.to_bytes(3, "little") + s + b"\x00" * (-n % 4)
        ops.append((f"pr string {rng.choice(chunks)} {hx(med + rb(rng.choice([0, 4])))}", "string-read:noncanonical:str-medium", True))
    for n in [0, 5, 253, 254, 1000]:
        s = rb(n)
        huge = b"\xff" + n.to_bytes(7, "little") + s + b"\x00" * (-n % 4)
        ops.append((f"pr string {rng.choice(chunks)} {hx(huge)}", "string-read:noncanonical:str-huge", True))
    for k in range(0, 8):
        ops.append((f"pr string {rng.choice(chunks)} ff{rb(k).hex()}", "string-read:huge-header-truncated", True))
    for k in range(0, 3):
        ops.append((f"pr string {rng.choice(chunks)} fe{rb(k).hex()}", "string-read:medium-header-truncated", True))
    # the 2^24 boundary: the largest medium string, the smallest huge string
    big = 20000000
    model = not quick
    ops.append((f"pwn string 0:0:{big} 16777215 41", "string-huge:write-max-medium", model))
    ops.append((f"pwn string 0:0:{big} 16777216 41", "string-huge:write-min-huge", model))
    ops.append((f"prn string 0 feffffff 16777215 42 00", "string-huge:read-max-medium", model))
    ops.append((f"prn string 65536 ff00000001000000 16777216 42 -", "string-huge:read-min-huge", model))
    return ops


def judge(ops, mo, co, go):
    """-> (correspondence mismatches, oracle failures [(line, kind, go, cpp, sig)], stats)"""
    mism, bad = [], []
    st = {"ops": len(ops), "model_ops": 0, "go_accept": 0, "go_reject": 0, "error_class_differs": 0, "by_kind": {}}
    for (line, kind, run_model), m, c, g in zip(ops, mo, co, go):
        st["by_kind"][kind] = st["by_kind"].get(kind, 0) + 1
        if run_model:
            st["model_ops"] += 1
            if m != c:
                mism.append((line, kind, m, c))
        prim = line.split(" ")[1].split(":")[0]
        gok, cok = g.startswith("ok "), c.startswith("ok ")
        st["go_accept" if gok else "go_reject"] += 1
        is_write = line.startswith("pw")
        if c.startswith(("driver-error", "exception")) or g.startswith(("driver-error", "panic")):
            bad.append((line, kind, g, c, f"C31:cpp-prim:driver:{prim}"))
        elif gok and cok:
            if g != c:
                bad.append((line, kind, g, c, f"C31:cpp-prim:{'writes-differently' if is_write else 'read-differs'}:{prim}"))
        elif gok and not cok:
            if kind.startswith("string-huge:"):
                bad.append((line, kind, g, c, SIG_HUGE_W if is_write else SIG_HUGE_R))
            else:
                bad.append((line, kind, g, c, f"C31:cpp-prim:{'write-refused' if is_write else 'rejects-what-go-reads'}:{prim}"))
        elif cok and not gok:
            if kind == "string-read:noncanonical:str-medium":
                bad.append((line, kind, g, c, SIG_F32))
            else:
                bad.append((line, kind, g, c, f"C31:cpp-prim:{'writes-what-go-refuses' if is_write else 'accepts-what-go-rejects'}:{prim}:{kind}"))
        elif g != c:
            st["error_class_differs"] += 1
    return mism, bad, st
