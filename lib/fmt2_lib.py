"""Shared machinery of the Fmt2 family (C22): overlay harness runner, corpus of repository .tl2 files, random TL2
declaration generator (token lists rendered with random layout, comments and equivalent syntax variants),
S-expression reader for the AST dumps of overlay/internal/tlast/verif_fmt2_test.go."""
import re

import vlib

OVERLAY = {"verif_fmt2_test.go": vlib.VERIF / "overlay" / "internal" / "tlast" / "verif_fmt2_test.go"}


def hx(s):
    if isinstance(s, str):
        s = s.encode("utf-8", "surrogateescape")
    return s.hex() if s else "-"


def unhx(h):
    return b"" if h == "-" else bytes.fromhex(h)


# --------------------------------------------------------------------------- harness

class Harness:
    def __init__(self, ctx):
        self.ctx = ctx
        self.bin, self.err = vlib.build_overlay_test("internal/tlast", OVERLAY, ctx.scratch, name="fmt2")

    def ok(self):
        return self.bin is not None

    def raw(self, lines):
        if not lines:
            return []
        rc, res, log = vlib.run_overlay_test(self.bin, "TestVerifFmt2", lines, self.ctx.scratch, timeout=900)
        if rc != 0 or len(res) != len(lines):
            raise RuntimeError(f"overlay harness failed rc={rc} lines={len(res)}/{len(lines)}: {log[-400:]}")
        return res

    def parse(self, texts):
        """texts: list of bytes/str. Returns list of Parsed."""
        return [Parsed(r) for r in self.raw(["p " + hx(t) for t in texts])]


class Parsed:
    def __init__(self, line):
        f = line.split("\t")
        self.ok = f[0] == "ok"
        self.err = None
        self.combs = []
        if not self.ok:
            self.err = unhx(line[4:]).decode("utf-8", "replace") if line.startswith("err ") else line
            return
        self.default = unhx(f[1])
        self.canon = unhx(f[2])
        for i in range(3, len(f), 3):
            self.combs.append({"dump": f[i], "default": unhx(f[i + 1]), "canon": unhx(f[i + 2])})


def corpus():
    res = []
    for p in sorted(vlib.REPO.rglob("*.tl2")):
        try:
            res.append((str(p), p.read_bytes()))
        except OSError:
            pass
    return res


# --------------------------------------------------------------------------- dumps

def sexp(s):
    toks = re.findall(r"[()]|[^\s()]+", s)
    pos = 0

    def rd():
        nonlocal pos
        t = toks[pos]
        pos += 1
        if t == "(":
            l = []
            while toks[pos] != ")":
                l.append(rd())
            pos += 1
            return l
        return t
    v = rd()
    if pos != len(toks):
        raise ValueError("trailing tokens in dump")
    return v


_CMT = re.compile(r"\(c [0-9a-f-]+\)")


def erase(dump):
    """the `erase` of the property: comments dropped (positions never were in the dump)"""
    return _CMT.sub("(c -)", dump)


def comb_name(d):
    """d: parsed dump ['C', ['c', x], ['A', ...], decl]"""
    n = d[3][1]
    ns, nm = unhx(n[1]).decode("latin1"), unhx(n[2]).decode("latin1")
    return (ns + "." if ns else "") + nm


def comb_def(d):
    return d[3][4]


def single_variant_union(d):
    df = comb_def(d)
    return df[0] == "u" and len(df) == 2


def all_fields(d):
    decl = d[3]
    out = []
    if decl[0] == "F":
        out += decl[3][1:]
    df = decl[4]
    if df[0] == "s":
        out += df[1:]
    elif df[0] == "u":
        for v in df[1:]:
            if v[3][0] == "f":
                out += v[3][1:]
    return out


def dep_named_fields(d):
    """ignored fields written `_name` (lexer token tl2depName)"""
    return [f for f in all_fields(d) if f[3] == "1" and f[1] != "5f"]


def empty_alias(dump):
    """`f#00000001 => <=> ;` is accepted with an empty alias type (Name "", no arguments)"""
    return "(a (n (N - -) 0))" in dump


_DEP = re.compile(r"\(f 5f[0-9a-f]+ 0 1 ")


def erase_dep_names(dump):
    return _DEP.sub("(f 5f 0 1 ", dump)


# --------------------------------------------------------------------------- random TL2 text

LC = "abcdefghijklmnopqrstuvwxyz"
UCS = "ABCDEFGHIJKLMNOPQRSTUVWXYZ"
IDC = LC + UCS + "0123456789_"
COMMON_T = ["int32", "uint32", "int64", "string", "bool", "bit", "byte", "float64", "vector", "dictionary", "pair", "Maybe",
            "true", "t", "X", "n"]
UNI_WS = ["\u0085", "\u00a0", "\u1680", "\u2000", "\u2001", "\u2005", "\u200a", "\u2028", "\u2029", "\u202f", "\u205f",
          "\u3000", "\x0b", "\x0c"]
WORDS = ["tlgen:tl1name:\"x\"", "will be map", "BLOCK", "a", "TODO", "x:int // nested", "| bar", "= ;", "\u043f\u0440\u0438\u0432\u0435\u0442", "\u65e5\u672c", "@read", "#"]


def identlike(c):
    return c in IDC


class Gen:
    def __init__(self, rng):
        self.rng = rng
        self.wide = False

    # ---- names
    def ident(self, first, lo=0, hi=7):
        r = self.rng
        n = r.randrange(lo, hi + 1)
        if self.wide and r.random() < 0.5:
            n += r.randrange(4, 14)
        s = r.choice(first) + "".join(r.choice(IDC) for _ in range(n))
        if s == "Type":
            s = "Typ"
        return s

    def lc(self):
        return self.ident(LC)

    def anycase(self):
        return self.ident(LC + UCS) if self.rng.random() < 0.3 else self.lc()

    def tname(self):
        r = self.rng
        x = r.random()
        if x < 0.35:
            return r.choice(COMMON_T)
        if x < 0.45:
            return r.choice(["Typeof", "TypeX", "Typ", "Types", "type", "Type_"])
        nm = self.anycase()
        if r.random() < 0.3:
            nm = self.lc() + "." + nm
        return nm

    def number(self):
        r = self.rng
        x = r.random()
        if x < 0.5:
            v = str(r.randrange(0, 20))
        elif x < 0.8:
            v = str(r.randrange(0, 1 << 32))
        elif x < 0.9:
            v = str(r.choice([0, 1, 4294967295, 4294967294, 2147483648, 1000000000]))
        else:
            v = "0" * r.randrange(1, 4) + str(r.randrange(0, 1000))
        return v

    # ---- type references: token lists
    def targ(self, depth):
        if self.rng.random() < 0.3:
            return [self.number()]
        return self.tref(depth + 1)

    def tref(self, depth=0):
        r = self.rng
        x = r.random()
        if depth < 4 and x < 0.25:
            y = r.random()
            inner = [] if y < 0.45 else self.targ(depth)
            return ["["] + inner + ["]"] + self.tref(depth + 1)
        toks = [self.tname()]
        if depth < 4 and r.random() < 0.3:
            toks.append("<")
            for i in range(r.randrange(1, 4)):
                if i:
                    toks.append(",")
                toks += self.targ(depth)
            toks.append(">")
        return toks

    def magic(self):
        r = self.rng
        if r.random() < 0.2:
            return "#" + r.choice(["00000001", "ffffffff", "0000000a", "80000000", "deadbeef", "12345678", "0abcdef0"])
        return "#%08x" % r.randrange(1, 1 << 32)

    def field(self, allow_anon=False):
        r = self.rng
        x = r.random()
        if x < 0.08:
            head = ["_", ":"]
        elif x < 0.16:
            head = ["_" + self.anycase(), ":"]
        elif x < 0.40:
            head = [self.anycase(), "?", ":"]
        else:
            head = [self.anycase(), ":"]
        return [("FIELD",)] + head + self.tref()

    def fields(self, lo, hi):
        out = []
        n = self.rng.randrange(lo, hi + 1)
        if self.wide:
            n += self.rng.randrange(2, 9)
        for _ in range(n):
            out += self.field()
        return out

    def variant(self):
        r = self.rng
        nm = "Type" if r.random() < 0.05 else self.ident(LC + UCS)
        x = r.random()
        if x < 0.3:
            return [nm]
        if x < 0.55:
            return [nm] + self.tref()
        return [nm] + self.fields(1, 4)

    def union(self):
        """returns (tokens, single)"""
        r = self.rng
        x = r.random()
        n = 1 if x < 0.12 else r.randrange(2, 6)
        if self.wide:
            n += r.randrange(0, 4)
        toks = []
        if n == 1 or r.random() < 0.4:
            toks += [("VARIANT",), "|"]
        else:
            toks += [("VARIANT",)]
        for i in range(n):
            if i:
                toks += [("VARIANT",), "|"]
            toks += self.variant()
        return toks

    def comb(self):
        """one declaration as a token list; markers ("COMB",), ("FIELD",), ("VARIANT",) are places where comments
        attach to the AST"""
        r = self.rng
        self.wide = r.random() < 0.25
        toks = [("COMB",)]
        for _ in range(r.choice([0, 0, 0, 1, 1, 2, 3])):
            toks.append("@" + self.lc())
        nm = self.anycase()
        if r.random() < 0.4:
            nm = self.lc() + "." + nm
        toks.append(nm)
        if r.random() < 0.3:
            # function
            toks.append(self.magic())
            toks += self.fields(0, 4)
            toks.append("=>")
            x = r.random()
            if x < 0.3:
                toks += self.tref()
            elif x < 0.45:
                toks += ["<=>"] + self.tref()
            elif x < 0.75:
                toks += self.fields(0, 4)
            else:
                toks += self.union()
        else:
            if r.random() < 0.3:
                toks.append(self.magic())
            if r.random() < 0.3:
                toks.append("<")
                for i in range(r.randrange(1, 4)):
                    if i:
                        toks.append(",")
                    # the parser reads the category with front(), without skipWS: no layout between ':' and it
                    toks += [self.anycase(), ":", ("TIGHT",), r.choice(["Type", "#"])]
                toks.append(">")
            x = r.random()
            if x < 0.2:
                toks += ["<=>"] + self.tref()
            elif x < 0.6:
                toks += ["="] + self.fields(0, 6)
            else:
                toks += ["="] + self.union()
        toks.append(";")
        return toks

    # ---- layout
    def comment(self):
        r = self.rng
        body = " ".join(r.choice(WORDS) for _ in range(r.randrange(0, 4)))
        lead = r.choice(["", " ", "  ", "\t"])
        if r.random() < 0.15:
            lead = r.choice(UNI_WS) + lead
        tail = r.choice(["", "", " ", "  ", "\t"])
        if r.random() < 0.15:
            tail += r.choice(UNI_WS)
        return "//" + lead + body + tail

    def nl(self):
        return "\r\n" if self.rng.random() < 0.05 else "\n"

    def gap(self, style, must):
        """whitespace/comments between two tokens"""
        r = self.rng
        if style == "tight":
            return " " if must else ""
        x = r.random()
        if x < 0.55:
            return " " if must else r.choice(["", "", " "])
        if x < 0.70:
            return r.choice(["  ", "\t", " \t "])
        if x < 0.85 or style == "nocomment":
            return self.nl() + r.choice(["", "  ", "\t", "    "])
        if x < 0.93:
            return r.choice(["", " "]) + self.comment() + self.nl() + r.choice(["", "\t"])
        return self.nl() + self.nl() + r.choice(["", "  "])

    def attach(self, style):
        """a comment block in a place where the parser attaches it (before a combinator, field or variant)"""
        r = self.rng
        out = self.nl()
        if r.random() < 0.3:
            out += self.nl()
        for _ in range(r.randrange(1, 4)):
            out += r.choice(["", "  ", "\t"]) + self.comment() + self.nl()
            if r.random() < 0.1:
                out += r.choice(["", " "]) + self.nl()
        return out + r.choice(["", "\t", "    "])

    def render(self, toks, style=None):
        r = self.rng
        if style is None:
            style = r.choice(["tight", "nocomment", "free", "free", "free"])
        out = []
        prev = None
        pending = False
        tight = False
        for t in toks:
            if isinstance(t, tuple):
                if t[0] == "TIGHT":
                    tight = True
                elif style == "free" and r.random() < 0.2:
                    pending = True
                continue
            must = prev is not None and identlike(prev[-1]) and identlike(t[0])
            if prev is not None and prev[0] == "#" and len(prev) == 1 and identlike(t[0]):
                must = True
            if tight:
                tight = pending = False
            elif pending:
                out.append(self.attach(style))
                pending = False
            elif prev is not None:
                out.append(self.gap(style, must))
            out.append(t)
            prev = t
        text = "".join(out)
        if style == "free" and r.random() < 0.3:
            return text + r.choice([" ", ""]) + self.comment() + self.nl()
        return text + r.choice(["", "\n", " \n"])

    def text(self, ncombs=1, style=None):
        parts = []
        for _ in range(ncombs):
            parts.append(self.render(self.comb(), style))
        sep = self.rng.choice(["\n", "\n\n", " "])
        return sep.join(parts)

    def malformed(self):
        """a token-level mutation of a valid declaration"""
        r = self.rng
        toks = [t for t in self.comb() if not isinstance(t, tuple)]
        for _ in range(r.randrange(1, 3)):
            i = r.randrange(len(toks))
            x = r.random()
            if x < 0.3:
                del toks[i]
            elif x < 0.55:
                toks.insert(i, r.choice(["|", "=", "<", ">", "[", "]", ":", "?", "_", ",", ";", "=>", "<=>", "#", "Type", "@x", "7", "a.b", "."]))
            elif x < 0.75:
                toks[i] = r.choice(["|", "=", "(", ")", "%", "+", "!", "{", "x", "X", "#0000000", "#00000000", "09x", "-", "---types---", "/", "\"", "\r"])
            else:
                j = r.randrange(len(toks))
                toks[i], toks[j] = toks[j], toks[i]
            if not toks:
                toks = [";"]
        return self.render(toks, r.choice(["tight", "nocomment", "free"]))

    def type_text(self):
        """a type expression followed by what may follow it in a declaration (for the parse_ty correspondence)"""
        r = self.rng
        toks = self.tref()
        x = r.random()
        if x < 0.25:
            i = r.randrange(len(toks))
            y = r.random()
            if y < 0.4:
                del toks[i]
            elif y < 0.8:
                toks.insert(i, r.choice(["<", ">", "[", "]", ",", "x", "7", "99999999999", "4294967296", "4294967295", "Type", "_", "#"]))
            else:
                toks[i] = r.choice(["<", ">", "[", "]", ",", "x", "7", ":", "?"])
        tail = r.choice([[], [";"], ["x", ":", "int"], ["|", "B"], [">"], [","], ["<", "a", ">"], ["=>", "int"], ["]"]])
        return self.render(toks + tail, r.choice(["tight", "nocomment", "free"]))

    def trim_text(self):
        r = self.rng
        ws = [w.encode("utf-8") for w in UNI_WS] + [b" ", b"\t", b"\n", b"\r", b" ", b"\t"]
        odd = [b"\xc2", b"\xe2\x80", b"\x85", b"\xa0", "\u200b".encode(), "\u180e".encode(), "\ufeff".encode(), "\u2060".encode(),
               b"x", b"//", "\u00e9".encode(), b"\xe2\x80\x8b", b"\xe2\x80\xa7", b"\xe2\x80\xaa", b"\xe2\x80\xae", b"\xe2\x81\x9e",
               b"\xe3\x80\x81", b"\xe1\x9a\x81", b"\xc2\x84", b"\xc2\x86", b"\xc2\xa1", b"\xe2\x80\x7f", b"abc", b"// c"]
        parts = []
        for _ in range(r.randrange(0, 4)):
            parts.append(r.choice(ws))
        for _ in range(r.randrange(0, 4)):
            parts.append(r.choice(odd + ws))
        for _ in range(r.randrange(0, 4)):
            parts.append(r.choice(ws))
        b = b"".join(parts)
        if r.random() < 0.2:
            b = bytes(r.choice([0xc2, 0xe2, 0x80, 0xa0, 0x85, 0xe1, 0x9a, 0xe3, 0x20, 0x09]) for _ in range(r.randrange(1, 6)))
        return b
