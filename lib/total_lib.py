"""Helpers of C08 (readers are total and bounded): the ranking search whose result the extracted
Coq checker `ranked` verifies, the byte emitter that builds diverging / deeply nested inputs from
the schema IR, and hostile byte / JSON streams."""
import sys

from schema_ir import PRIM_MAP

# ----------------------------------------------------------------------------- ranking (mirrors Tl1TotalModel.v)


def nc(ins, t, bare):
    """non-consuming reader call: may make a nested call at its own input position"""
    if t is None or t < 0 or t >= len(ins):
        return False
    x = ins[t]
    if x["kind"] == "struct":
        return bool(bare)
    if x["kind"] == "array" and x.get("isTuple"):
        return bool(bare)
    return False


def compute_dc(ins):
    """greatest fixpoint: bare structs that definitely consume because an unmasked field does (dc_ok)"""
    dc = [x["kind"] == "struct" for x in ins]

    def dcall(t, bare):
        return (not nc(ins, t, bare)) or (0 <= t < len(dc) and dc[t])
    changed = True
    while changed:
        changed = False
        for x in ins:
            if dc[x["id"]] and not any(f.get("mask") is None and dcall(f["type"], f["bare"]) for f in x["fields"]):
                dc[x["id"]] = False
                changed = True
    return dc


def zero_edges(ins, dc=None):
    """t -> [(child, field index | -1, masked)]: nested non-consuming calls reachable with zero bytes
    consumed since t's entry (same traversal as fields_ranked / tydef_ranked)"""
    if dc is None:
        dc = compute_dc(ins)
    edges = {}
    for x in ins:
        out = []
        if x["kind"] == "struct":
            for i, f in enumerate(x["fields"]):
                c = nc(ins, f["type"], f["bare"])
                if c:
                    out.append((f["type"], i, f.get("mask") is not None))
                if f.get("mask") is None and (not c or dc[f["type"]]):
                    break          # this field definitely consumes
        elif x["kind"] == "array" and x.get("isTuple"):
            f = x["elem"]
            if nc(ins, f["type"], f["bare"]):
                out.append((f["type"], -1, False))
        edges[x["id"]] = out
    return edges


def find_rank(ins):
    """(rank list | None, cycles).  rank = longest zero-consumption path; None when there is a cycle."""
    edges = zero_edges(ins, compute_dc(ins))
    rank, state, cycles = {}, {}, []
    sys.setrecursionlimit(max(sys.getrecursionlimit(), 20000))

    def dfs(t, path):
        if state.get(t) == 2:
            return rank[t]
        if state.get(t) == 1:
            cycles.append(path[path.index(t):] + [t])
            return 0
        state[t] = 1
        r = 0
        for c, _i, _m in edges[t]:
            r = max(r, 1 + dfs(c, path + [t]))
        state[t] = 2
        rank[t] = r
        return r

    for x in ins:
        dfs(x["id"], [])
    if cycles:
        return None, cycles
    return [rank[x["id"]] for x in ins], []


def cycle_masked(ins, cyc):
    """does the zero-consumption cycle pass through at least one masked field"""
    edges = zero_edges(ins)
    for a, b in zip(cyc, cyc[1:]):
        if any(c == b and m for c, _i, m in edges[a]):
            return True
    return False


# ----------------------------------------------------------------------------- byte emitter

class Found(Exception):
    pass


class Abort(Exception):
    pass


NAT_CHOICES = [0, 1, 3, 7, 0x2f, 0x8000002f, 0xffffffff, 2, 4, 0x20]


class Emitter:
    """Walks the IR like a reader and emits the bytes it would read.
    mode 'diverge': nat fields get mask-friendly values; stops (Found) when a reader call repeats with
    the same nat arguments and no byte emitted in between -- the reader loops there forever.
    mode 'deep': recursion is preferred until `target` nested calls, then everything is minimal."""

    def __init__(self, ins, rng, mode, target=0, max_bytes=6000, max_depth=900):
        self.ins, self.r, self.mode, self.target = ins, rng, mode, target
        self.max_bytes, self.max_depth = max_bytes, max_depth
        self.out = bytearray()
        self.stack = set()
        self.minimal = False
        self.maxdepth_seen = 0
        sys.setrecursionlimit(max(sys.getrecursionlimit(), 20000))

    def w32(self, n):
        self.out += (n & 0xffffffff).to_bytes(4, "little")

    def evalarg(self, a, ps, fs):
        if a["kind"] == "num":
            return a["value"]
        if a["kind"] == "param":
            return ps[a["value"]] if a["value"] < len(ps) else 0
        i = a["value"]
        return fs[i] if i < len(fs) and isinstance(fs[i], int) else 0

    def nat_value(self, x, i):
        if self.minimal:
            return 0
        bits, arg = 0, False
        for f in x["fields"][i + 1:]:
            m = f.get("mask")
            if m and m["kind"] == "field" and m["value"] == i:
                bits |= 1 << f["bit"]
            for a in f.get("natArgs") or []:
                if a["kind"] == "field" and a["value"] == i:
                    arg = True
        r = self.r
        if self.mode == "deep":
            if arg and not bits:
                return r.choice([1, 1, 2, 3])
            return bits | (0x2f if arg else 0)
        k = r.random()
        if k < 0.35:
            return bits | (r.choice(NAT_CHOICES) if arg else 0)
        if k < 0.55:
            return bits
        return r.choice(NAT_CHOICES)

    def prim(self, x, value=None):
        p = PRIM_MAP.get(x["name"], "notl1")
        if p in ("nat", "int", "float"):
            self.w32(value or 0)
        elif p in ("long", "double"):
            self.out += bytes(8)
        elif p == "string":
            self.out += bytes(4) if self.minimal or self.r.random() < 0.7 else b"\x01a\0\0"
        elif p == "bool":
            self.w32(x.get("falseTag", 0))
        else:
            raise Abort("notl1")

    def fields(self, x, ps, depth):
        fs = []
        for i, f in enumerate(x["fields"]):
            m = f.get("mask")
            if m is not None and (self.evalarg(m, ps, fs) >> f["bit"]) & 1 == 0:
                fs.append(None)
                continue
            args = [self.evalarg(a, ps, fs) for a in f.get("natArgs") or []]
            t = self.ins[f["type"]]
            if t["kind"] == "prim" and PRIM_MAP.get(t["name"]) == "nat":
                v = self.nat_value(x, i)
                self.w32(v)
                fs.append(v)
            else:
                self.emit(f["type"], f["bare"], args, depth + 1)
                fs.append(True)

    def emit(self, t, bare, ps, depth):
        if len(self.out) > self.max_bytes or depth > self.max_depth:
            raise Abort("budget")
        self.maxdepth_seen = max(self.maxdepth_seen, depth)
        if self.mode == "deep" and depth >= self.target:
            self.minimal = True
        key = (t, bool(bare), tuple(ps), len(self.out))
        if key in self.stack:
            if self.mode == "diverge":
                raise Found()
            raise Abort("loop")
        self.stack.add(key)
        try:
            x = self.ins[t]
            k = x["kind"]
            if k == "prim":
                self.prim(x)
            elif k == "struct":
                if not bare:
                    self.w32(x.get("tag") or 0)
                self.fields(x, ps, depth)
            elif k == "union":
                if bare:
                    raise Abort("bare union")
                vs = list(range(len(x["variants"])))
                if self.minimal:
                    vs.sort(key=lambda i: len(self.ins[x["variants"][i]]["fields"]))
                    idx = vs[0]
                elif self.mode == "deep":
                    vs.sort(key=lambda i: -len(self.ins[x["variants"][i]]["fields"]))
                    idx = vs[0] if self.r.random() < 0.8 else self.r.choice(vs)
                else:
                    idx = self.r.choice(vs)
                v = self.ins[x["variants"][idx]]
                self.w32(v.get("tag") or 0)
                self.fields(v, ps, depth)
            elif k in ("array", "dict"):
                if not bare:
                    raise Abort("boxed sequence")
                ef = x["elem"]
                eargs = [self.evalarg(a, ps, []) for a in ef.get("natArgs") or []]
                if k == "array" and x.get("isTuple"):
                    n = (ps[0] if ps else 0) if x.get("dynamicSize") else x.get("count", 0)
                    if n > 64:
                        raise Abort("tuple too long")
                else:
                    n = 0 if self.minimal else (1 if self.mode == "deep" else self.r.choice([0, 1, 1, 2]))
                    self.w32(n)
                for _ in range(n):
                    self.emit(ef["type"], ef["bare"], eargs, depth + 1)
            else:
                raise Abort("kind")
        finally:
            self.stack.discard(key)


def find_divergence(ins, tops, rng, tries=400):
    """[(tid, name, boxed, bytes)]: candidate inputs on which a reader call repeats without consuming"""
    found, seen = [], set()
    if not tops:
        return found
    for _ in range(tries):
        tid, name, x = rng.choice(tops)
        boxed = 1 if x["kind"] == "union" else rng.randrange(2)
        e = Emitter(ins, rng, "diverge", max_bytes=400, max_depth=60)
        try:
            e.emit(tid, not boxed, [], 0)
        except Found:
            b = bytes(e.out) + bytes(64)
            if (tid, boxed, b) not in seen:
                seen.add((tid, boxed, b))
                found.append((tid, name, boxed, b))
                if len(found) >= 3:
                    break
        except (Abort, RecursionError):
            pass
    return found


def deep_inputs(ins, tops, rng, per_type=2, targets=(20, 120, 400)):
    """[(tid, name, boxed, bytes, depth)]: deeply nested inputs through recursive types"""
    res = []
    for tid, name, x in tops:
        for _ in range(per_type):
            tg = rng.choice(targets)
            boxed = 1 if x["kind"] == "union" else rng.randrange(2)
            e = Emitter(ins, rng, "deep", target=tg)
            try:
                e.emit(tid, not boxed, [], 0)
            except (Abort, Found, RecursionError):
                continue
            if e.maxdepth_seen >= 8:
                res.append((tid, name, boxed, bytes(e.out) + bytes(rng.choice([0, 0, 16])), e.maxdepth_seen))
    return res


# ----------------------------------------------------------------------------- hostile streams

HUGE = [0x7fffffff, 0xffffffff, 0xfffffffe, 0x80000000, 1 << 20, 1 << 24, 0x10000]


def hostile_words(rng, b, max_pos=24):
    """huge counts / sizes near 2^32 at every aligned word position of a valid encoding"""
    out = []
    n = len(b) // 4
    pos = list(range(n))
    if n > max_pos:
        pos = sorted(rng.sample(pos, max_pos))
    for i in pos:
        for v in rng.sample(HUGE, 3):
            m = bytearray(b)
            m[4 * i:4 * i + 4] = v.to_bytes(4, "little")
            out.append(bytes(m))
    return out


def truncations(b, max_len=48):
    return [b[:i] for i in range(len(b))] if len(b) <= max_len else []


def close_json(prefix):
    """close the arrays / objects left open by a prefix that ends after a complete value"""
    st, instr, esc = [], False, False
    for c in prefix:
        ch = bytes([c])
        if instr:
            if esc:
                esc = False
            elif ch == b"\\":
                esc = True
            elif ch == b"\"":
                instr = False
        elif ch == b"\"":
            instr = True
        elif ch in (b"{", b"["):
            st.append(b"}" if ch == b"{" else b"]")
        elif ch in (b"}", b"]") and st:
            st.pop()
    return prefix + b"".join(reversed(st))


def has_dyn_tuple(ins, tid):
    """does the type (transitively) contain a tuple whose size is a nat argument"""
    seen, todo = set(), [tid]
    while todo:
        t = todo.pop()
        if t is None or t < 0 or t >= len(ins) or t in seen:
            continue
        seen.add(t)
        x = ins[t]
        if x["kind"] == "array" and x.get("isTuple") and x.get("dynamicSize"):
            return True
        todo += [f["type"] for f in x.get("fields", [])] + list(x.get("variants") or [])
        if x.get("elem"):
            todo.append(x["elem"]["type"])
    return False


def json_mutations(rng, txt, big_first=False):
    """hostile JSON texts derived from a valid one (big_first: the huge-#-value texts lead the list)"""
    out = []
    first = []
    if txt:
        out.append(txt[:rng.randrange(len(txt))])
        out.append(txt[:max(0, len(txt) - 1)])
    depth = rng.choice([50, 1000, 20000])
    out.append(b"[" * depth)
    out.append(b"{\"a\":" * min(depth, 5000))
    out.append(b"[" * 300 + b"]" * 300)
    huge = rng.choice([b"1" + b"0" * 400, b"-9" * 200, b"1e999999", b"123456789012345678901234567890", b"0." + b"9" * 500, b"4294967296", b"-1"])
    import re
    nums = list(re.finditer(rb"-?\d+(\.\d+)?", txt))
    if nums:
        m = rng.choice(nums)
        out.append(txt[:m.start()] + huge + txt[m.end():])
        # largest values a # field admits: as a tuple size, in place and with the rest of the object cut off
        for m in rng.sample(nums, min(len(nums), 3)):
            big = rng.choice([b"4294967295", b"2147483648", b"1073741824"])
            first.append(txt[:m.start()] + big + txt[m.end():])
            first.append(close_json(txt[:m.start()] + big))
    keys = list(re.finditer(rb"\"[A-Za-z0-9_]+\":", txt))
    if keys:
        m = rng.choice(keys)
        # duplicated key: the member is repeated in front of itself with another value
        out.append(txt[:m.start()] + m.group(0) + rng.choice([b"0", b"null", b"[]", b"{}", b"\"x\""]) + b"," + txt[m.start():])
        out.append(txt[:m.start()] + b"\"" + b"k" * 300 + b"\":1," + txt[m.start():])
    if txt:
        i = rng.randrange(len(txt))
        out.append(txt[:i] + rng.choice([b"\"", b"\\", b"\x00", b"\xff\xfe", b"}", b"]", b",", b"\\ud800", b"null"]) + txt[i:])
    strs = list(re.finditer(rb"\"[^\"\\]*\"", txt))
    if strs:
        m = rng.choice(strs)
        out.append(txt[:m.start()] + b"\"" + b"\\u0041" * 2000 + b"\"" + txt[m.end():])
    out.append(rng.choice([b"", b"null", b"true", b"0", b"\"\"", b"[]", b"{}", b"{\"\":{}}", b"[[],[[]],{}]"]))
    rng.shuffle(out)
    return first + out if big_first else out + first


# ----------------------------------------------------------------------------- F1-type schema family

def f1_variant(rng, ns="fv"):
    """Random schema with a reference cycle that is broken only by field masks on an EXTERNAL nat
    parameter (the shape of finding F1), with variations: cycle length, zero-size-able fields in
    front of the recursive field, edges through fixed tuples / typedef wrappers, and -- in about a
    third of the cases -- an unmasked consuming field that makes the schema productive after all."""
    k = rng.choice([1, 1, 2, 3])
    productive = rng.random() < 0.35
    guard_at = rng.randrange(k) if productive else -1
    lines = []
    lines.append(f"{ns}.w {{n:#}} {{m:#}} v:({ns}.c0 n m) = {ns}.W n m;")   # typedef-like wrapper
    for i in range(k):
        nxt = f"{ns}.c{(i + 1) % k}"
        fs = []
        for j in range(rng.choice([0, 0, 1, 2])):
            fs.append(rng.choice([f"p{j}:n.{rng.choice([4, 6, 7])}?int", f"p{j}:true", f"p{j}:m*[int]", f"p{j}:n.{rng.choice([8, 9])}?string"]))
        if i == guard_at:
            fs.append(rng.choice(["g:int", "g:string", "g:(vector int)", "g:#"]))
        bit = rng.choice([0, 1, 2, 3, 5])
        args = rng.choice(["n m", "n m", "n 0"])
        form = rng.random()
        if form < 0.6:
            ref = f"({nxt} {args})"
        elif form < 0.8:
            ref = f"(tuple ({nxt} {args}) 2)"
        else:
            ref = f"({ns}.w {args})" if (i + 1) % k == 0 else f"({nxt} {args})"
        fs.append(f"x:n.{bit}?{ref}")
        fs.append(rng.choice(["y:int", "y:long", "y:string"]))
        lines.append(f"{ns}.c{i} {{n:#}} {{m:#}} {' '.join(fs)} = {ns}.C{i} n m;")
    lines.append(f"{ns}.top a:# b:# v:({ns}.c0 a b) = {ns}.Top;")
    return "\n".join(lines) + "\n"


# ----------------------------------------------------------------------------- JSON default filling

def default_cycle_nodes(ins):
    """type ids whose DEFAULT value is infinite: a cycle through struct fields that are not under a
    LOCAL mask (bare or boxed), first union variants and tuple elements.
    The generated JSON reader fills an absent member -- and the TL2 reader an absent field / a variant
    without body -- with defaults by calling the member's reader / Reset with no input: local masks are
    then 0 (field absent), external and constant masks keep their value, unions take variant 0, nothing
    is consumed.  On such a cycle the default filling recurses forever, whatever precedes the recursive
    field (a consuming field in front of it saves the TL1 reader, not the JSON / TL2 readers)."""
    g = {}
    for x in ins:
        out = []
        if x["kind"] == "struct":
            for f in x["fields"]:
                m = f.get("mask")
                if not (m is not None and m["kind"] == "field"):
                    out.append(f["type"])
        elif x["kind"] == "union":
            if x.get("variants"):
                out.append(x["variants"][0])
        elif x["kind"] == "array" and x.get("isTuple"):
            out.append(x["elem"]["type"])
        g[x["id"]] = out
    on_cycle = set()
    for start in g:
        seen, todo = set(), list(g[start])
        while todo:
            t = todo.pop()
            if t == start:
                on_cycle.add(start)
                break
            if t in seen:
                continue
            seen.add(t)
            todo += g.get(t, [])
    return on_cycle


def reaches(ins, tid, targets):
    seen, todo = set(), [tid]
    while todo:
        t = todo.pop()
        if t is None or t < 0 or t >= len(ins) or t in seen:
            continue
        if t in targets:
            return True
        seen.add(t)
        x = ins[t]
        todo += [f["type"] for f in x.get("fields", [])] + list(x.get("variants") or [])
        if x.get("elem"):
            todo.append(x["elem"]["type"])
        if x.get("result"):
            todo.append(x["result"]["type"])
    return False


def reset_cycle_nodes(ins):
    """type ids on a cycle of the generated Reset() calls that passes through a union: Reset() of a
    struct resets EVERY field whatever its mask, Reset() of a union switches to variant 0 (allocating
    it when it is behind a pointer) and resets it.  A union whose first variant contains the union
    again -- even under a local mask, where the TL default value is finite -- makes Reset() recurse
    forever; every reader that resets an absent field of that type (TL1 included, on valid input) dies."""
    g = {}
    for x in ins:
        out = []
        if x["kind"] == "struct":
            out = [f["type"] for f in x["fields"]]
        elif x["kind"] == "union":
            out = list(x.get("variants") or [])[:1]
        elif x["kind"] == "array" and x.get("isTuple") and not x.get("dynamicSize"):
            out = [x["elem"]["type"]]
        g[x["id"]] = out
    on_cycle = set()
    for x in ins:
        if x["kind"] != "union":
            continue
        start = x["id"]
        seen, todo = set(), list(g[start])
        while todo:
            t = todo.pop()
            if t == start:
                on_cycle.add(start)
                break
            if t in seen or t is None or t < 0:
                continue
            seen.add(t)
            todo += g.get(t, [])
    return on_cycle
