"""Shared machinery of the Obj family (C18 random filling, C09 object reuse, C12 interpreter, C07 result
transcoders): the generator-side dump (translator T-gen, an add-only overlay test of package gengo that
runs the real generator's analysis), the generator-facts file of the Coq model, unit preparation."""
import json
import threading
from concurrent.futures import ThreadPoolExecutor
from pathlib import Path

import vlib
from vlib import VERIF, REPO, sh, goenv, trunc
from schema_ir import *
from gencommon import repo_corpus, Unit, mutate_bytes

GENGO_PKG = "internal/puregen/gengo"
DRIVER_FILES = ["main.go", "ops_tl1.go", "ops_obj.go"]   # ops_obj.go reaches TL2 through interface assertions: builds with and without TL2


def build_objdump(scratch):
    """in-package test binary of gengo with the dump harness; returns (binary, error)"""
    return vlib.build_overlay_test(GENGO_PKG, {"verif_objdump_test.go": VERIF / "overlay" / GENGO_PKG / "verif_objdump_test.go"},
                                   scratch, name="objdump")


def gen_args(options, files):
    return ["--language=go", "--outdir=/nonexistent/gen", "--pkgPath=verifh/gen/tl",
            "--basicPkgPath=github.com/VKCOM/tl/pkg/basictl", "--generateRandomCode"] + list(options) + [str(f) for f in files]


def run_objdump(binary, scratch, jobs):
    """jobs: list of (out_json, options, files) -> list of (instances | None, error)"""
    lines = [" ".join([str(o)] + gen_args(opts, files)) for o, opts, files in jobs]
    rc, res, log = vlib.run_overlay_test(binary, "TestVerifObjDump", lines, scratch, timeout=600)
    out = []
    for i, (o, opts, files) in enumerate(jobs):
        r = res[i] if i < len(res) else f"err harness died rc={rc} {log[-300:]}"
        if r.startswith("ok "):
            ins = json.loads(Path(o).read_text())
            for x in ins:
                x.setdefault("fields", [])
            out.append((ins, ""))
        else:
            out.append((None, r))
    return out


def use_token(f):
    if f.get("useMask"):
        return f"mask:{f.get('useBits', 0)}:{1 if f.get('useSize') else 0}"
    if f.get("useSize"):
        return "size"
    return "none"


def write_x_file(ins, path):
    """generator facts, one entry per instance in IR order (read by ocaml/obj/xschema_io.ml)"""
    lines = []
    for x in ins:
        if x["kind"] == "struct":
            lines.append(f"x {x['id']} struct {len(x['fields'])}")
            for f in x["fields"]:
                lines.append(f"xf {1 if f.get('rec') else 0} {use_token(f)}")
        elif x["kind"] == "union" and x.get("goKind") == "maybe":
            lines.append(f"x {x['id']} maybe")
        else:
            lines.append(f"x {x['id']} plain")
    Path(path).write_text("\n".join(lines) + "\n")


def children(ins, x):
    k = x["kind"]
    if k == "struct":
        return [f["type"] for f in x["fields"]]
    if k == "union":
        return list(x.get("variants") or [])
    if k in ("array", "dict"):
        return [x["elem"]["type"]]
    return []


def reach(ins, tid):
    seen, todo = set(), [tid]
    while todo:
        t = todo.pop()
        if t in seen or t < 0:
            continue
        seen.add(t)
        todo += children(ins, ins[t])
    return seen


def unsupported_reason(ins, tid):
    """why the TL1-level model does not cover a top-level type (None = covered)"""
    for t in sorted(reach(ins, tid)):
        x = ins[t]
        if x.get("originTL2"):
            return f"TL2-origin type {x['name']} (no TL1 form)"
        if x["kind"] == "prim" and PRIM_MAP.get(x["name"], "notl1") == "notl1":
            return f"primitive {x['name']} has no TL1 form"
        if x["kind"] == "struct":
            for f in x["fields"]:
                if f.get("omitted"):
                    return f"field {x['name']}.{f['name']} is TL2-omitted (skipped by FillRandom)"
            if x.get("isUnwrap") and any(f.get("rec") or f.get("useMask") or f.get("useSize") for f in x["fields"]):
                return f"unwrap struct {x['name']} with generator flags on its field"
        if x["kind"] == "dict":
            kp = key_prim_of(ins, x)
            st = ins[x["elem"]["type"]]
            if kp is None or st["kind"] != "struct" or not st["fields"] or ins[st["fields"][0]["type"]]["kind"] != "prim":
                return f"dictionary {x['name']} key is not a plain primitive"
    return None


def rank_certificate(ins):
    """rank per instance: 0 for types on / reaching a reference cycle, else 1 + max rank of the referenced
    types (unions look through their variant structs, as the model's ranked_def does)"""
    n = len(ins)
    def edges(t):
        x = ins[t]
        if x["kind"] == "union":
            r = []
            for v in x.get("variants") or []:
                r += [f["type"] for f in ins[v]["fields"]] if ins[v]["kind"] == "struct" else []
            return r
        return children(ins, x)
    rank = [None] * n
    state = [0] * n
    for root in range(n):
        if state[root]:
            continue
        stack = [(root, iter(edges(root)))]
        state[root] = 1
        best = {root: 1}
        bad = {root: False}
        while stack:
            t, it = stack[-1]
            adv = False
            for c in it:
                if c < 0 or state[c] == 1 or (state[c] == 2 and rank[c] == 0):
                    bad[t] = True
                    continue
                if state[c] == 2:
                    best[t] = max(best[t], rank[c] + 1)
                    continue
                state[c] = 1
                best[c] = 1
                bad[c] = False
                stack.append((c, iter(edges(c))))
                adv = True
                break
            if adv:
                continue
            stack.pop()
            rank[t] = 0 if bad[t] else best[t]
            state[t] = 2
            if stack:
                p = stack[-1][0]
                if rank[t] == 0:
                    bad[p] = True
                else:
                    best[p] = max(best[p], rank[t] + 1)
    return rank


def acyclic_from(ins, tid):
    """is the part of the graph reachable from tid free of cycles"""
    state = {}
    def go(t):
        if state.get(t) == 2:
            return True
        if state.get(t) == 1:
            return False
        state[t] = 1
        for c in children(ins, ins[t]):
            if c >= 0 and not go(c):
                return False
        state[t] = 2
        return True
    return go(tid)


class ObjUnit(Unit):
    def __init__(self, *a):
        super().__init__(*a)
        self.x_path = None
        self.items = set()


def prepare_units(ctx, specs, bins, objdump, jobs=8, need_verifdump=False):
    """Dump the generator's view (IR + facts), write the model input files, generate and build the Go package."""
    units = [ObjUnit(*s) for s in specs]
    dj = []
    for u in units:
        d = ctx.scratch / f"unit_{u.name}"
        d.mkdir(exist_ok=True)
        dj.append((d / "gir.json", u.options, u.files))
    dumps = run_objdump(objdump, ctx.scratch, dj)

    def prep(arg):
        u, (ins, err) = arg
        d = ctx.scratch / f"unit_{u.name}"
        if ins is None:
            u.kernel_rejected = True
            u.error = "generator front end: " + err[-800:]
            return u
        u.ins = ins
        u.ir_path = d / "gir.txt"
        u.x_path = d / "gx.txt"
        try:
            write_ir_file(ins, u.ir_path)
            write_x_file(ins, u.x_path)
        except Exception as e:  # noqa
            u.error = f"ir: {e!r}"
            return u
        if need_verifdump:
            vins, verr = dump_ir(bins["verifdump"], u.files, d / "ir.json", tl2_whitelist=u.whitelist)
            u.vins = vins
            if vins is not None:
                u.vir_path = d / "ir.txt"
                write_ir_file(vins, u.vir_path)
        g = GenPkg(ctx.scratch, u.name, bins["tl2gen"], u.files, u.options, driver_files=DRIVER_FILES)
        if not g.generate():
            u.gen_failed = True
            u.error = "tl2gen: " + g.gen_log[-800:]
            return u
        if not g.build():
            u.error = "go build: " + g.gen_log[-1500:]
            return u
        u.gen = g
        rc, items, err = vlib.run_lines(g.exe, [], ["items"])
        if items and items[0].startswith("ok "):
            u.items = {x.split(",")[0] for x in items[0][3:].split(";") if x}
            u.item_info = {x.split(",")[0]: x.split(",") for x in items[0][3:].split(";") if x}
        return u

    with ThreadPoolExecutor(max_workers=jobs) as ex:
        list(ex.map(prep, zip(units, dumps)))
    return units


def tops_of(u):
    """closed top-level objects the generated factory can create (unions only when TL2 is generated)"""
    return [t for t in toplevel_objects(u.ins) if t[1] in u.items]


F7_SCHEMA = """
int#a8509bda ? = Int;
boolFalse#bc799737 = Bool;
boolTrue#997275b5 = Bool;
tuple#9770768a {t:Type} {n:#} [t] = Tuple t n;
l.cons head:int tail:l.List = l.List;
l.nil = l.List;
f7.top a:(tuple (tuple (tuple (tuple (tuple l.List 1) 1) 1) 1) 1) = f7.Top;
f7.mid a:(tuple (tuple l.List 1) 1) = f7.Mid;
f7.list a:l.List = f7.ListBox;
"""


class Setup:
    pass


def family_setup(ctx, props, family="obj", n_random=6, tl2_random=False, corpus=None, extra_specs=(),
                 which=("tl2gen",), need_verifdump=False, need_objdump=True, objx_random=None):
    """T-const, theorems, reference model, tools, schema units (corpus + random)."""
    import randschema
    st = Setup()
    with vlib.Lock():
        st.cres = vlib.run_genconsts()
        st.thm = vlib.check_theorems(props)
        try:
            st.ref, st.ref_err = vlib.build_refmodel(family), None
        except RuntimeError as e:
            st.ref, st.ref_err = None, str(e)
    if need_verifdump and "verifdump" not in which:
        which = tuple(which) + ("verifdump",)
    st.bins, st.berr = build_tools(ctx.scratch, which=which)
    st.objdump, oerr = build_objdump(ctx.scratch) if need_objdump else (None, "")
    if need_objdump and st.objdump is None:
        st.berr = (st.berr or "") + " objdump overlay: " + oerr[-1500:]
    st.units = []
    if not st.berr:
        specs = list(corpus if corpus is not None else repo_corpus(ctx.quick()))
        specs += list(extra_specs)
        if objx_random is not None:
            specs += objx_specs(ctx, objx_random)
        if n_random:
            specs += randschema.make_specs(ctx, n_random, tl2=tl2_random)
        st.units = prepare_units(ctx, specs, st.bins, st.objdump, need_verifdump=need_verifdump)
    return st


def generator_side(ue):
    """a RANDOM schema the kernel accepts but whose generated Go package does not generate/build: C14's subject (accepted schemas
    build), listed in the evidence, not a violation of this property"""
    name, e = ue
    return name.startswith(("rs", "rt2_", "objr")) and str(e).startswith(("go build:", "tl2gen:"))


def family_report(ctx, st, props, consts, corr_name, mism, bad, unit_errors, stats, samples, rule, trusted, assumptions, extra=None):
    """violations + evidence, common to the Obj checks.
    bad: (unit, op, go output, sig, text)   mism: (unit, op, model, go)   unit_errors: (unit, text)"""
    pid = ctx.pid
    thm = st.thm
    for name, l, g, sig, what in bad:      # known findings do not use up the report budget of fresh violations
        if len(ctx.violations) >= 40:
            break
        ctx.violation(sig, f"{name}: {what}: {trunc(l, 140)} -> {trunc(g, 140)}", {"unit": name, "op": l, "go": g})
    if not ctx.violations:
        cerr = [f"{n}: {st.cres[n]}" for n in consts if st.cres.get(n)]
        if cerr:
            ctx.violation(f"{pid}:tconst", "translator T-const failed: " + "; ".join(cerr), {"theorem": f"coq/theories/{props}.v", "error": cerr}, no_input=True)
        elif not thm["ok"]:
            ctx.violation(f"{pid}:theorem", f"theorem no longer checks: {thm['failing_at']}",
                          {"theorem_file": thm["props_file"], "failing_at": thm["failing_at"], "log": thm["log_tail"]}, no_input=True)
        if st.berr:
            ctx.violation(f"{pid}:tools", "cannot build tools from /repo: " + trunc(st.berr, 600), {"error": st.berr}, no_input=True)
        if st.ref_err:
            ctx.violation(f"{pid}:model-build", "reference model does not build: " + trunc(st.ref_err, 600), {"error": st.ref_err}, no_input=True)
        for name, e in [x for x in unit_errors if not generator_side(x)][:10]:
            ctx.violation(f"{pid}:unit:{name}", f"schema unit {name}: {trunc(e, 600)}", {"unit": name, "error": e}, no_input=True)
        for name, l, m, g in mism[:30]:
            ctx.violation(f"{pid}:corr:{name}:{trunc(l, 60)}", f"{corr_name} {name}: model and implementation differ on {trunc(l, 140)}: model={trunc(m, 90)} go={trunc(g, 90)}",
                          {"correspondence": corr_name, "unit": name, "op": l, "model": m, "go": g}, no_input=True)
    cov = {
        "obligations": thm["obligations"], "discharged": thm["discharged"],
        "checker_cmd": f"make -f Makefile.coq theories/{props}.vo (coqc 8.16.1, full .vo build, in /verif/coq)",
        "trusted_base": ["Coq 8.16.1 kernel"] + list(trusted) +
                        ["axioms: " + (", ".join(thm["axioms"]) if thm["axioms"] else "none (every theorem closed under the global context)")],
        "theorems": thm["statements"], "assumptions_per_theorem": thm["assumptions"],
        "rule": rule, "stats": stats, "correspondence": corr_name, "correspondence_mismatches": len(mism), "oracle_failures": len(bad),
        "samples": samples or [{"note": "no ops ran"}],
        "constants": {n: ("regenerated from source this run" if not st.cres.get(n) else "FAILED") for n in consts},
        "schemas": [{"name": u.name, "options": u.options, "instances": len(u.ins or []), "error": trunc(u.error, 200) if u.error else None} for u in st.units],
    }
    cov["random_schemas_not_built"] = [{"unit": n, "error": trunc(e, 300)} for n, e in unit_errors if generator_side((n, e))]
    cov.update(extra or {})
    ctx.coverage.update(cov)
    ctx.assumptions += list(assumptions)


# --------------------------------------------------------------------------- C12: the dynamic interpreter (overlay harness)
OTF_PKG = "internal/pure/onthefly"


def build_otf(scratch):
    return vlib.build_overlay_test(OTF_PKG, {"verif_otf_test.go": VERIF / "overlay" / OTF_PKG / "verif_otf_test.go"}, scratch, name="otf")


def run_otf(binary, scratch, load_line, lines, timeout=900, watchdog_ms=4000, max_restarts=25):
    """run ops through the interpreter harness; a process death costs one `crash ...` result and a restart"""
    scratch = Path(scratch)
    scratch.mkdir(exist_ok=True)
    results = []
    restarts = 0
    first = None
    while len(results) < len(lines):
        pos = len(results)
        rc, res, log = vlib.run_overlay_test(binary, "TestVerifOtf", [load_line] + lines[pos:], scratch, timeout=timeout,
                                             extra_env={"VERIF_OTF_WATCHDOG_MS": str(watchdog_ms)})
        if not res or not res[0].startswith("ok"):
            return None, f"interpreter kernel did not load: {res[:1]} {log[-400:]}"
        first = first or res[0]
        got = res[1:][:len(lines) - pos]
        results += got
        if len(results) >= len(lines):
            break
        if not (got and got[-1].startswith("crash")):
            reason = next((l for l in log.splitlines() if l.startswith(("fatal error", "runtime:", "panic"))), f"exit {rc}")
            results.append("crash " + reason[:160])
        restarts += 1
        if restarts > max_restarts:
            results += ["crash too-many-restarts"] * (len(lines) - len(results))
    return results, first


# --------------------------------------------------------------------------- extra fixed + random schemas of the Obj family
OBJX_HEADER = """
int#a8509bda ? = Int;
long#22076cba ? = Long;
float#824dab22 ? = Float;
double#2210c154 ? = Double;
string#b5286e24 ? = String;
boolFalse#bc799737 = Bool;
boolTrue#997275b5 = Bool;
true = True;
resultFalse#27930a7b {t:Type} = Maybe t;
resultTrue#3f9c8ef8 {t:Type} t = Maybe t;
vector#1cb5c415 {t:Type} # [t] = Vector t;
tuple#9770768a {t:Type} {n:#} [t] = Tuple t n;
dictionaryField {t:Type} key:string value:t = DictionaryField t;
dictionary#1f4c618f {t:Type} %(Vector %(DictionaryField t)) = Dictionary t;
"""

# wide structs (TL2 presence blocks of 8 fields: C09), sizes reaching tuples through nat parameters (C18),
# functions whose result is a tuple whose ELEMENT type depends on another request field, in permuted order (C07)
OBJX_SCHEMA = OBJX_HEADER + """
objx.wide9 a:int b:int c:int d:int e:int f:int g:int h:int i:string j:(vector int) = objx.Wide9;
objx.wide16 f0:int f1:string f2:long f3:Bool f4:(vector int) f5:int f6:double f7:string f8:int f9:(vector string)
    f10:Bool f11:long f12:int f13:string f14:int f15:(Maybe int) f16:string = objx.Wide16;
objx.wide20 f0:int f1:int f2:string f3:int f4:long f5:int f6:string f7:(vector int) f8:int f9:int f10:string f11:int
    f12:int f13:int f14:(Maybe string) f15:int f16:long f17:objx.wide9 f18:string f19:int = objx.Wide20;
objx.wideMask m:# f1:int f2:m.0?int f3:string f4:m.1?string f5:int f6:int f7:m.2?int f8:int f9:m.3?(vector int) f10:string f11:m.4?int = objx.WideMask;
objx.wideBox w:objx.wide9 v:(vector objx.wide9) u:(Maybe objx.wide16) = objx.WideBox;

objx.item {m:#} id:int name:m.0?string tags:m.1?(vector int) = objx.Item m;
objx.block {n:#} id:int items:n*[int] = objx.Block n;
objx.page {n:#} fields_mask:# title:string tags:fields_mask.0?(tuple string n) body:(objx.block n) = objx.Page n;
objx.doc n:# body:(objx.block n) = objx.Doc;
objx.book n:# page:(objx.page n) = objx.Book;
objx.grid rows:# cols:# cells:(tuple (tuple int cols) rows) = objx.Grid;
// boxed / bare True, Bool and boxed user types under external and local field masks (TL1 writes a tag for the boxed ones)
objx.stats {m:#} marker:m.1?True value:m.2?int flag:m.3?Bool w:m.4?objx.Doc bt:m.5?%True lt:m.0?true total:int = objx.Stats m;
objx.flags m:# a:m.0?True b:m.1?true c:m.2?Bool d:m.3?%True e:m.4?objx.Doc x:int f:m.5?True = objx.Flags;
// nat-dependent element types inside dictionaries (Go maps), vectors, tuples, Maybe (C09: absent JSON fields)
objx.natDict n:# tags:%(Dictionary int) d:%(Dictionary %(Tuple int n)) = objx.NatDict;
objx.natAll n:# m:# k:# v:(vector (tuple int n)) t:(tuple (tuple string m) n) mb:(Maybe (tuple int n)) d:%(Dictionary %(Tuple int n))
    it:(vector (objx.item k)) st:(objx.stats k) s:string = objx.NatAll;

---functions---
@read objx.getTuple n:# = Tuple int n;
@read objx.getItems fields_mask:# = Vector (objx.Item fields_mask);
@read objx.getMatrix rows:# cols:# = Tuple (Tuple int cols) rows;
@read objx.getMatrixT cols:# rows:# = Tuple (Tuple int cols) rows;
@read objx.getItemTuple count:# fields_mask:# = Tuple (objx.Item fields_mask) count;
@read objx.getItemTupleT fields_mask:# x:int count:# = Tuple (objx.Item fields_mask) count;
@read objx.getCube a:# b:# c:# = Tuple (Tuple (Tuple int b) c) a;
@read objx.getPages x:int n:# m:# = Tuple (objx.Page n) m;
@read objx.getBlocks n:# m:# = Vector (Tuple (objx.Block m) n);
@read objx.getMaybeRow n:# m:# = Maybe (Tuple (Tuple string m) n);
@read objx.getStats fields_mask:# = objx.Stats fields_mask;
@read objx.getStatsReq fields_mask:# mark:fields_mask.0?True b:fields_mask.1?Bool w:fields_mask.2?objx.Flags t:fields_mask.3?%True = objx.Stats fields_mask;
@read objx.getFlags x:int = objx.Flags;
@read objx.getStatsTuple m:# n:# = Tuple (objx.Stats m) n;
@read objx.getStatsVec x:int m:# = Vector (objx.Stats m);
@read objx.getNatDict n:# = objx.NatDict;
@read objx.getDictOf n:# = Dictionary (Tuple int n);
"""


def objx_random_schema(rng, ns="ox"):
    """random supplement: wide structs (8..20 plain fields) and functions with nested, permuted nat arguments"""
    simple = ["int", "long", "string", "double", "Bool", "(vector int)", "(vector string)", "(Maybe int)", "(Maybe string)"]
    marks = ["True", "true", "Bool", "%True", f"({ns}.Block 2)", "int", "string"]
    extra = " ".join(f"k{b}:m.{b}?{rng.choice(marks)}" for b in range(2, rng.randrange(3, 8)))
    lines = [f"{ns}.block {{n:#}} id:int items:n*[int] = {ns}.Block n;",
             f"{ns}.item {{m:#}} id:int name:m.0?string tags:m.1?(vector int) {extra} = {ns}.Item m;",
             f"{ns}.nd n:# m:# k:# d:%(Dictionary %(Tuple int n)) v:(vector (tuple string n)) mb:(Maybe (tuple int m)) it:({ns}.item k) = {ns}.Nd;"]
    wides = []
    for i in range(rng.randrange(2, 5)):
        nf = rng.randrange(8, 21)
        fs = []
        for j in range(nf):
            t = rng.choice(simple)
            if wides and rng.random() < 0.12:
                t = f"{ns}.w{rng.choice(wides)}"
            fs.append(f"f{j}:{t}")
        lines.append(f"{ns}.w{i} " + " ".join(fs) + f" = {ns}.W{i};")
        wides.append(i)
    lines.append("---functions---")
    for i in range(rng.randrange(3, 7)):
        k = rng.randrange(2, 4)
        names = [f"a{j}" for j in range(k)]
        order = names[:]
        rng.shuffle(order)
        fields = []
        for n in names:
            if rng.random() < 0.3:
                fields.append(f"x{len(fields)}:int")
            fields.append(f"{n}:#")
        inner = rng.choice(["int", "string", f"({ns}.Item {order[-1]})", f"({ns}.Block {order[-1]})"])
        use = order[:-1] if inner.startswith("(") else order
        t = inner
        for n in use:
            t = f"(Tuple {t} {n})"
        wrap = rng.choice(["", "", "Vector ", "Maybe "])
        res = t[1:-1] if not wrap and t.startswith("(") else (wrap + t)
        lines.append(f"@read {ns}.fn{i} " + " ".join(fields) + f" = {res};")
    return OBJX_HEADER + "\n".join(lines) + "\n"


def objx_specs(ctx, n_random=2):
    """unit specs (name, files, options, whitelist, san) of the extra schemas"""
    d = Path(ctx.scratch) / "objx"
    d.mkdir(exist_ok=True)
    (d / "objx.tl").write_text(OBJX_SCHEMA)
    specs = [("objx", [d / "objx.tl"], ["--tl2WhiteList=*"], "*", True)]
    for i in range(n_random):
        p = d / f"objr{i}.tl"
        p.write_text(objx_random_schema(ctx.rng))
        specs.append((f"objr{i}", [p], ["--tl2WhiteList=*"], "*", True))
    return specs


def default_value(ins, tid, ps=(), depth=0):
    """the wire value of a freshly created object (all defaults) or None where it depends on more than we track"""
    if depth > 8:
        return None
    x = ins[tid]
    k = x["kind"]
    if k == "prim":
        p = PRIM_MAP.get(x["name"], "notl1")
        if p in ("nat", "int", "float", "long", "double"):
            return ("n", 0)
        if p == "string":
            return ("s", b"")
        if p == "bool":
            return ("b", False)
        return None
    if k == "struct":
        fs = []
        for f in x["fields"]:
            m = f.get("mask")
            if m is not None:
                if m["kind"] == "field":
                    fs.append(None)      # local masks are 0 in a default object
                    continue
                mv = m["value"] if m["kind"] == "num" else (ps[m["value"]] if m["value"] < len(ps) else 0)
                if not (mv >> f["bit"]) & 1:
                    fs.append(None)
                    continue
            args = []
            for a in f.get("natArgs") or []:
                args.append(a["value"] if a["kind"] == "num" else (0 if a["kind"] == "field" else (ps[a["value"]] if a["value"] < len(ps) else 0)))
            v = default_value(ins, f["type"], args, depth + 1)
            if v is None:
                return None
            fs.append(v)
        return ("S", fs)
    if k == "union":
        v0 = ins[x["variants"][0]]
        d = default_value(ins, v0["id"], ps, depth + 1)
        return None if d is None else ("U", 0, d[1])
    if k == "dict":
        return ("A", [])
    if k == "array":
        if not x.get("isTuple"):
            return ("A", [])
        n = (ps[0] if ps else 0) if x.get("dynamicSize") else x.get("count", 0)
        if n > 64:
            return None
        ef = x["elem"]
        eargs = [a["value"] if a["kind"] == "num" else (ps[a["value"]] if a["kind"] == "param" and a["value"] < len(ps) else 0) for a in ef.get("natArgs") or []]
        e = default_value(ins, ef["type"], eargs, depth + 1)
        return None if e is None else ("A", [e] * n)
    return None


# --------------------------------------------------------------------------- TL2-origin schemas (.tl2) for C12
OBJX_TL2 = """
// presence blocks of 8 fields; omitted (retired) fields `_name:T` / `_:T` at block boundaries and elsewhere
o2.plain = a:uint32 b:uint32 c:uint32 d:uint32 e:uint32 f:uint32 g:uint32 x:uint32 h:uint32 i:string;
o2.omitMid = a:uint32 b:uint32 c:uint32 _old:uint32 d:uint32 e:uint32 f:uint32 g:uint32 h:uint32 i:string;
o2.omitEdge = a:uint32 b:uint32 c:uint32 d:uint32 e:uint32 f:uint32 g:uint32 _old:uint32 h:uint32 i:string;
o2.omitEdge2 = a:uint32 b:string c:int64 d:bool e:uint32 f:uint32 g:uint32 _:uint32 h:uint32 i:string j:uint32 k:uint32 l:uint32 m:uint32 n:uint32 _old2:string o:int32 p:string;
o2.omitFirst = _z:uint32 a:uint32 b:string;
o2.omitLast = a:uint32 b:string c:uint32 d:uint32 e:uint32 f:uint32 g:uint32 _gone:string;
o2.opt = a?:uint32 b?:string c:uint32 d?:[]int32 e?:o2.omitMid f:bool g?:bool h?:int64 i?:string j:uint32;
o2.point = x:int32 y:int32;
o2.shape = | Empty | Dot o2.point | Line a:o2.point b:o2.point | Poly pts:[]o2.point _w:uint32 name:string;
o2.color = | Red | Green | Blue;
o2.ids <=> []int64;
o2.box<t:Type> = v:t n:uint32 w?:t;
o2.all = p:o2.plain m:o2.omitMid e:o2.omitEdge s:o2.shape c:o2.color ids:o2.ids ss:[]o2.shape arr:[3]o2.point
         m1:[string]uint32 b1:o2.box<o2.omitEdge2> b2:o2.box<string> o:o2.opt t:bit u:[]bool bb:byte;
"""


def tl2_random_schema(rng, ns="t2"):
    """small random .tl2 schema: structs with 1..20 fields, optional `?` fields, omitted `_x:T` fields at every index
    (7 and 15 favoured), unions, enums, arrays, maps, aliases, one generic"""
    prims = ["uint32", "int32", "int64", "string", "bool", "byte", "float64"]
    decls = []      # names usable as field types
    lines = [f"{ns}.pt = x:int32 y:int32;", f"{ns}.gen<t:Type> = v:t w?:t k:uint32;"]
    decls.append(f"{ns}.pt")

    def ftype():
        r = rng.random()
        base = rng.choice(prims) if r < 0.6 or not decls else rng.choice(decls)
        r2 = rng.random()
        if r2 < 0.15:
            return "[]" + base
        if r2 < 0.22:
            return f"[{rng.randrange(0, 5)}]" + base
        if r2 < 0.27:
            return f"[string]{base}"
        if r2 < 0.32:
            return f"{ns}.gen<{base}>"
        return base

    def fields(nf, prefix="f"):
        fs = []
        for j in range(nf):
            om = rng.random() < (0.5 if j in (7, 15) else 0.08)
            if om:
                fs.append((f"_o{j}" if rng.random() < 0.7 else "_") + ":" + rng.choice(prims))
            else:
                fs.append(f"{prefix}{j}" + ("?" if rng.random() < 0.25 else "") + ":" + ftype())
        return " ".join(fs)

    for i in range(rng.randrange(4, 9)):
        k = rng.random()
        name = f"{ns}.s{i}"
        if k < 0.6:
            lines.append(f"{name} = {fields(rng.choice([1, 2, 5, 8, 9, 10, 16, 17, 20, rng.randrange(1, 21)]))};")
        elif k < 0.8:
            vs = []
            for v in range(rng.randrange(2, 5)):
                body = rng.choice(["", " " + rng.choice(prims), " " + fields(rng.randrange(1, 10), prefix=f"v{v}f")])
                vs.append(f"| C{i}x{v}{body}")
            lines.append(f"{name} = " + " ".join(vs) + ";")
        elif k < 0.9:
            lines.append(f"{name} = " + " ".join(f"| E{i}x{v}" for v in range(rng.randrange(2, 5))) + ";")
        else:
            at = ftype()
            while at == "bool":      # an alias of bool does not compile (C14-type generator defect `item.ptr() (*bool) as bool`): avoided
                at = ftype()
            lines.append(f"{name} <=> {at};")
        decls.append(name)
    return "\n".join(lines) + "\n"


def tl2_specs(ctx, n_random=2):
    d = Path(ctx.scratch) / "objx2"
    d.mkdir(exist_ok=True)
    (d / "objx.tl2").write_text(OBJX_TL2)
    specs = [("cases_tl2", [REPO / "internal/tlcodegen/test/tls/cases.tl2"], ["--tl2WhiteList=*"], "*", True),
             ("objx_tl2", [d / "objx.tl2"], ["--tl2WhiteList=*"], "*", True)]
    for i in range(n_random):
        p = d / f"r{i}.tl2"
        p.write_text(tl2_random_schema(ctx.rng))
        specs.append((f"rt2_{i}", [p], ["--tl2WhiteList=*"], "*", True))
    return specs
