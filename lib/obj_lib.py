"""Shared machinery of the Obj family (C18 random filling, C09 object reuse, C12 interpreter, C07 result
transcoders): the generator-side dump (translator T-gen, an add-only overlay test of package gengo that
runs the real generator's analysis), the generator-facts file of the Coq model, unit preparation."""
import json
import threading
from concurrent.futures import ThreadPoolExecutor
from pathlib import Path

import vlib
from vlib import VERIF, REPO, sh, goenv, trunc
from schema_ir import *
from gencommon import repo_corpus, Unit, mutate_bytes

GENGO_PKG = "internal/puregen/gengo"
DRIVER_FILES = ["main.go", "ops_tl1.go", "ops_obj.go"]   # ops_obj.go reaches TL2 through interface assertions: builds with and without TL2


def build_objdump(scratch):
    """in-package test binary of gengo with the dump harness; returns (binary, error)"""
    return vlib.build_overlay_test(GENGO_PKG, {"verif_objdump_test.go": VERIF / "overlay" / GENGO_PKG / "verif_objdump_test.go"},
                                   scratch, name="objdump")


def gen_args(options, files):
    return ["--language=go", "--outdir=/nonexistent/gen", "--pkgPath=verifh/gen/tl",
            "--basicPkgPath=github.com/VKCOM/tl/pkg/basictl", "--generateRandomCode"] + list(options) + [str(f) for f in files]


def run_objdump(binary, scratch, jobs):
    """jobs: list of (out_json, options, files) -> list of (instances | None, error)"""
    lines = [" ".join([str(o)] + gen_args(opts, files)) for o, opts, files in jobs]
    rc, res, log = vlib.run_overlay_test(binary, "TestVerifObjDump", lines, scratch, timeout=600)
    out = []
    for i, (o, opts, files) in enumerate(jobs):
        r = res[i] if i < len(res) else f"err harness died rc={rc} {log[-300:]}"
        if r.startswith("ok "):
            ins = json.loads(Path(o).read_text())
            for x in ins:
                x.setdefault("fields", [])
            out.append((ins, ""))
        else:
            out.append((None, r))
    return out


def use_token(f):
    if f.get("useMask"):
        return f"mask:{f.get('useBits', 0)}:{1 if f.get('useSize') else 0}"
    if f.get("useSize"):
        return "size"
    return "none"


def write_x_file(ins, path):
    """generator facts, one entry per instance in IR order (read by ocaml/obj/xschema_io.ml)"""
    lines = []
    for x in ins:
        if x["kind"] == "struct":
            lines.append(f"x {x['id']} struct {len(x['fields'])}")
            for f in x["fields"]:
                lines.append(f"xf {1 if f.get('rec') else 0} {use_token(f)}")
        elif x["kind"] == "union" and x.get("goKind") == "maybe":
            lines.append(f"x {x['id']} maybe")
        else:
            lines.append(f"x {x['id']} plain")
    Path(path).write_text("\n".join(lines) + "\n")


def children(ins, x):
    k = x["kind"]
    if k == "struct":
        return [f["type"] for f in x["fields"]]
    if k == "union":
        return list(x.get("variants") or [])
    if k in ("array", "dict"):
        return [x["elem"]["type"]]
    return []


def reach(ins, tid):
    seen, todo = set(), [tid]
    while todo:
        t = todo.pop()
        if t in seen or t < 0:
            continue
        seen.add(t)
        todo += children(ins, ins[t])
    return seen


def unsupported_reason(ins, tid):
    """why the TL1-level model does not cover a top-level type (None = covered)"""
    for t in sorted(reach(ins, tid)):
        x = ins[t]
        if x.get("originTL2"):
            return f"TL2-origin type {x['name']} (no TL1 form)"
        if x["kind"] == "prim" and PRIM_MAP.get(x["name"], "notl1") == "notl1":
            return f"primitive {x['name']} has no TL1 form"
        if x["kind"] == "struct":
            for f in x["fields"]:
                if f.get("omitted"):
                    return f"field {x['name']}.{f['name']} is TL2-omitted (skipped by FillRandom)"
            if x.get("isUnwrap") and any(f.get("rec") or f.get("useMask") or f.get("useSize") for f in x["fields"]):
                return f"unwrap struct {x['name']} with generator flags on its field"
        if x["kind"] == "dict":
            kp = key_prim_of(ins, x)
            st = ins[x["elem"]["type"]]
            if kp is None or st["kind"] != "struct" or not st["fields"] or ins[st["fields"][0]["type"]]["kind"] != "prim":
                return f"dictionary {x['name']} key is not a plain primitive"
    return None


def rank_certificate(ins):
    """rank per instance: 0 for types on / reaching a reference cycle, else 1 + max rank of the referenced
    types (unions look through their variant structs, as the model's ranked_def does)"""
    n = len(ins)
    def edges(t):
        x = ins[t]
        if x["kind"] == "union":
            r = []
            for v in x.get("variants") or []:
                r += [f["type"] for f in ins[v]["fields"]] if ins[v]["kind"] == "struct" else []
            return r
        return children(ins, x)
    rank = [None] * n
    state = [0] * n
    for root in range(n):
        if state[root]:
            continue
        stack = [(root, iter(edges(root)))]
        state[root] = 1
        best = {root: 1}
        bad = {root: False}
        while stack:
            t, it = stack[-1]
            adv = False
            for c in it:
                if c < 0 or state[c] == 1 or (state[c] == 2 and rank[c] == 0):
                    bad[t] = True
                    continue
                if state[c] == 2:
                    best[t] = max(best[t], rank[c] + 1)
                    continue
                state[c] = 1
                best[c] = 1
                bad[c] = False
                stack.append((c, iter(edges(c))))
                adv = True
                break
            if adv:
                continue
            stack.pop()
            rank[t] = 0 if bad[t] else best[t]
            state[t] = 2
            if stack:
                p = stack[-1][0]
                if rank[t] == 0:
                    bad[p] = True
                else:
                    best[p] = max(best[p], rank[t] + 1)
    return rank


def acyclic_from(ins, tid):
    """is the part of the graph reachable from tid free of cycles"""
    state = {}
    def go(t):
        if state.get(t) == 2:
            return True
        if state.get(t) == 1:
            return False
        state[t] = 1
        for c in children(ins, ins[t]):
            if c >= 0 and not go(c):
                return False
        state[t] = 2
        return True
    return go(tid)


class ObjUnit(Unit):
    def __init__(self, *a):
        super().__init__(*a)
        self.x_path = None
        self.items = set()


def prepare_units(ctx, specs, bins, objdump, jobs=8, need_verifdump=False):
    """Dump the generator's view (IR + facts), write the model input files, generate and build the Go package."""
    units = [ObjUnit(*s) for s in specs]
    dj = []
    for u in units:
        d = ctx.scratch / f"unit_{u.name}"
        d.mkdir(exist_ok=True)
        dj.append((d / "gir.json", u.options, u.files))
    dumps = run_objdump(objdump, ctx.scratch, dj)

    def prep(arg):
        u, (ins, err) = arg
        d = ctx.scratch / f"unit_{u.name}"
        if ins is None:
            u.kernel_rejected = True
            u.error = "generator front end: " + err[-800:]
            return u
        u.ins = ins
        u.ir_path = d / "gir.txt"
        u.x_path = d / "gx.txt"
        try:
            write_ir_file(ins, u.ir_path)
            write_x_file(ins, u.x_path)
        except Exception as e:  # noqa
            u.error = f"ir: {e!r}"
            return u
        if need_verifdump:
            vins, verr = dump_ir(bins["verifdump"], u.files, d / "ir.json", tl2_whitelist=u.whitelist)
            u.vins = vins
            if vins is not None:
                u.vir_path = d / "ir.txt"
                write_ir_file(vins, u.vir_path)
        g = GenPkg(ctx.scratch, u.name, bins["tl2gen"], u.files, u.options, driver_files=DRIVER_FILES)
        if not g.generate():
            u.gen_failed = True
            u.error = "tl2gen: " + g.gen_log[-800:]
            return u
        if not g.build():
            u.error = "go build: " + g.gen_log[-1500:]
            return u
        u.gen = g
        rc, items, err = vlib.run_lines(g.exe, [], ["items"])
        if items and items[0].startswith("ok "):
            u.items = {x.split(",")[0] for x in items[0][3:].split(";") if x}
            u.item_info = {x.split(",")[0]: x.split(",") for x in items[0][3:].split(";") if x}
        return u

    with ThreadPoolExecutor(max_workers=jobs) as ex:
        list(ex.map(prep, zip(units, dumps)))
    return units


def tops_of(u):
    """closed top-level objects the generated factory can create (unions only when TL2 is generated)"""
    return [t for t in toplevel_objects(u.ins) if t[1] in u.items]


F7_SCHEMA = """
int#a8509bda ? = Int;
boolFalse#bc799737 = Bool;
boolTrue#997275b5 = Bool;
tuple#9770768a {t:Type} {n:#} [t] = Tuple t n;
l.cons head:int tail:l.List = l.List;
l.nil = l.List;
f7.top a:(tuple (tuple (tuple (tuple (tuple l.List 1) 1) 1) 1) 1) = f7.Top;
f7.mid a:(tuple (tuple l.List 1) 1) = f7.Mid;
f7.list a:l.List = f7.ListBox;
"""


class Setup:
    pass


def family_setup(ctx, props, family="obj", n_random=6, tl2_random=False, corpus=None, extra_specs=(),
                 which=("tl2gen",), need_verifdump=False, need_objdump=True):
    """T-const, theorems, reference model, tools, schema units (corpus + random)."""
    import randschema
    st = Setup()
    with vlib.Lock():
        st.cres = vlib.run_genconsts()
        st.thm = vlib.check_theorems(props)
        try:
            st.ref, st.ref_err = vlib.build_refmodel(family), None
        except RuntimeError as e:
            st.ref, st.ref_err = None, str(e)
    if need_verifdump and "verifdump" not in which:
        which = tuple(which) + ("verifdump",)
    st.bins, st.berr = build_tools(ctx.scratch, which=which)
    st.objdump, oerr = build_objdump(ctx.scratch) if need_objdump else (None, "")
    if need_objdump and st.objdump is None:
        st.berr = (st.berr or "") + " objdump overlay: " + oerr[-1500:]
    st.units = []
    if not st.berr:
        specs = list(corpus if corpus is not None else repo_corpus(ctx.quick()))
        specs += list(extra_specs)
        if n_random:
            specs += randschema.make_specs(ctx, n_random, tl2=tl2_random)
        st.units = prepare_units(ctx, specs, st.bins, st.objdump, need_verifdump=need_verifdump)
    return st


def generator_side(ue):
    """a RANDOM schema the kernel accepts but whose generated Go package does not generate/build: C14's subject (accepted schemas
    build), listed in the evidence, not a violation of this property"""
    name, e = ue
    return name.startswith("rs") and str(e).startswith(("go build:", "tl2gen:"))


def family_report(ctx, st, props, consts, corr_name, mism, bad, unit_errors, stats, samples, rule, trusted, assumptions, extra=None):
    """violations + evidence, common to the Obj checks.
    bad: (unit, op, go output, sig, text)   mism: (unit, op, model, go)   unit_errors: (unit, text)"""
    pid = ctx.pid
    thm = st.thm
    for name, l, g, sig, what in bad:      # known findings do not use up the report budget of fresh violations
        if len(ctx.violations) >= 40:
            break
        ctx.violation(sig, f"{name}: {what}: {trunc(l, 140)} -> {trunc(g, 140)}", {"unit": name, "op": l, "go": g})
    if not ctx.violations:
        cerr = [f"{n}: {st.cres[n]}" for n in consts if st.cres.get(n)]
        if cerr:
            ctx.violation(f"{pid}:tconst", "translator T-const failed: " + "; ".join(cerr), {"theorem": f"coq/theories/{props}.v", "error": cerr}, no_input=True)
        elif not thm["ok"]:
            ctx.violation(f"{pid}:theorem", f"theorem no longer checks: {thm['failing_at']}",
                          {"theorem_file": thm["props_file"], "failing_at": thm["failing_at"], "log": thm["log_tail"]}, no_input=True)
        if st.berr:
            ctx.violation(f"{pid}:tools", "cannot build tools from /repo: " + trunc(st.berr, 600), {"error": st.berr}, no_input=True)
        if st.ref_err:
            ctx.violation(f"{pid}:model-build", "reference model does not build: " + trunc(st.ref_err, 600), {"error": st.ref_err}, no_input=True)
        for name, e in [x for x in unit_errors if not generator_side(x)][:10]:
            ctx.violation(f"{pid}:unit:{name}", f"schema unit {name}: {trunc(e, 600)}", {"unit": name, "error": e}, no_input=True)
        for name, l, m, g in mism[:30]:
            ctx.violation(f"{pid}:corr:{name}:{trunc(l, 60)}", f"{corr_name} {name}: model and implementation differ on {trunc(l, 140)}: model={trunc(m, 90)} go={trunc(g, 90)}",
                          {"correspondence": corr_name, "unit": name, "op": l, "model": m, "go": g}, no_input=True)
    cov = {
        "obligations": thm["obligations"], "discharged": thm["discharged"],
        "checker_cmd": f"make -f Makefile.coq theories/{props}.vo (coqc 8.16.1, full .vo build, in /verif/coq)",
        "trusted_base": ["Coq 8.16.1 kernel"] + list(trusted) +
                        ["axioms: " + (", ".join(thm["axioms"]) if thm["axioms"] else "none (every theorem closed under the global context)")],
        "theorems": thm["statements"], "assumptions_per_theorem": thm["assumptions"],
        "rule": rule, "stats": stats, "correspondence": corr_name, "correspondence_mismatches": len(mism), "oracle_failures": len(bad),
        "samples": samples or [{"note": "no ops ran"}],
        "constants": {n: ("regenerated from source this run" if not st.cres.get(n) else "FAILED") for n in consts},
        "schemas": [{"name": u.name, "options": u.options, "instances": len(u.ins or []), "error": trunc(u.error, 200) if u.error else None} for u in st.units],
    }
    cov["random_schemas_not_built"] = [{"unit": n, "error": trunc(e, 300)} for n, e in unit_errors if generator_side((n, e))]
    cov.update(extra or {})
    ctx.coverage.update(cov)
    ctx.assumptions += list(assumptions)


# --------------------------------------------------------------------------- C12: the dynamic interpreter (overlay harness)
OTF_PKG = "internal/pure/onthefly"


def build_otf(scratch):
    return vlib.build_overlay_test(OTF_PKG, {"verif_otf_test.go": VERIF / "overlay" / OTF_PKG / "verif_otf_test.go"}, scratch, name="otf")


def run_otf(binary, scratch, load_line, lines, timeout=900, watchdog_ms=4000, max_restarts=25):
    """run ops through the interpreter harness; a process death costs one `crash ...` result and a restart"""
    scratch = Path(scratch)
    scratch.mkdir(exist_ok=True)
    results = []
    restarts = 0
    first = None
    while len(results) < len(lines):
        pos = len(results)
        rc, res, log = vlib.run_overlay_test(binary, "TestVerifOtf", [load_line] + lines[pos:], scratch, timeout=timeout,
                                             extra_env={"VERIF_OTF_WATCHDOG_MS": str(watchdog_ms)})
        if not res or not res[0].startswith("ok"):
            return None, f"interpreter kernel did not load: {res[:1]} {log[-400:]}"
        first = first or res[0]
        got = res[1:][:len(lines) - pos]
        results += got
        if len(results) >= len(lines):
            break
        if not (got and got[-1].startswith("crash")):
            reason = next((l for l in log.splitlines() if l.startswith(("fatal error", "runtime:", "panic"))), f"exit {rc}")
            results.append("crash " + reason[:160])
        restarts += 1
        if restarts > max_restarts:
            results += ["crash too-many-restarts"] * (len(lines) - len(results))
    return results, first
