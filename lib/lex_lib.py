"""Shared by C19 (TL1) and C20 (TL2): input generators, overlay harness runner and the
implementation-side oracle for the lexer/parser totality properties (family Lex)."""
import hashlib
import re
from vlib import *

OVERLAY = VERIF / "overlay" / "internal" / "tlast" / "verif_lex_test.go"


def hx(b):
    return b.hex() if b else "-"


def consts():
    """token type constants as regenerated from tllexer.go (Gen/LexConsts.v)"""
    txt = (COQ / "theories" / "Gen" / "LexConsts.v").read_text()
    d = {}
    for m in re.finditer(r"Definition tk_(\w+?)(_neg)? : N := (\d+)\.", txt):
        d[m.group(1)] = -int(m.group(3)) if m.group(2) else int(m.group(3))
    return d


# --------------------------------------------------------------------------- corpus

def corpus(lang):
    ext = ".tl" if lang == 1 else ".tl2"
    files = sorted(p for p in REPO.rglob("*" + ext) if ".git" not in p.parts)
    texts = []
    seen = set()
    for p in files:
        try:
            b = p.read_bytes()
        except OSError:
            continue
        h = hashlib.sha1(b).digest()
        if h in seen:
            continue
        seen.add(h)
        texts.append(b)
    if lang == 2:
        # TL2 snippets of the parser/lexer tests (string literals), best effort
        for name in ("tlparser_tl2_code_test.go", "tllexer_tl2_test.go"):
            p = REPO / "internal" / "tlast" / name
            if p.exists():
                src = p.read_text(errors="replace")
                for m in re.finditer(r"`([^`]{3,2000})`", src):
                    texts.append(m.group(1).encode())
                for m in re.finditer(r'"((?:[^"\\\n]|\\.){3,400})"', src):
                    s = m.group(1)
                    if any(c in s for c in "=;:<"):
                        texts.append(s.replace("\\n", "\n").replace("\\t", "\t").replace('\\"', '"').encode())
    return texts


def statements(texts):
    """split schema texts after every ';' (keeping what follows up to the end of line)"""
    out = []
    for t in texts:
        for m in re.finditer(rb"[^;]*;[^\n;]*\n?", t):
            s = m.group(0)
            if 2 < len(s) < 1500:
                out.append(s)
    return out


TOK_RE = re.compile(rb"[A-Za-z_][A-Za-z0-9_.]*|#[0-9a-f]*|\d+|---\w+---|//[^\n]*|<=>|=>|[ \t]+|\r?\n|.", re.S)


def pieces(lang):
    common = [b"a", b"B", b"foo", b"Bar", b"ns.foo", b"ns.Bar", b"Ns.foo", b"a1_b", b"x.y.z", b"a.", b".a", b"a.1", b"0", b"1", b"42",
              b"4294967295", b"4294967296", b"99999999999999999999", b"1a", b"0x1", b"#", b"#1a2b3c4d", b"#00000000", b"#ffffffff",
              b"#1A2B3C4D", b"#123", b"#123456789", b"#zz", b"#_", b"---types---", b"---functions---", b"---types--", b"---", b"--", b"-",
              b"---Types---", b"//c", b"// comment\n", b"//\n", b"//\r\n", b"//\xd0\xb0\n", b"//\xff\n", b"//a\xc3", b"/*", b"/", b"/ /",
              b"(", b")", b"[", b"]", b"{", b"}", b"<", b">", b":", b";", b".", b",", b"%", b" ", b"\t", b"=", b"?", b"*", b"+", b"!", b"|",
              b"_", b"_a", b"__", b"_1", b"_A", b"=>", b"<=>", b"<=", b"==>", b"@read", b"@Read", b"@", b"@1", b"@a.b", b"@_", b"\n", b"\r\n",
              b"\r", b"\n\n", b"Type", b"Typ", b"Types", b"Type.a", b"a.Type", b"type", b"\x00", b"\x7f", b"\x80", b"\xff", b"$", b"\"", b"'", b"\\",
              b"~", b"^", b"&", b"`", b"\xd0\xb0", b"\xef\xbb\xbf", b"\x0b", b"\x0c"]
    if lang == 1:
        extra = [b"{t:Type}", b"{n:#}", b"n.0?", b"x:int", b"x:%Foo", b"x:(Vector int)", b"x:Vector<int>", b"3*[int]", b"n*[x:int y:long]", b"[int]",
                 b"= Foo;", b"= Foo t;", b"? = Int;", b"(1+2)", b"x:!X", b"a:n.31?true"]
    else:
        extra = [b"<t:Type>", b"<n:#>", b"x:int", b"x?:int", b"_:int", b"_x:int", b"[]int", b"[3]int", b"[string]int", b"vector<int>", b"pair<int,3>",
                 b"= A | B;", b"| A x:int", b"<=> int;", b"=> int;", b"#1a2b3c4d x:int => int;", b"= ;", b"a = x:int;"]
    return common + extra


def clean_pieces(lang):
    """pieces that lex without error in the given language (so that soups of them reach the parser)"""
    bad = {b"1a", b"0x1", b"#1A2B3C4D", b"#123", b"#123456789", b"#zz", b"#_", b"//\xff\n", b"//a\xc3", b"/*", b"/", b"/ /", b"@Read", b"@", b"@1",
           b"@_", b"\r", b"\x00", b"\x7f", b"\x80", b"\xff", b"$", b"\"", b"'", b"\\", b"~", b"^", b"&", b"`", b"\xd0\xb0", b"\xef\xbb\xbf",
           b"\x0b", b"\x0c", b"Ns.foo", b"_1", b"__"}
    if lang == 1:
        bad |= {b"|", b"_", b"_a", b"_A", b"| A x:int", b"= A | B;"}
    else:
        bad |= {b"(", b")", b"{", b"}", b"!", b"+", b"*", b"%", b"---types---", b"---functions---", b"<n:#>"} | {
            x for x in pieces(lang) if any(c in x for c in b"(){}!+*%")}
    return [x for x in pieces(lang) if x not in bad]


# --------------------------------------------------------------------------- grammar-based valid-ish inputs

def gen_tl1(rng, depth=0):
    lc = ["a", "foo", "int", "ns.item", "vector", "b2", "x_y"]
    uc = ["A", "Foo", "Int", "ns.Item", "Vector", "T"]
    var = ["x", "n", "t", "f1", "X"]

    def typ(d):
        r = rng.random()
        if d > 3 or r < 0.3:
            return rng.choice(lc + uc + ["#", "%" + rng.choice(uc)])
        if r < 0.5:
            return "(" + rng.choice(lc + uc) + "".join(" " + arg(d + 1) for _ in range(rng.randrange(0, 3))) + ")"
        if r < 0.65:
            return rng.choice(lc + uc) + "<" + ",".join(arg(d + 1) for _ in range(rng.randrange(1, 3))) + ">"
        if r < 0.8:
            return rng.choice(["", "n*", "3*", "(1+2)*"]) + "[" + " ".join(field(d + 1) for _ in range(rng.randrange(0, 3))) + "]"
        return "%(" + rng.choice(uc) + " " + arg(d + 1) + ")"

    def arg(d):
        return rng.choice([typ(d), str(rng.randrange(0, 40)), "(" + str(rng.randrange(5)) + "+" + str(rng.randrange(5)) + ")", rng.choice(var)])

    def field(d):
        s = ""
        if rng.random() < 0.8:
            s += rng.choice(var + lc[:3]) + ":"
        if rng.random() < 0.3:
            s += rng.choice(var) + "." + str(rng.randrange(0, 33)) + "?"
        if rng.random() < 0.1:
            s += "!"
        return s + typ(d)

    out = ""
    for _ in range(rng.randrange(0, 2)):
        out += "@" + rng.choice(["read", "any", "kphp", "write"]) + " "
    out += rng.choice(lc)
    if rng.random() < 0.5:
        out += "#%08x" % rng.getrandbits(32)
    for _ in range(rng.randrange(0, 3)):
        out += " {" + rng.choice(var) + ":" + rng.choice(["Type", "#"]) + "}"
    sep = rng.choice([" ", "\n    ", "  "])
    for _ in range(rng.randrange(0, 5)):
        out += sep + field(0)
    if rng.random() < 0.2:
        out += " = " + typ(0) + ";" if rng.random() < 0.5 else " => " + typ(0) + ";"
    else:
        out += " = " + rng.choice(uc) + "".join(" " + rng.choice(var) for _ in range(rng.randrange(0, 3))) + ";"
    if rng.random() < 0.3:
        out += " // " + rng.choice(["c", "комментарий", "x y z"])
    return out + "\n"


def gen_tl2(rng):
    names = ["a", "foo", "int", "ns.item", "vector", "Foo", "ns.Item", "string"]
    var = ["x", "n", "t", "f1", "X", "_", "_old"]

    def typ(d):
        r = rng.random()
        if d > 3 or r < 0.4:
            return rng.choice(names)
        if r < 0.6:
            return rng.choice(names) + "<" + ",".join(rng.choice([typ(d + 1), str(rng.randrange(100))]) for _ in range(rng.randrange(1, 3))) + ">"
        if r < 0.8:
            return "[" + rng.choice(["", str(rng.randrange(10)), typ(d + 1), "n"]) + "]" + typ(d + 1)
        return rng.choice(names)

    def field():
        n = rng.choice(var)
        return n + ("?" if rng.random() < (0.02 if n.startswith("_") else 0.2) else "") + ":" + typ(0)

    out = ""
    for _ in range(rng.randrange(0, 2)):
        out += "@" + rng.choice(["read", "any", "write"]) + " "
    out += rng.choice(names)
    r = rng.random()
    if r < 0.3:  # function
        out += "#%08x" % (rng.getrandbits(32) | 1)
        for _ in range(rng.randrange(0, 4)):
            out += " " + field()
        out += " => " + rng.choice([typ(0), "<=> " + typ(0), " ".join(field() for _ in range(rng.randrange(1, 3)))]) + ";"
    else:
        if rng.random() < 0.4:
            out += "#%08x" % rng.getrandbits(32)
        if rng.random() < 0.3:
            out += "<" + ",".join(rng.choice(["t", "n", "T"]) + ":" + rng.choice(["Type", "#"]) for _ in range(rng.randrange(1, 3))) + ">"
        r2 = rng.random()
        if r2 < 0.2:
            out += " <=> " + typ(0) + ";"
        elif r2 < 0.5:
            vs = []
            for _ in range(rng.randrange(1, 4)):
                v = rng.choice(["A", "B", "c", "Type"])
                r3 = rng.random()
                if r3 < 0.3:
                    v += " " + typ(0)
                elif r3 < 0.7:
                    v += "".join(" " + field() for _ in range(rng.randrange(1, 3)))
                vs.append(v)
            out += " = " + ("| " if rng.random() < 0.5 else "") + rng.choice([" | ", "\n  | "]).join(vs) + ";"
        else:
            out += " =" + "".join(rng.choice([" ", "\n    "]) + field() for _ in range(rng.randrange(0, 5))) + ";"
    if rng.random() < 0.3:
        out += " // c"
    return out + "\n"


def mutate(rng, text, pcs):
    toks = TOK_RE.findall(text)
    if not toks:
        return text
    for _ in range(rng.choice([1, 1, 1, 2, 3])):
        r = rng.random()
        i = rng.randrange(len(toks))
        if r < 0.22:
            del toks[i]
        elif r < 0.38:
            toks.insert(i, toks[i])
        elif r < 0.54:
            j = rng.randrange(len(toks))
            toks[i], toks[j] = toks[j], toks[i]
        elif r < 0.72:
            toks[i] = rng.choice(pcs)
        elif r < 0.88:
            toks.insert(i, rng.choice(pcs))
        else:
            b = bytearray(toks[i])
            if b:
                b[rng.randrange(len(b))] = rng.getrandbits(8)
            toks[i] = bytes(b)
        if not toks:
            break
    return b"".join(toks)


# --------------------------------------------------------------------------- systematic parser-entry products

TL1_CLASSES = [b"a", b"A", b"n.a", b"n.A", b"1", b"99999999999", b"#", b"#1a2b3c4d", b"(", b")", b"[", b"]", b"{", b"}", b"<", b">",
               b":", b";", b".", b",", b"%", b"=", b"=>", b"?", b"*", b"+", b"!", b"@a", b"---types---", b"---functions---",
               b"//c\n", b"-", b"Type", b""]
TL1_SECOND = [b"a", b"A", b"1", b"#", b"(", b")", b"[", b"]", b"<", b">", b":", b";", b".", b",", b"%", b"=", b"?", b"*", b"+", b""]
TL1_SECOND_QUICK = [b"a", b"A", b"1", b"#", b"(", b")", b"[", b"<", b":", b";", b"+", b""]
TL1_CONTEXTS = [b"", b"@a ", b"a ", b"a#1a2b3c4d ", b"a {", b"a {t", b"a {t:", b"a {t:Type", b"a {t:Type} ", b"a x:", b"a x:n", b"a x:n.",
                b"a x:n.1", b"a x:n.1? ", b"a x:! ", b"a x:% ", b"a x:( ", b"a x:(A ", b"a x:(A b ", b"a x:A< ", b"a x:A<b ", b"a x:A<b, ",
                b"a x:[ ", b"a x:[y:int ", b"a x:n* ", b"a x:n*[ ", b"a x:1* ", b"a x:( 1 ", b"a x:( 1 + ", b"a x:1 + ", b"a x:1 + ( ",
                b"a x:(A 1 + ", b"a x:A<1 + ", b"a = ", b"a = A ", b"a = A x ", b"a => ", b"a => A ", b"a => A 1 + ",
                b"---functions---\na = ", b"---functions---\na = A ", b"a ? ", b"a ? = ", b"a = A; ", b"a x:int ", b"a int "]

TL2_CLASSES = [b"a", b"A", b"n.a", b"n.A", b"1", b"99999999999", b"#", b"#1a2b3c4d", b"#00000000", b"[", b"]", b"<", b">", b":", b";", b".",
               b",", b"=", b"=>", b"<=>", b"?", b"|", b"_", b"_a", b"@a", b"Type", b"//c\n", b"-", b""]
TL2_SECOND = [b"a", b"A", b"n.a", b"1", b"#", b"#1a2b3c4d", b"[", b"]", b"<", b">", b":", b";", b",", b"=", b"=>", b"<=>", b"?", b"|", b"_", b"Type", b""]
TL2_SECOND_QUICK = [b"a", b"1", b"#1a2b3c4d", b"[", b"]", b"<", b">", b":", b";", b",", b"=", b"|", b"?", b""]
TL2_CONTEXTS = [b"", b"@a ", b"a ", b"a#1a2b3c4d ", b"a#00000000 ", b"a<", b"a<t", b"a<t:", b"a<t:Type", b"a<t:Type,", b"a<t:#>", b"a<t:Type> ",
                b"a = ", b"a <=> ", b"a = x", b"a = x?", b"a = x:", b"a = x: v<", b"a = x:v<1", b"a = x:v<1,", b"a = x:v<int", b"a = x:[",
                b"a = x:[1", b"a = x:[1]", b"a = x:[int]", b"a = | ", b"a = A ", b"a = A | ", b"a = A x:int | ", b"a = A int ", b"a = A x",
                b"a = | A x:int ", b"a#1a2b3c4d x:int ", b"a#1a2b3c4d => ", b"a#1a2b3c4d => <=> ", b"a#1a2b3c4d => x:int ", b"a#1a2b3c4d => A | ",
                b"a = _", b"a = _x:", b"a = _?", b"a = x:int ", b"a = x:int; ", b"a <=> v<", b"a <=> [", b"a = x:int // c\n"]


def entry_products(rng, lang, quick):
    """entry context x next two token classes: every parse function is entered with every class of first token"""
    ctxs, c1, c2 = (TL1_CONTEXTS, TL1_CLASSES, TL1_SECOND) if lang == 1 else (TL2_CONTEXTS, TL2_CLASSES, TL2_SECOND)
    if quick:
        c2 = [x for x in c2 if x in (TL1_SECOND_QUICK if lang == 1 else TL2_SECOND_QUICK)]
    else:
        c2 = c1
    out = []
    for ctx in ctxs:
        for a in c1:
            for b in c2:
                out.append(ctx + a + (b" " if a and b else b"") + b)
    return out


def arith_inputs(rng, lang, quick):
    """numbers, '+' and parentheses (TL1) / numeric type arguments (TL2) in every position that parses them"""
    out = []
    if lang == 1:
        frames = [(b"a x:", b"*[int] = A;"), (b"a x:(Tuple int ", b") = A;"), (b"a x:Vector<", b"> = A;"), (b"---functions---\nf = Foo ", b";"),
                  (b"a ", b" = A;"), (b"a {t:Type} x:(T ", b" t) = A;"), (b"a x:%(Tuple int ", b") = A;"), (b"a x:n.0?", b"*[int] = A;"),
                  (b"a x:[y:", b"*[int]] = A;"), (b"a => (Foo ", b");"), (b"a x:", b"")]
        alpha = [b"1", b"+", b"(", b")", b"b", b"%", b"#", b"B", b"2147483648", b"4294967295", b"[", b"*"]
    else:
        frames = [(b"a = x:v<", b">;"), (b"a = x:[", b"]int;"), (b"a <=> v<", b">;"), (b"a#1a2b3c4d x:v<", b"> => int;"), (b"a = A v<", b"> | B;"),
                  (b"a = x:", b";"), (b"a = x:v<", b"")]
        alpha = [b"1", b",", b"<", b">", b"[", b"]", b"int", b"n.a", b"99999999999", b"Type", b"#", b"?"]
    core = alpha[:7] if quick else alpha[:9]
    seqs = [()]
    for n_ in (1, 2, 3):
        seqs += [tuple(x) for x in __import__("itertools").product(core, repeat=n_)]
    for pre, post in frames:
        for sq in seqs:
            out.append(pre + b" ".join(sq) + post)
    def expr(d):
        r = rng.random()
        if d > 3 or r < 0.35:
            return [str(rng.choice([0, 1, 2, 7, 2147483647, 4294967294, 4294967295])).encode()]
        if r < 0.6:
            return [b"("] + expr(d + 1) + [b")"]
        return expr(d + 1) + [b"+"] + expr(d + 1)
    for _ in range(1200 if quick else 12000):
        pre, post = rng.choice(frames)
        if lang == 1:
            e = expr(0)
            r = rng.random()
            if r < 0.6:      # one token replaced by a non-number / other token
                e[rng.randrange(len(e))] = rng.choice(alpha + [b"", b"x.y", b"//c\n", b";", b"="])
            elif r < 0.75:   # one token dropped
                del e[rng.randrange(len(e))]
            elif r < 0.85:   # truncated
                e = e[:rng.randrange(len(e) + 1)]
                post = b""
        else:
            e = [rng.choice(alpha) for _ in range(rng.randrange(1, 8))]
        out.append(pre + rng.choice([b" ", b""]).join(e) + post)
    return out



def gen_inputs(ctx, lang):
    """list of (kind, text bytes, builtin, dirty)"""
    rng = ctx.rng
    quick = ctx.quick()
    scale = 1 if quick else 8
    res = []

    def optflags():
        if lang == 2:
            return rng.choice([(0, 0), (0, 0), (0, 0), (1, 0), (0, 1)])
        return rng.choice([(0, 0), (0, 0), (0, 0), (1, 0), (0, 1), (1, 1)])

    def add(kind, text, flags=None):
        b, d = flags if flags else optflags()
        res.append((kind, bytes(text), b, d))

    pcs = pieces(lang)
    alphabet = sorted(set(b"".join(pcs))) + [0x80, 0xbf, 0xc2, 0xe0, 0xf0]
    # exhaustive small inputs: every byte, every pair over the lexer's alphabet, triples over a core alphabet
    add("empty", b"", (0, 0))
    for c in range(256):
        for fl in ((0, 0), (1, 0), (0, 1)):
            add("byte", bytes([c]), fl)
    core = b"a_A1#.-/=<>@\r\n: ;|T"
    for a in alphabet:
        for b2 in core:
            add("pair", bytes([a, b2]), (0, 0))
            add("pair", bytes([b2, a]), (rng.randrange(2), rng.randrange(2)))
    tri = b"a.A_1#/\n\r<=>-"
    for a in tri:
        for b2 in tri:
            for c in tri:
                add("triple", bytes([a, b2, c]), (0, 0))
    for t in entry_products(rng, lang, quick):
        add("entry-product", t, (0, 0))
    for t in arith_inputs(rng, lang, quick):
        add("arith", t)
    # random bytes
    for _ in range(1000 * scale):
        n = rng.choice([1, 2, 3, 4, 5, 8, 13, 21, 40, 64])
        add("random-bytes", bytes(rng.getrandbits(8) for _ in range(n)))
    for _ in range(1000 * scale):
        n = rng.randrange(1, 60)
        add("alphabet-bytes", bytes(rng.choice(alphabet) for _ in range(n)))
    # token soups
    for _ in range(2500 * scale):
        n = rng.randrange(1, 25)
        sep = rng.choice([b"", b"", b" ", b"\n"])
        add("token-soup", sep.join(rng.choice(pcs) for _ in range(n)))
    cpcs = clean_pieces(lang)
    for _ in range(2500 * scale):
        n = rng.randrange(1, 25)
        sep = rng.choice([b" ", b" ", b"\n", b""])
        add("clean-token-soup", sep.join(rng.choice(cpcs) for _ in range(n)), (0, 0))
    # grammar-generated declarations and their mutations
    gen = gen_tl1 if lang == 1 else gen_tl2
    for _ in range(1500 * scale):
        t = "".join(gen(rng) for _ in range(rng.randrange(1, 4)))
        if lang == 1 and rng.random() < 0.3:
            t = rng.choice(["---types---\n", "---functions---\n", "---types---\n---functions---\n"]) + t
        add("generated", t.encode())
    for _ in range(2000 * scale):
        t = "".join(gen(rng) for _ in range(rng.randrange(1, 3))).encode()
        add("generated-mutated", mutate(rng, t, pcs))
    for _ in range(60 * scale):
        t = gen(rng).encode()
        pos = 0
        for tok in TOK_RE.findall(t):
            pos += len(tok)
            if tok.strip():
                add("truncated-at-token", t[:pos], (0, 0))
    # repository schemas: whole small files, statement groups, mutations, truncations, CRLF
    texts = corpus(lang)
    stm = statements(texts)
    ctx.notes[f"corpus_tl{lang}"] = f"{len(texts)} texts, {len(stm)} statements"
    for t in texts:
        if len(t) <= (20000 if quick else 200000):
            add("repo-file", t, (0, 0))
            add("repo-file", t, (1, 0))
            add("repo-file-crlf", t.replace(b"\n", b"\r\n"), (0, 0))
    if stm:
        for _ in range(2500 * scale):
            i = rng.randrange(len(stm))
            k = rng.randrange(1, 4)
            add("repo-statements", b"".join(stm[i:i + k]))
        for _ in range(3000 * scale):
            i = rng.randrange(len(stm))
            k = rng.choice([1, 1, 2, 3])
            add("repo-mutated", mutate(rng, b"".join(stm[i:i + k]), pcs))
        small = [s for s in stm if len(s) <= 140]
        rng.shuffle(small)
        for s in small[:(25 if quick else 150)]:
            for k in range(len(s)):
                add("truncated", s[:k], (0, 0))
            for k in range(1, len(s), 3):
                add("suffix", s[k:], (0, 0))
        # cut after every token of larger statements (end of input in every parser state)
        mid = [s for s in stm if 20 <= len(s) <= 500]
        rng.shuffle(mid)
        for s in mid[:(60 if quick else 400)]:
            pos = 0
            for tok in TOK_RE.findall(s):
                pos += len(tok)
                if tok.strip():
                    add("truncated-at-token", s[:pos], (0, 0))
        for _ in range(600 * scale):
            s = b"".join(stm[rng.randrange(len(stm)):][:rng.randrange(1, 3)])
            r = rng.random()
            if r < 0.4:
                s = s.replace(b"\n", b"\r\n")
            elif r < 0.7:
                s = s.replace(b"\n", b"\r")
            else:
                s = bytes(c for ch in s for c in ((13, 10) if ch == 10 and rng.random() < 0.5 else (ch,)))
            add("crlf", s)
    # non-UTF-8 / UTF-8 boundary cases inside comments
    b1s = [0x00, 0x0a, 0x41, 0x7f, 0x80, 0x8f, 0x90, 0x9f, 0xa0, 0xbf, 0xc0, 0xff]
    for b0 in range(0x80, 0x100):
        for b1 in b1s:
            tail = rng.choice([b"", b"\x80", b"\x80\x80", b"\xbf\xbf\n", b"\n", b"\r\n", b"a"])
            add("utf8-comment", b"//" + bytes([b0, b1]) + tail, (0, 0))
    for _ in range(800 * scale):
        n = rng.randrange(1, 12)
        body = bytes(rng.choice([rng.randrange(0x80, 0x100), rng.randrange(0x80, 0xc0), rng.choice(b"ab \t"), 0xe2, 0x82, 0xac, 0xf0, 0x9f]) for _ in range(n))
        add("utf8-comment", rng.choice([b"", b"a ", b"x:int "]) + b"//" + body + rng.choice([b"", b"\n", b"\r\n", b"\r", b"\nb"]))
    # deep nesting
    depths = [1, 2, 10, 100, 1000] + ([5000] if quick else [5000, 20000])
    for k in depths:
        if lang == 1:
            forms = [b"a = " + b"(" * k + b"b" + b")" * k + b";", b"a x:" + b"(" * k + b"b" + b")" * k + b" = A;", b"a x:" + b"(" * k + b"b",
                     b"a x:" + b"[" * k + b"int" + b"]" * k + b" = A;", b"a x:" + b"[" * k, b"a x:" + b"3*[" * k + b"int" + b"]" * k + b" = A;",
                     b"a x:" + b"b<" * k + b"c" + b">" * k + b" = A;", b"a x:" + b"b<" * k, b"a x:" + b"%(B " * k + b"c" + b")" * k + b" = A;",
                     b"a x:" + b"(" * k + b"1" + b")" * k + b"*[int] = A;", b"a x:(" + b"1+" * k + b"1)*[int] = A;", b"a x:" + b"(b " * k,
                     b"a " + b"{t:Type} " * k + b"= A;", b"a " + b"x:n.0?" * k + b"int = A;", b"a = A " + b"x " * k + b";"]
        else:
            forms = [b"a = x:" + b"[" * k + b"]" * k + b"int;", b"a = x:" + b"[]" * k + b"int;", b"a = x:" + b"[" * k, b"a = x:" + b"[[]" * k,
                     b"a = x:" + b"v<" * k + b"int" + b">" * k + b";", b"a = x:" + b"v<" * k, b"a = " + b" | ".join([b"A x:int"] * (k + 1)) + b";",
                     b"a = " + b"x:int " * k + b";", b"a<" + b"t:Type," * k + b"n:#> = x:t;", b"a#00000001 " + b"x:int " * k + b"=> int;",
                     b"a = x:" + b"[v<" * k + b"3" + b">]" * k + b"int;", b"@a " * k + b"a = ;", b"a <=> " + b"[" * k + b"3" + b"]" * k + b"int;"]
        for f in forms:
            add("deep-nesting", f, (0, 0))
    # very long lines / tokens
    L = 30000 if quick else 200000
    longs = [b"a" * L, b"//" + b"x" * L, b" " * L + b"a", b"1" * L, b"#" + b"a" * L, b"a.b" * (L // 3), b"a " * (L // 4), b"\t" * L,
             b"//" + "я".encode() * (L // 2), b"//" + "я".encode() * (L // 2) + b"\xff", b"@" + b"a" * L, b"_" + b"a" * L, b"-" * L,
             b"a = " + b"x:int " * (L // 12) + b";", b"a" * L + b".b" + b"c" * L, b"\n" * (L // 4), b"\r\n" * (L // 8), b"a;" * (L // 8)]
    for t in longs:
        add("long-line", t, (0, 0))
    return res


def gen_ops(ctx, lang):
    ops = []
    for kind, text, b, d in gen_inputs(ctx, lang):
        ops.append((f"tl {lang} {b} {d} {hx(text)}", kind, text))
    return ops


# --------------------------------------------------------------------------- implementation side

def go_runner(ctx, lines):
    binary, err = build_overlay_test("internal/tlast", {"verif_lex_test.go": OVERLAY}, ctx.scratch, name=f"lex_{ctx.pid}")
    if not binary:
        return None, err
    rc, out, log_ = run_overlay_test(binary, "TestVerifLex", lines, ctx.scratch)
    if rc != 0:
        return None, f"overlay test exit {rc}: {log_[-1500:]}"
    lex, parse = [], []
    for l in out:
        a, sep, b = l.partition(" || ")
        lex.append(a)
        parse.append(b)
    ctx.lex_parse = parse
    return lex, ""


def ppos(s):
    a = s.split(".")
    return {"line": int(a[0]), "col": int(a[1]), "slo": int(a[2]), "off": int(a[3])}


def fields(s):
    d = {}
    for w in s.split(" ")[1:]:
        k, _, v = w.partition("=")
        d[k] = v
    return d


def pos_consistent(text, p):
    """position p names offset p.off of text with the right line / line start / column"""
    if not (0 <= p["off"] <= len(text)):
        return False
    return (p["line"] == 1 + text.count(b"\n", 0, p["off"]) and p["slo"] == text.rfind(b"\n", 0, p["off"]) + 1
            and p["col"] == p["off"] - p["slo"] + 1)


def check_one(cs, text, lexo, parseo):
    """Returns None or (class, detail).  Everything is evaluated on Go's own outputs."""
    n = len(text)
    if lexo.startswith("panic"):
        return ("lexer-panic", lexo)
    st = lexo.split(" ")[0]
    f = fields(lexo)
    if f.get("vok") != "1":
        return ("token-val-not-substring", lexo[:200])
    if f.get("rec") != "1":
        return ("recombine", lexo[:200])
    toks = [] if f["T"] == "-" else [tuple(int(x) for x in t.split(",")) for t in f["T"].split(";") if t]
    off = 0
    offs = set()
    for i, (ty, ln, line, col, slo, o) in enumerate(toks):
        if o != off:
            return ("token-offset", f"token {i} offset {o} expected {off}")
        if ln == 0 and not (ty == cs["eof"] and i == len(toks) - 1):
            return ("empty-token", f"token {i} type {ty}")
        if o + ln > n:
            return ("token-beyond-end", f"token {i}")
        if not pos_consistent(text, {"line": line, "col": col, "slo": slo, "off": o}):
            return ("token-line-col", f"token {i}: {line}:{col} slo={slo} off={o}")
        offs.add(o)
        off += ln
    if st == "ok":
        if not toks or toks[-1][0] != cs["eof"] or off != n or f["rest"] != "0" or f["n"] != f["all"]:
            return ("lexer-ok-shape", lexo[:200])
    if f["E"] != "-":
        e = f["E"].split("@")
        if len(e) != 5 or e[4] != "0":
            return ("lexer-error-corrupted", f["E"])
        o_, b_, e_ = ppos(e[1]), ppos(e[2]), ppos(e[3])
        if not (0 <= b_["off"] <= e_["off"] <= n and pos_consistent(text, b_) and pos_consistent(text, o_)):
            return ("lexer-error-position", f["E"])
    if st == "err" and f["E"] == "-":
        return ("lexer-error-shape", lexo[:200])
    if f.get("F") == "panic":
        return ("tokenizer-invariant-panic", parseo[:200])
    if (st == "err") != (f.get("F") == "tokerr"):
        return ("tokenizer-error-not-propagated", f"lexer {st}, parser front {f.get('F')}: {parseo[:160]}")
    # parser part
    if parseo.startswith("P=panic"):
        msg = bytes.fromhex(parseo.split(":", 1)[1]).decode(errors="replace")
        return ("parser-panic", msg)
    if parseo == "P=ok":
        return None
    if not parseo.startswith("P=err"):
        return ("harness-output", parseo[:200])
    g = fields(parseo)
    if g.get("pe") != "1":
        return ("error-without-position", parseo[:200])
    if g["cp"] != "ok":
        return ("consoleprint-panic", parseo[:300])
    if g["es"] != "ok":
        return ("error-string-panic", parseo[:200])
    o_, b_, e_ = ppos(g["o"]), ppos(g["b"]), ppos(g["e"])
    if g["fc"] != "1":
        return ("error-position-other-file", parseo[:200])
    if not (0 <= b_["off"] <= e_["off"] <= n):
        return ("error-offset-out-of-range", f"begin {b_['off']} end {e_['off']} len {n}")
    if not (0 <= o_["off"] <= b_["off"] and o_["slo"] <= b_["slo"] <= e_["slo"] <= e_["off"] and b_["slo"] <= b_["off"]):
        return ("error-range-inconsistent", parseo[:200])
    if not (pos_consistent(text, b_) and pos_consistent(text, o_)):
        return ("error-line-col", parseo[:200])
    if not (e_["slo"] == b_["slo"] and e_["line"] == b_["line"] and e_["col"] - b_["col"] == e_["off"] - b_["off"]):
        return ("error-end-inconsistent", parseo[:200])
    if g["cor"] != "0":
        return ("consoleprint-corrupted", parseo[:200])
    if st == "ok" and (b_["off"] not in offs or o_["off"] not in offs):
        return ("error-not-at-token", f"begin {b_['off']} outer {o_['off']}")
    if st == "err":
        e = f["E"].split("@")
        if (e[1], e[2], e[3]) != (g["o"], g["b"], g["e"]):
            return ("tokenizer-error-position-changed", f"{f['E']} vs {parseo[:160]}")
    return None


def oracle(ctx, ops, go_out):
    cs = consts()
    bad = []
    parse = getattr(ctx, "lex_parse", [])
    verd = {}
    for i, ((op, kind, text), lexo) in enumerate(zip(ops, go_out)):
        po = parse[i] if i < len(parse) else "missing"
        try:
            r = check_one(cs, text, lexo, po)
        except Exception as e:  # malformed harness output is a failure of the check, not of the property
            r = ("harness-output", repr(e) + " " + lexo[:100])
        v = po.split(" ")[0].split(":")[0]
        verd[v] = verd.get(v, 0) + 1
        if r:
            cls, detail = r
            sig = f"{ctx.pid}:{cls}" + (":" + detail[:60] if cls in ("parser-panic", "consoleprint-panic") else "")
            bad.append((op, f"{kind}/{cls}: {detail}", lexo[:120] + " || " + po[:200], sig))
    ctx.notes["parser_verdicts"] = verd
    return bad


def run_check(ctx, lang, props, family="lex"):
    pid = ctx.pid
    which = "ParseTLFile (TL1)" if lang == 1 else "ParseTL2File (TL2)"
    standard_run(
        ctx, props=props, family=family, consts=["Lex"], go_runner=go_runner,
        gen_ops=lambda c: gen_ops(c, lang), oracle=oracle, corr_name=f"corr:{pid}:lex",
        trusted=["translator tools/genconsts (go/parser; token-type and character constants, section strings of internal/tlast/tllexer.go)",
                 "overlay harness overlay/internal/tlast/verif_lex_test.go and the comparison/oracle in lib/lex_lib.py",
                 "transcription of unicode/utf8.DecodeRuneInString (Go 1.24 standard library) in LexModel.decodeRune"],
        assumptions=["64-bit platform (int = 64 bit): positions do not overflow",
                     "Go code is modelled, not verified: the lexer model and the control-flow model of the " + which + " parser "
                     "(Lex/LexParse%dModel.v) agree with internal/tlast on every input of the op kinds listed here "
                     "(tokens with positions, tokenizer error, parser verdict, error class, outer/begin/end positions)" % lang,
                     "AST construction" + (" and Combinator.crc32()" if lang == 1 else "") + " are outside the model: covered by the "
                     "implementation-side oracle only (recover(), error offsets, ConsolePrint / Error() do not panic)"],
        rule="inputs generated from VERIF_SEED; each is lexed and parsed by internal/tlast (rebuilt from /repo with the add-only overlay) "
             "and lexed + parsed by the extracted Coq models; distinct = distinct (options, text) pairs")
