ENGINES = [
    {"name": "coq+corr", "path": "/verif/coq, /verif/ocaml, /verif/harness, /verif/lib",
     "serves_properties": [],
     "kind_free_text": "Coq 8.16.1 theorems about executable Gallina models; models extracted to OCaml and run against the Go code rebuilt from /repo on the same operations (correspondence); constants regenerated from source by tools/genconsts"},
]

ALL = ["C%02d" % i for i in range(1, 44)]

CHECKS = [
    {"id": "C33",
     "technique": "Coq proof (round-trip, canonicity, truncation theorems over regenerated constants) + extracted-model/Go differential correspondence",
     "text": "17 closed Coq theorems over all lengths/contents (string round trip for every length < 2^56, canonicity of the reader, EOF on every proper prefix, TL2 size and bit-vector laws); model tied to pkg/basictl by regenerated constants and by running both on ~85k operations per quick run, plus the property evaluated on Go's own outputs",
     "note": "Trusted: Coq kernel, tools/genconsts, extraction (ExtrOcamlBasic only), OCaml/Go drivers, comparison script. Go code is modelled by hand; agreement shown only on the enumerated operations. 64-bit int assumed. No axioms."},
]

CHECKS += [
    {"id": "C37",
     "technique": "Coq proof (set-exactness + representation invariant by induction over the operation list; header soundness and bounds) + extracted-model/Go differential correspondence through an in-package overlay test",
     "text": "18 closed Coq theorems over all AddAckRange histories with from<=to<2^32-1 (set = union of recorded ranges; prefix + sorted/disjoint/non-adjacent ranges in every reachable state; BuildAck acknowledges only members, BuildNegativeAck requests only non-members, both within MaxAckSet; completeness when untruncated; refutation witnesses for ackTo=2^32-1). Model tied to pkg/rpc/udp/acks.go by regenerated MaxAckSet and by running the real AcksToSend and the extracted model on ~1.9M histories per quick run (exhaustive <=4 ranges over 0..7, random on 0..60, truncation cases, near 2^32-2), plus a set-semantics oracle on Go's own dumps.",
     "note": "Trusted: Coq kernel, tools/genconsts, extraction (ExtrOcamlBasic only), OCaml driver, overlay harness, comparison/oracle script. Go code modelled by hand; agreement shown only on the enumerated histories. uint32 wrap modelled explicitly; ackTo=2^32-1 and from>to excluded (exclusion shown necessary by refuted theorems). No axioms."},
]

CHECKS += [
    {"id": "C01",
     "technique": "Coq proof (TL1 round trip for every well-formed schema IR, type, nat environment and value, by nested induction) + schema IR dumped from the real kernel on every run (translator) + extracted-model vs freshly generated Go code correspondence",
     "text": "Closed Coq theorems over a generic schema-IR model of the generated TL1 readers/writers (structs with local/external field masks, nat parameters, unions, vectors/tuples with the length-sanity option, map-backed dictionaries): enc1 v = Some b -> dec1 (b ++ rest) = Ok (v, rest) for every wf schema and every value, bare and boxed; length mismatches are write errors; F6 recorded as a refuted statement for the default sanity option. Tie: the IR is dumped from the kernel by an add-only overlay tool for repository schemas (3-4 generator option sets) and random schemas; wf_schema is evaluated on each dump; model-generated and FillRandom-generated values are read and re-written by the freshly generated Go package and by the extracted model (>10k values per quick run).",
     "note": "Trusted: Coq kernel, verifdump translator + IR writer, genconsts, extraction (ExtrOcamlBasic only), OCaml/Go drivers, comparison script. The templates are modelled by hand; agreement is shown on the enumerated schemas/values. Kernel resolution is trusted for the dumped IR. Wrong-length values are covered by theorem only (not yet built through JSON on the Go side). No axioms. Known finding F6."},
    {"id": "C42",
     "technique": "Coq proof over a sequential-history model of semaphore.Weighted (one step per critical section, induction over all histories) + correspondence with the real semaphore driven with real goroutines and deterministic stepping through an in-package overlay harness + race-detector/monitor run on concurrent mixes",
     "text": "For every history of Acquire/TryAcquire/Release/ForceAcquire/SetSize/cancel: non-forced admissions satisfy cur+n<=size when decided, cur equals admitted+forced-released, nobody barges past the queue, and the head of the queue is never left fitting in a quiescent state (refuted for weight 0 with the old cancel guard: F4, repaired in /repo; refuted for callers parked in the n>size branch after SetSize: F13 known). ~295k exhaustive/random sequential histories per quick run compared step by step with the extracted model; 30 concurrent mixes under -race checked by a monitor.",
     "note": "sync.Mutex atomicity and channel happens-before are assumed (partial w.r.t. the Go runtime). Theorems assume values < 2^62 and no panics. Liveness is stated as a safety invariant on quiescent states. Concurrent mixes are supporting evidence only. WaitEmpty is not covered."},
]

CHECKS += [
    {"id": "C41",
     "technique": "Coq proof (refinement over all operation histories) about an executable model + T-const (new-node height read from the source) + correspondence of the extracted model with the real package through an in-package overlay test",
     "text": "For every operation history the AVL tree map of internal/vkgo/pkg/algo refines a sorted association list (Get/Set/Delete/GetPtr/Front/Back/Empty/LenMoreThan1, BST order, no panic) and keeps the AVL balance invariant (strict AVL with exact cached heights for new-node height 1, the repaired code; the looser invariant and the refutation for height 0 are kept, F10 fixed in /repo). The circular slice refines a FIFO list with indexing, Reserve, Clear, Swap, DeepAssign; its internal panics are unreachable and unused slots are zeroed; complete index bounds checking is refuted with a concrete history (F15 known). 354k histories (all short ones) per quick run compared token by token.",
     "note": "Keys are integers ordered by < (the only in-repo instantiation is uint32). Go code is modelled, not verified: model = code is established on the enumerated histories. No axioms."},
]

CHECKS += [
    {"id": "C34",
     "technique": "Coq proof over an executable model (transcription of the JSON primitive writers and their read-back) + T-const (safeSet, hex, base64 markers) + correspondence of the extracted model with pkg/basictl and freshly generated Json2Read* helpers",
     "text": "For every byte string, JSONWriteString/JSONWriteStringBytes emit a valid RFC 8259 UTF-8 JSON text (recogniser defined in Coq); valid UTF-8 input is one string token that the RFC 8259 unescaper decodes to the same bytes, anything else is {\"base64\":...} whose standard padded base64 decodes to the same bytes. Decimal integer writers are inverted exactly by the readers for uint8/uint32/uint64/int32/int64 and out-of-range text is rejected. NaN/+-Inf are written as the documented strings and read back as canonical NaN/+-Inf. ~158k ops per quick run (all strings of length <= 2 exhaustively).",
     "note": "Partial for finite floats: bit-exact round trip and JSON validity are proved only under hypotheses about strconv.AppendFloat('f',-1)/ParseFloat (theorems *_partial); these are validated, not proved, on >=54k structured and random bit patterns per run. Go stdlib pieces (utf8, base64, strconv integers) and the easyjson lexer are modelled by semantics and tied by the correspondence run. No axioms."},
]

CHECKS += [
    {"id": "C02",
     "technique": "Coq proof (reader canonicity by induction on fuel over the schema-IR TL1 model, rejection lemmas) + kernel-dump translator + extracted-model vs generated-Go correspondence on mutated and random byte strings",
     "text": "Closed Coq theorems: for every wf schema without map-backed dictionaries, every type, bare or boxed, every byte string: if dec1 accepts, the input is exactly (enc1 of the decoded value) ++ rest; unknown union tags, wrong struct tags, non-boolean Bool tags, non-minimal string length forms and non-zero padding are rejected; sorted duplicate-free dictionary input is rebuilt exactly. Tie: valid encodings and ~8 mutations each (truncation, bit flips, schema-tag swaps, count edits, word insert/delete, garbage tails) plus random strings are read by freshly generated Go code and by the extracted model; verdict, consumed length and re-written bytes compared; model-free oracle: accepted prefix is re-written identically (dictionary types: re-emission is a fixpoint).",
     "note": "PARTIAL w.r.t. the property text: the canonicity theorem excludes types containing map-backed dictionaries (their sorted/deduplicated re-emission is covered by the correspondence and the Go-side stability oracle, and by the dict_fold_sorted lemma). Templates modelled by hand; agreement shown on the enumerated inputs. Packages generated with --checkLengthSanity=false get only gentle mutations (their readers allocate `count` elements by design). No axioms."},
]

CHECKS += [
    {"id": "C11",
     "technique": "Coq proof (format-description lemmas + round trip + canonicity of the reference model) + extracted reference codec run against freshly generated Go code on random schemas",
     "text": "The extracted Coq model is the independent reference codec (no code shared with /repo). Theorems make it readable as the documented TL1 format (little-endian primitives, boxed = tag then bare, union = active variant's tag then fields, fields in order gated by field-mask bits, vectors = count then elements, tuples sized by parameter, string length/padding via C33) and show it reads exactly what it writes (round trip; canonicity for dictionary-free schemas). Check: on random schemas, values (model- and FillRandom-generated) and valid/mutated/random byte strings are processed by generated Go code and by the reference; bytes, verdicts, consumed lengths compared.",
     "note": "PARTIAL: (1) the reference's schema IR is dumped from the real kernel, so type resolution is shared with the generator (not re-derived independently); (2) the TL2 half of the property (varlen sizes, presence masks, bit arrays, counted arrays, dictionaries) is carried by the TL2 model of C03/C13 and the primitive layouts by C33, not by this check; (3) canonicity theorem excludes map-backed dictionaries. Known finding F6 (shared with C01). No axioms."},
]

CHECKS += [
    {"id": "C23",
     "technique": "Coq proof over a model of canonicalForm / CRC32 / the tag rule on the TL1 AST + AST dump translator (overlay in internal/tlast) + correspondence with the real parser and Crc32()",
     "text": "Proved for all ASTs: explicit tags verbatim; implicit tag = crc32(canon c) (CRC-32/IEEE defined bitwise in Coq, checked against the repository's test vectors and builtin tags); canon has no braces, is one line, single spaces, `[ ... ]`; arithmetic replaced by its value outside brackets; bare-marker rule. Model compared with Go on all repository schemas and ~1500 random combinators in 6 layout/syntax variants each; oracle recomputes CRCs with zlib and checks tag stability across variants.",
     "note": "Layout independence of the AST is established by the correspondence (lexer/parser are modelled in family Lex, not here). Arithmetic inside `[ ]` is not evaluated by the code: refuted theorem + known finding F18. The AST dump harness is trusted. No axioms."},
    {"id": "C21",
     "technique": "Coq proof (partial: verified inverse parser for the type-expression sub-grammar, injectivity of names/numbers/tags) + correspondence of the printer model with String() + Go-side parse-print-parse oracle",
     "text": "Model of Combinator.String()/TL.String() equals Go on every parsed repository and random AST; a verified parser inverts the printer on every well-formed type reference, name, arithmetic expression and 8-digit tag; the whole-schema round trip is checked on the real parser (dump equality after parse-print-parse, print idempotence) on ~6600 combinators per run.",
     "note": "PARTIAL: no Gallina parser for whole combinators/files (the statement parse1(print1 a)=a is proved only for the expression sub-grammar). Known finding F5 (explicit #00000000 dropped) recorded as a refuted theorem. No axioms."},
    {"id": "C25",
     "technique": "Coq proof (partial) over a model of canonicalFormWithTag / the listing + correspondence with the real `tl2gen --language=canonical` output + re-parse of every listing line by the real parser",
     "text": "Proved: one line per listed combinator (+5 builtin lines); a verified head parser recovers annotations, name, effective tag and template arguments from a line; the tag is recomputable from the line. The model's listing equals the bytes written by a freshly built tl2gen for repository and random schemas; every line, terminated with `;`, is re-parsed by the real parser and compared with the input AST.",
     "note": "PARTIAL: fidelity of the field/result part is REFUTED (bracket-free spelling, `!` dropped): known finding F12; proved only for the head. At most 12 annotations per combinator assumed. No axioms."},
]

CHECKS += [
    {"id": "C16",
     "technique": "Coq proof over an executable model of OutDir.Write / Gen2.WriteToDir on a file-system tree (all trees, generated sets, histories) + T-const (marker and package names) + correspondence corr:C16:fs (extracted model vs the real code on temp dirs and vs the real tl2gen/tlgen binaries) + property oracle on the implementation's own tree dumps",
     "text": "After every successful generation the outdir holds exactly the generated files (unchanged ones keep their mtime, stale ones and empty directories are gone, legacy cpp spares *.o); a non-empty outdir without the marker is refused untouched; whatever the outcome nothing outside the outdir changes except files addressed through ../; holds along every history of generations (induction over the list of generations). ~1100 random histories per quick run through the real OutDir.Write/WriteToDir + 10 end-to-end scenarios with the real binaries.",
     "note": "Regular files and directories only (no symlinks, permissions, disk errors); the worker pool is modelled sequentially and order-independence is proved (C15); after an I/O failure only the verdict and 'outside untouched' are compared; runtime files addressed via ../ are always rewritten (theorem). Known finding F20 (deadlock crash on >= NumCPU write errors). No axioms."},
    {"id": "C15",
     "technique": "Coq proofs of the three order-erasing mechanisms (WalkDeterministic, collect-then-sort with unique keys plus a refuted variant, OutDir.Write order independence) + correspondence corr:C15:walk + byte comparison of repeated runs of the real generators (GOMAXPROCS 1/2/16, shuffled inputs, file vs directory arguments)",
     "text": "The input file list, sorted emission and the written tree do not depend on enumeration or collection order (proved for all inputs, all permutations); tl2gen (go split/nosplit/tl2, php, tlo, canonical, tljson.html, rust) and tlgen (cpp, php) produce byte-identical output across repeated runs with different GOMAXPROCS and argument orders.",
     "note": "PARTIAL: the Go scheduler and map iteration inside the generators cannot be modelled; they are observed (repeated runs), not proved. The model treats them as an arbitrary permutation erased by the proved mechanisms. No axioms."},
]

CHECKS += [
    {"id": "C35",
     "technique": "Coq proof (writer = frames; reader round trip by induction over all write-operation lists; chunking irrelevance by simulation; CBC layer over an abstract block cipher; CRC-32 burst detection by GF(2) linearity) + T-const + extracted-model/Go correspondence through an in-package overlay test with real PacketConn objects, real handshake, recorded cipher streams",
     "text": "18 closed statements: for every list of packets and flushes, every start sequence number (handshake phase and 2^32 wrap included), both CRC polynomials, with or without the encrypted layout, the reader returns exactly the packets written, for every chunking of the stream, and through CBC encryption for every chunking of the cipher stream. Any change within 4 consecutive bytes of the seqNum/type/body/CRC of a frame (in particular any single byte) makes the reader fail at that frame after delivering the earlier packets unchanged; CRC-32 detects every 32-bit burst. ~2450 ops per quick run incl. real HandshakeClient/Server for protocol versions 0-3 with and without AES, every offset of small streams corrupted, captured streams re-read by the model.",
     "note": "PARTIAL w.r.t. the property text: corruption of the length word and of encrypted bytes is detected only with probability 1-2^-32 (checked by the oracle, not proved). AES, key derivation, nonce/handshake message contents, deadlines and the memcached magic are not modelled; the cipher is abstract (D (E x) = x on 16-byte blocks, a Section premise). No axioms."},
    {"id": "C40",
     "technique": "Coq proof (field-by-field codec round trip of both extras for all flag words; wrapper loop of ParseInvokeReq/parseResponseExtra stepped over every wrapper combination) + T-const (TLTag methods, size limits, error code) + correspondence with the real preparePacket/ParseInvokeReq/prepareResponseBody/parseResponseExtra through an in-package overlay test",
     "text": "11 closed statements: the request (qid, actor, extra, body format, body) and the response (qid, extra masked by the request flags, body or error code + description) are parsed back to what was put in, for every extra within wire ranges and both body formats. ~3100 ops per quick run: all single bits and pairs of field bits, random subsets, zero/empty values under set bits, negative ints, NaN payloads, long strings, maps, end-to-end through one HandlerContext, malformed inputs.",
     "note": "Premise: the body's first tag is not a wrapper or error tag and the body has >= 4 bytes (TL1 responses, all requests). Only the *rpc.Error branch is modelled for errors; error code 0 becomes -4000 by design. The flag-bit assignment is transcribed by hand and exercised bit by bit. No axioms."},
]

CHECKS += [
    {"id": "C24",
     "technique": "Coq proof (both directions of accept <-> unique non-zero tags; genuine-error lemmas) + correspondence of the extracted model with the real runMain of tl2gen and tlgen on dumped tag lists",
     "text": "10 closed theorems about transcriptions of the kernel's and the legacy generator's tag collision checks: tags_ok l = true <-> NoDup of the tags that count and every TL1 tag non-zero; a reported error names a real offender. ~340 random TL1(+TL2) schemas with 7 injected collision kinds per run (explicit=explicit, explicit=implicit CRC, zero, TL2 magic vs TL1 tag, type vs function ...); verdict, offender and tag agree; accepted lists re-checked independently; real binaries cross-checked.",
     "note": "The tag list comes from a second parse through an overlay harness (trusted). Legacy tlgen cannot take .tl2 input; TL2 magic 0 is refused by the parser. No axioms."},
    {"id": "C29",
     "technique": "Coq proof (reflexivity, general extension theorem, closure under sequences of safe edits by induction) + correspondence with the real tlgen linter through S-expression dumps of the parsed schemas",
     "text": "For any schema with distinct names lint a a = Accept; any sequence of the documented safe edits (append field under an unused bit of an existing mask, append constructor to a boxed-only type, add type, add function whose first argument is #), each judged against the base schema, is accepted; correspondence covers the repository's samples plus ~110 random pairs per run with error classes.",
     "note": "Append-field theorems cover local masks (template-argument masks only via the general theorem); both schemas must pass tlgen individually; checkNatUsages panics on invalid schemas are not modelled. No axioms."},
    {"id": "C30",
     "technique": "Coq proof (per-class rejection at arbitrary position for the linter as repaired in /repo; refutation theorems for the pre-repair code and for repetition contents) + correspondence with the real linter + oracle on its verdicts",
     "text": "22 closed statements: removing a constructor/function/field/template argument, changing a field's type (closed types), mask reference or bit, adding/removing a mask, appending an unmasked field, reusing a mask bit, turning a bare-used type into a union are each rejected wherever they occur, and the linter never panics. Correspondence on all incorrect-changes samples plus ~240 random unsafe edits at random positions per run (verdict and error class).",
     "note": "F2 (bare flag ignored) and F3 (index panic) were genuine defects, repaired in /repo (fix: commits 03353252, 85427fb6); the model variant is read off the real code by witness pairs. Known finding F28: the linter never looks inside n*[...]. Type-change theorem is for closed types; union theorem for inspected positions. No axioms."},
    {"id": "C28",
     "technique": "Coq proof (PARTIAL: field-list level, abstract encoder) + correspondence of the linter model + per-instance oracle on tl2gen-generated code for both schemas of every accepted pair",
     "text": "If lint accepts, every old field keeps its position, resolved mask and bit and a type compareTypes accepts, and an abstract field encoder gives identical bytes whenever the bits guarding appended fields are clear. Per run 5-7 accepted (old,new) pairs are generated with the current tl2gen for both schemas and ~150-250 FillRandom old values each are encoded by old, read by new and re-written byte-identically (JSON route included).",
     "note": "PARTIAL: whole-schema soundness (lint accepts => wire compatible) is not proved and is FALSE today: known findings F28 (repetition contents invisible to the linter) and F29 (constructor tags never compared); F2 repaired in /repo. Nested types, function results and decoding are abstracted in the theorem and covered only by the generated-code oracle. No axioms."},
    {"id": "C36",
     "technique": "Coq proof over an abstract reliable-delivery protocol model (invariant induction over all step sequences + explicit-measure fair completion), tied to pkg/rpc/udp by T-const (simulator constants) and a per-command trace-refinement correspondence: the package's own multi-transport simulator is driven command by command through an add-only overlay, its abstract events are replayed on the extracted model and the state projections compared; oracle on Go outputs",
     "text": "For every sequence of submit/slice/send/resend/deliver/lose/duplicate/ack/timer steps (any number of connections, any limit/window): the delivered list is always a prefix of the submitted list (exactly once, intact, in order), acked prefixes are monotone and truthful, acquired memory <= limit and equals the per-connection reservations, the waiters queue is consistent; from any reachable state with messages <= limit the loss-free completion delivers everything and returns acquired memory to 0. Per run 2000 simulator command strings (~150k commands) agree step by step with the model; 1000 more (non-stream mode, restarts) are checked by the oracle only.",
     "note": "PARTIAL: unbounded sequence numbers (no uint32 wrap), no handshake/generations/restarts/crypto/corruption in the model; sender timer/resend machinery and ack selection are nondeterministic steps; real goroutines, sockets and wall-clock timers are exercised only through the simulator's single-threaded step functions. With restarts only panic-freedom, memory bound, no-duplication are checked by the oracle; known finding F14 (reservation leak on restart). No axioms."},
    {"id": "C26",
     "technique": "Coq proof of an executable model of GenerateTLO + TL1 round trip (C01) instantiated at the tls.tl IR; tie by parser-dump translator, T-const, and correspondence of real .tlo bytes decoded by the extracted dec1 and by the repo's tltls package against the model, plus a model-free oracle",
     "text": "18 closed statements: every constructor/function listed exactly once with tag and name, no name twice, constructors in schema order and functions sorted, type name = XOR of constructor tags with arity/parameter kinds/constructor count, distinct sorted type ids, and the TLO bytes decode back (enc1_dec1 at the tls.tl IR, whose wf is evaluated on a fresh kernel dump every run). ~23 real .tlo files per run (repository + random schemas x timestamps) decoded two ways, re-encoded byte-exactly and compared with the model.",
     "note": "PARTIAL: field type-expression trees, field flags and var numbers are not in the model (covered by full-tree agreement of the two decoders + byte-exact re-encode). Known finding F26 (builtin wrappers listed with hard-coded tags). No axioms."},
    {"id": "C27",
     "technique": "Certified checker (tl2_equiv, proved sound for every attribute-only compositional encoder) evaluated on kernel dumps of original and migrated schemas per migration run + model-free oracle on both freshly generated Go packages (TL2 bytes and JSON, both readers, both directions)",
     "text": "If tl2_equiv accepts a correspondence of type instances, every compositional encoder that depends only on the compared attributes (field order, names, optionality bits, element types, ...) gives equal output under both schemas at every covered root; diagnostics are complete. Per run the migration is executed on scratch copies (cases.tl x 3 whitelists, goldmaster, random schemas), both IRs are dumped and checked (~200 roots certified), and 600-800 FillRandom values are written by the original package and re-read/re-written identically by the migrated one.",
     "note": "PARTIAL: that the real TL2/JSON writers depend only on the compared attributes is the Tl2/Json families' model, not proved here. Known findings F27a-d (fixed arrays become vectors, size fields no longer enforced, namespace-split whitelists and a dictionary-of-Maybe case produce schemas/Go that do not compile). No axioms."},
]

CHECKS += [
    {"id": "C22",
     "technique": "Coq proof over executable models of the TL2 printers, lexer and parser (full statement: parse2 (fmt2 o f) = erase f, idempotence) + correspondence with the real Print/ParseTL2File through an in-package overlay harness + Go-side oracle",
     "text": "For every TL2 file AST satisfying the stated well-formedness (evaluated every run on all ASTs ParseTL2File returns: it holds) and for every option record, print -> lex -> parse returns the declarations with comments erased; for comment-ignoring options printing again gives the same text; comment-free files round-trip exactly. ~9000 ops per run: model fmt2 vs Go Print per declaration and per file, model parse2 vs ParseTL2File on sources, mutations and printed texts, lexer, type expressions.",
     "note": "Idempotence with comments present under the default options is observed on Go every run, not proved (the parser model erases comments). The token model does not see layout (one known parser layout quirk before a template category is excluded and counted). F8 and F19 were genuine defects, repaired in /repo (3b6a30bc, 2301fcd1); both are kept as historical refuted lemmas and the oracle reports either regression as a fresh violation. No axioms."},
    {"id": "C38",
     "technique": "Coq proof over a model of the client's pending-calls logic (all event lists over an unordered, duplicating network) + extracted monitor proved sound + correspondence on the real clientConn (sequential op lists) + trace inclusion of concurrent client/server runs under the race detector",
     "text": "For all event lists: a completed call holds the answer to its own request or its own local error; completes once; is never lost; Client.Close plus the next disconnect drains everything; a disconnect drains sent/FailIfNoConnection/expired calls; query IDs are distinct; the client's invariant panics are unreachable. ~1000 op lists on the real clientConn per run diffed against the model; 12 concurrent TCP/Unix scenarios (with/without encryption, timeouts, cancels, closes, hash-echo responses) under -race, each log checked by a Python oracle and by the extracted monitor.",
     "note": "PARTIAL: goroutine scheduling, sockets, timers, the server side of the query-ID plumbing and the absence of data races are observed (race detector), not proved. Fewer than 2^62 calls per client assumed. No axioms."},
    {"id": "C39",
     "technique": "Coq proof over models of the worker pool and the request-memory accounting (all op sequences) + correspondence on the real workerPool / acquireRequestSema (sequential) + concurrent bursts against a real server",
     "text": "For all op sequences: handed-out workers <= created <= max(1, MaxWorkers); Get waits exactly at the limit and a Put unblocks it; accounted memory equals the sum held by admitted requests and stays within [0, limit]; requests larger than the limit are never admitted; a release never panics. 800 pool op lists + 80 accounting lists per run on the real code; 7 bursts (1560 requests) with MaxWorkers in {1,2,4} and small limits check handler concurrency, Server.RequestsMemory(), an independent handler-side byte sum, and that all requests are served.",
     "note": "PARTIAL: goroutines, sync.Cond and the real semaphore (C42) are observed only. SyncHandler and MaxWorkers = 0 run on the connection goroutine and are outside the worker bound. No axioms."},
]

CHECKS += [
    {"id": "C19",
     "technique": "Coq proof over executable models of the tlast lexer and the TL1 recursive-descent parser (control flow with every Go panic site explicit) + T-const (token/character constants) + correspondence with internal/tlast through an in-package overlay harness + oracle on the real parser",
     "text": "Proved for all byte strings and all option settings: tokenizer total (fuel |s|+1 never exhausted), tokens recombine to the input, >= 1 byte per step, every token position is the true line/column/offset, the front end hands the parser a list ending in a single eof, the transcribed parser terminates within fuel, never reaches a panic site (iterator out of range, eof popped, log.Panicf sites, slices), and every error position lies in [0,|s|] with consolePrint slicing nothing out of range. ~37k inputs per run (every byte, pairs/triples over the lexer alphabet, token soups, grammar-generated and mutated declarations, repository files truncated at every offset/token, CRLF, UTF-8 boundaries, nesting to 5000) compared token by token and error by error; oracle: recover(), error offsets, ConsolePrint/Error().",
     "note": "AST construction and Combinator.crc32() are outside the parser model (covered by the oracle on the real code only). Absence of Go panics outside the modelled sites is observed, not proved. No axioms."},
    {"id": "C20",
     "technique": "Coq proof over executable models of the tlast lexer (TL2 options) and the TL2 combinator parser (OptionalState bookkeeping, named results, deferred resets; every panic site explicit) + T-const + correspondence through an in-package overlay harness + oracle on the real parser",
     "text": "Same statements as C19 for LexerLanguage = TL2 and ParseTL2File: tokenizer total with exact positions and recombination; parser terminates within fuel, reaches no panic site, every error in range. ~36k inputs per run compared token by token and error by error; oracle: recover(), error offsets, ConsolePrint/Error().",
     "note": "AST construction is outside the parser model (oracle only). No axioms."},
]

_claimed = {c["id"] for c in CHECKS}
_reasons = {
    "C32": "PHP serializers: no PHP/KPHP interpreter exists in the sandbox and nothing can be installed, so generated PHP cannot be executed; neither a correspondence check nor a failing-input search can exist (DESIGN.md section 8)",
}
NOT_APPLICABLE = [{"property_id": p, "reason": _reasons.get(p, "not yet built in this round: the model/correspondence for this property is still under construction (see DESIGN.md section 10); not claimed until its check exists and is quiet on the unchanged tree")}
                  for p in ALL if p not in _claimed]
for e in ENGINES:
    e["serves_properties"] = sorted(_claimed)
