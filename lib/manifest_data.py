ENGINES = [
    {"name": "coq+corr", "path": "/verif/coq, /verif/ocaml, /verif/harness, /verif/lib",
     "serves_properties": [],
     "kind_free_text": "Coq 8.16.1 theorems about executable Gallina models; models extracted to OCaml and run against the Go code rebuilt from /repo on the same operations (correspondence); constants regenerated from source by tools/genconsts"},
]

ALL = ["C%02d" % i for i in range(1, 44)]

CHECKS = [
    {"id": "C33",
     "technique": "Coq proof (round-trip, canonicity, truncation theorems over regenerated constants) + extracted-model/Go differential correspondence",
     "text": "17 closed Coq theorems over all lengths/contents (string round trip for every length < 2^56, canonicity of the reader, EOF on every proper prefix, TL2 size and bit-vector laws); model tied to pkg/basictl by regenerated constants and by running both on ~85k operations per quick run, plus the property evaluated on Go's own outputs",
     "note": "Trusted: Coq kernel, tools/genconsts, extraction (ExtrOcamlBasic only), OCaml/Go drivers, comparison script. Go code is modelled by hand; agreement shown only on the enumerated operations. 64-bit int assumed. No axioms."},
]

_claimed = {c["id"] for c in CHECKS}
_reasons = {
    "C32": "PHP serializers: no PHP/KPHP interpreter exists in the sandbox and nothing can be installed, so generated PHP cannot be executed; neither a correspondence check nor a failing-input search can exist (DESIGN.md section 8)",
}
NOT_APPLICABLE = [{"property_id": p, "reason": _reasons.get(p, "not yet built in this round: the model/correspondence for this property is still under construction (see DESIGN.md section 10); not claimed until its check exists and is quiet on the unchanged tree")}
                  for p in ALL if p not in _claimed]
for e in ENGINES:
    e["serves_properties"] = sorted(_claimed)
