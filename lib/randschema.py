"""Random TL1 schema generator (text).  The IR of each schema is obtained from the real kernel
(translator verifdump); schemas the kernel rejects are counted and skipped.

Grammar covered: structs with local / external (template) / nested field masks, `true` and Bool
under masks, nat parameters passed down through several levels with permuted and constant
arguments, fixed / parameter / field sized tuples (`n*[T]`, `tuple T n`), vectors, nested arrays,
unions (incl. enums, variants with typedef bodies), Maybe, dictionaries (string / int keys),
recursion through masks / vectors / Maybe, boxed and bare references, typedef chains, functions
whose result nat-args come from request fields.
"""
from pathlib import Path

HEADER = """
int#a8509bda ? = Int;
long#22076cba ? = Long;
float#824dab22 ? = Float;
double#2210c154 ? = Double;
string#b5286e24 ? = String;
boolFalse#bc799737 = Bool;
boolTrue#997275b5 = Bool;
true = True;
resultFalse#27930a7b {t:Type} = Maybe t;
resultTrue#3f9c8ef8 {t:Type} t = Maybe t;
vector#1cb5c415 {t:Type} # [t] = Vector t;
tuple#9770768a {t:Type} {n:#} [t] = Tuple t n;
dictionaryField {t:Type} key:string value:t = DictionaryField t;
dictionary#1f4c618f {t:Type} %(Vector %(DictionaryField t)) = Dictionary t;
dictionaryAnyField {k:Type} {v:Type} key:k value:v = DictionaryAnyField k v;
dictionaryAny#1f4c6190 {k:Type} {v:Type} # [(dictionaryAnyField k v)] = DictionaryAny k v;
"""


class Gen:
    def __init__(self, rng, ns="rs", ntypes=10):
        self.r = rng
        self.ns = ns
        self.ntypes = ntypes
        self.decls = []          # (kind, name, nparams)   kind: struct|union|enum
        self.lines = []

    # ------------------------------------------------------------------ type expressions
    def natsrc(self, scope):
        r = self.r
        cands = scope["fields"] + scope["params"]
        if cands and r.random() < 0.8:
            return r.choice(cands)
        return str(r.choice([0, 1, 2, 3, 5]))

    def ref(self, scope, allow_forward):
        """reference to a declared (or, when allowed, not yet declared) user type"""
        r = self.r
        pool = list(self.decls)
        if allow_forward and scope.get("self"):
            pool.append(scope["self"])
        if not pool:
            return "int"
        kind, name, np = r.choice(pool)
        lname, uname = f"{self.ns}.{name}", f"{self.ns}.{name[0].upper()}{name[1:]}"
        args = " ".join(self.natsrc(scope) for _ in range(np))
        if kind == "struct":
            base = lname if r.random() < 0.6 else uname
        else:
            base = uname
        return f"({base} {args})" if np else base

    def texpr(self, scope, depth=0, guarded=False):
        r = self.r
        x = r.random()
        if depth >= 2:
            x = x * 0.5
        if x < 0.32:
            return r.choice(["int", "int", "long", "string", "string", "double", "float", "#", "Bool", "Int", "String", "Long"])
        if x < 0.50:
            return self.ref(scope, allow_forward=guarded)
        if x < 0.62:
            return f"(vector {self.texpr(scope, depth + 1, True)})"
        if x < 0.70:
            return f"(tuple {self.texpr(scope, depth + 1, False)} {self.natsrc(scope)})"
        if x < 0.80:
            n = self.natsrc(scope)
            if depth == 0:
                return f"{n}*[{self.texpr(scope, depth + 1, False)}]"
            return f"(tuple {self.texpr(scope, depth + 1, False)} {n})"
        if x < 0.87:
            return f"(Maybe {self.texpr(scope, depth + 1, True)})"
        if x < 0.93:
            return f"(dictionary {self.texpr(scope, depth + 1, True)})"
        if x < 0.97:
            return f"(dictionaryAny {r.choice(['int', 'long', 'string'])} {self.texpr(scope, depth + 1, True)})"
        return "true"

    def fields(self, scope, nf):
        r = self.r
        out = []
        for i in range(nf):
            fname = f"f{i}"
            # make early fields likely to be nat sources
            if i < 2 and r.random() < 0.5:
                out.append(f"{fname}:#")
                scope["fields"].append(fname)
                continue
            masks = scope["fields"] + scope["params"]
            if masks and r.random() < 0.35:
                m = r.choice(masks)
                bit = r.choice([0, 1, 2, 3, 5, 31]) if r.random() < 0.9 else r.randrange(32)
                t = "true" if r.random() < 0.25 else self.texpr(scope, 0, True)
                if t == "#":
                    out.append(f"{fname}:{m}.{bit}?#")
                    scope["fields"].append(fname)
                else:
                    out.append(f"{fname}:{m}.{bit}?{t}")
            else:
                t = self.texpr(scope, 0, False)
                out.append(f"{fname}:{t}")
                if t == "#":
                    scope["fields"].append(fname)
        return out

    # ------------------------------------------------------------------ declarations
    def struct(self, i):
        r = self.r
        name = f"t{i}"
        np = r.choice([0, 0, 0, 1, 2])
        params = [f"p{j}" for j in range(np)]
        scope = {"fields": [], "params": list(params), "self": ("struct", name, np)}
        nf = r.choice([0, 1, 2, 2, 3, 4, 6])
        fs = self.fields(scope, nf)
        tmpl = "".join(f" {{{p}:#}}" for p in params)
        res = f"{self.ns}.T{i}" + "".join(f" {p}" for p in params)
        self.lines.append(f"{self.ns}.{name}{tmpl} {' '.join(fs)} = {res};")
        self.decls.append(("struct", name, np))

    def typedef(self, i):
        name = f"t{i}"
        scope = {"fields": [], "params": [], "self": None}
        t = self.texpr(scope, 1, False)
        if t in ("true", "#"):
            t = "int"
        self.lines.append(f"{self.ns}.{name} {t} = {self.ns}.T{i};")
        self.decls.append(("struct", name, 0))

    def union(self, i, enum=False):
        r = self.r
        name = f"u{i}"
        nv = r.choice([2, 2, 3, 4])
        for j in range(nv):
            scope = {"fields": [], "params": [], "self": ("union", name, 0)}
            if enum:
                fs = []
            else:
                k = r.random()
                if k < 0.25:
                    fs = []
                elif k < 0.4:
                    t = self.texpr(scope, 1, True)
                    fs = [t if t not in ("true", "#") else "int"]      # typedef-bodied variant
                else:
                    fs = self.fields(scope, r.choice([1, 2, 3]))
            self.lines.append(f"{self.ns}.{name}c{j} {' '.join(fs)} = {self.ns}.U{i};")
        self.decls.append(("union", name, 0))

    def function(self, i):
        r = self.r
        scope = {"fields": [], "params": [], "self": None}
        fs = self.fields(scope, r.choice([1, 2, 3]))
        res = self.result_type(scope)
        self.lines.append(f"@read {self.ns}.fn{i} {' '.join(fs)} => {res};")

    def result_type(self, scope):
        r = self.r
        simple = r.choice(["int", "long", "string", "Int", "String", "double"])
        users = [d for d in self.decls]
        k = r.random()
        if k < 0.25:
            return {"int": "Int", "long": "Long", "string": "String", "double": "Double"}.get(simple, simple)
        if k < 0.4:
            return f"Vector<{simple}>"
        if k < 0.55:
            return f"Tuple<{simple}, {self.natsrc(scope)}>"
        if k < 0.65:
            return f"Maybe<{simple}>"
        if users:
            kind, name, np = r.choice(users)
            uname = f"{self.ns}.{name[0].upper()}{name[1:]}"
            return uname + "".join(" " + self.natsrc(scope) for _ in range(np))
        return "Bool"

    def text(self):
        r = self.r
        for i in range(self.ntypes):
            k = r.random()
            if k < 0.6:
                self.struct(i)
            elif k < 0.7:
                self.typedef(i)
            elif k < 0.9:
                self.union(i)
            else:
                self.union(i, enum=True)
        nfun = r.choice([0, 1, 2])
        for i in range(nfun):
            self.function(i)
        return HEADER + "\n".join(self.lines) + "\n"


def make_specs(ctx, n, prefix="rs", tl2=False):
    """n random schemas as gencommon unit specs (name, files, options, whitelist, san)."""
    specs = []
    for i in range(n):
        g = Gen(ctx.rng, ntypes=ctx.rng.choice([4, 6, 8, 12]))
        d = Path(ctx.scratch) / f"{prefix}{i}"
        d.mkdir(exist_ok=True)
        p = d / "s.tl"
        p.write_text(g.text())
        san = ctx.rng.random() < 0.6
        opts = [] if san else ["--checkLengthSanity=false"]
        wl = None
        if tl2 or ctx.rng.random() < 0.3:
            opts.append("--tl2WhiteList=*")
            wl = "*"
        if ctx.rng.random() < 0.2:
            opts.append("--split-internal")
        specs.append((f"{prefix}{i}", [p], opts, wl, san))
    return specs
