"""Random TL1 schema generator (text).  The IR of each schema is obtained from the real kernel
(translator verifdump); schemas the kernel rejects are counted and skipped.

Grammar covered: structs with local / external (template) / nested field masks, `true` and Bool
under masks, nat parameters passed down through several levels with permuted and constant
arguments, fixed / parameter / field sized tuples (`n*[T]`, `tuple T n`), vectors, nested arrays,
unions (incl. enums, variants with typedef bodies), Maybe, dictionaries (string / int keys),
recursion through masks / vectors / Maybe, boxed and bare references, typedef chains, functions
whose result nat-args come from request fields.
"""
from pathlib import Path

HEADER = """
int#a8509bda ? = Int;
long#22076cba ? = Long;
float#824dab22 ? = Float;
double#2210c154 ? = Double;
string#b5286e24 ? = String;
boolFalse#bc799737 = Bool;
boolTrue#997275b5 = Bool;
true = True;
resultFalse#27930a7b {t:Type} = Maybe t;
resultTrue#3f9c8ef8 {t:Type} t = Maybe t;
vector#1cb5c415 {t:Type} # [t] = Vector t;
tuple#9770768a {t:Type} {n:#} [t] = Tuple t n;
dictionaryField {t:Type} key:string value:t = DictionaryField t;
dictionary#1f4c618f {t:Type} %(Vector %(DictionaryField t)) = Dictionary t;
dictionaryAnyField {k:Type} {v:Type} key:k value:v = DictionaryAnyField k v;
dictionaryAny#1f4c6190 {k:Type} {v:Type} # [(dictionaryAnyField k v)] = DictionaryAny k v;
"""


class Gen:
    def __init__(self, rng, ns="rs", ntypes=10):
        self.r = rng
        self.ns = ns
        self.ntypes = ntypes
        self.decls = []          # (kind, name, nparams)   kind: struct|union|enum
        self.lines = []

    # ------------------------------------------------------------------ type expressions
    def natsrc(self, scope):
        r = self.r
        cands = scope["fields"] + scope["params"]
        if cands and r.random() < 0.8:
            return r.choice(cands)
        return str(r.choice([0, 1, 2, 3, 5]))

    def ref(self, scope, allow_forward):
        """reference to a declared (or, when allowed, not yet declared) user type"""
        r = self.r
        pool = list(self.decls)
        if allow_forward and scope.get("self"):
            pool.append(scope["self"])
        if not pool:
            return "int"
        kind, name, np = r.choice(pool)
        lname, uname = f"{self.ns}.{name}", f"{self.ns}.{name[0].upper()}{name[1:]}"
        args = " ".join(self.natsrc(scope) for _ in range(np))
        if kind == "struct":
            base = lname if r.random() < 0.6 else uname
        else:
            base = uname
        return f"({base} {args})" if np else base

    def texpr(self, scope, depth=0, guarded=False):
        r = self.r
        x = r.random()
        if depth >= 2:
            x = x * 0.5
        if x < 0.32:
            return r.choice(["int", "int", "long", "string", "string", "double", "float", "#", "Bool", "Int", "String", "Long"])
        if x < 0.50:
            return self.ref(scope, allow_forward=guarded)
        if x < 0.62:
            return f"(vector {self.texpr(scope, depth + 1, True)})"
        if x < 0.70:
            return f"(tuple {self.texpr(scope, depth + 1, False)} {self.natsrc(scope)})"
        if x < 0.80:
            n = self.natsrc(scope)
            if depth == 0:
                return f"{n}*[{self.texpr(scope, depth + 1, False)}]"
            return f"(tuple {self.texpr(scope, depth + 1, False)} {n})"
        if x < 0.87:
            return f"(Maybe {self.texpr(scope, depth + 1, True)})"
        if x < 0.93:
            return f"(dictionary {self.texpr(scope, depth + 1, True)})"
        if x < 0.97:
            return f"(dictionaryAny {r.choice(['int', 'long', 'string'])} {self.texpr(scope, depth + 1, True)})"
        return "true"

    def fields(self, scope, nf):
        r = self.r
        out = []
        for i in range(nf):
            fname = f"f{i}"
            # make early fields likely to be nat sources
            if i < 2 and r.random() < 0.5:
                out.append(f"{fname}:#")
                scope["fields"].append(fname)
                continue
            masks = scope["fields"] + scope["params"]
            if masks and r.random() < 0.35:
                m = r.choice(masks)
                bit = r.choice([0, 1, 2, 3, 5, 31]) if r.random() < 0.9 else r.randrange(32)
                t = "true" if r.random() < 0.25 else self.texpr(scope, 0, True)
                if t == "#":
                    out.append(f"{fname}:{m}.{bit}?#")
                    scope["fields"].append(fname)
                else:
                    out.append(f"{fname}:{m}.{bit}?{t}")
            else:
                t = self.texpr(scope, 0, False)
                out.append(f"{fname}:{t}")
                if t == "#":
                    scope["fields"].append(fname)
        return out

    # ------------------------------------------------------------------ declarations
    def struct(self, i):
        r = self.r
        name = f"t{i}"
        np = r.choice([0, 0, 0, 1, 2])
        params = [f"p{j}" for j in range(np)]
        scope = {"fields": [], "params": list(params), "self": ("struct", name, np)}
        nf = r.choice([0, 1, 2, 2, 3, 4, 6])
        fs = self.fields(scope, nf)
        tmpl = "".join(f" {{{p}:#}}" for p in params)
        res = f"{self.ns}.T{i}" + "".join(f" {p}" for p in params)
        self.lines.append(f"{self.ns}.{name}{tmpl} {' '.join(fs)} = {res};")
        self.decls.append(("struct", name, np))

    def typedef(self, i):
        name = f"t{i}"
        scope = {"fields": [], "params": [], "self": None}
        t = self.texpr(scope, 1, False)
        if t in ("true", "#"):
            t = "int"
        self.lines.append(f"{self.ns}.{name} {t} = {self.ns}.T{i};")
        self.decls.append(("struct", name, 0))

    def union(self, i, enum=False):
        r = self.r
        name = f"u{i}"
        nv = r.choice([2, 2, 3, 4])
        for j in range(nv):
            scope = {"fields": [], "params": [], "self": ("union", name, 0)}
            if enum:
                fs = []
            else:
                k = r.random()
                if k < 0.25:
                    fs = []
                elif k < 0.4:
                    t = self.texpr(scope, 1, True)
                    fs = [t if t not in ("true", "#") else "int"]      # typedef-bodied variant
                else:
                    fs = self.fields(scope, r.choice([1, 2, 3]))
            self.lines.append(f"{self.ns}.{name}c{j} {' '.join(fs)} = {self.ns}.U{i};")
        self.decls.append(("union", name, 0))

    def function(self, i):
        r = self.r
        scope = {"fields": [], "params": [], "self": None}
        fs = self.fields(scope, r.choice([1, 2, 3]))
        res = self.result_type(scope)
        self.lines.append(f"@read {self.ns}.fn{i} {' '.join(fs)} => {res};")

    def result_type(self, scope):
        r = self.r
        simple = r.choice(["int", "long", "string", "Int", "String", "double"])
        users = [d for d in self.decls]
        k = r.random()
        if k < 0.25:
            return {"int": "Int", "long": "Long", "string": "String", "double": "Double"}.get(simple, simple)
        if k < 0.4:
            return f"Vector<{simple}>"
        if k < 0.55:
            return f"Tuple<{simple}, {self.natsrc(scope)}>"
        if k < 0.65:
            return f"Maybe<{simple}>"
        if users:
            kind, name, np = r.choice(users)
            uname = f"{self.ns}.{name[0].upper()}{name[1:]}"
            return uname + "".join(" " + self.natsrc(scope) for _ in range(np))
        return "Bool"

    def text(self):
        r = self.r
        for i in range(self.ntypes):
            k = r.random()
            if k < 0.6:
                self.struct(i)
            elif k < 0.7:
                self.typedef(i)
            elif k < 0.9:
                self.union(i)
            else:
                self.union(i, enum=True)
        nfun = r.choice([0, 1, 2])
        for i in range(nfun):
            self.function(i)
        return HEADER + "\n".join(self.lines) + "\n"


class GenR(Gen):
    """Resolution-rich variant of the grammar (used by C01/C11, whose IR is cross-checked against the
    independent derivation lib/indep_ir.py).  Compared with Gen it produces often:
      * the anonymous-count vector `# name:[T]` FOLLOWED by `#` fields that later fields use as tuple
        sizes, template arguments and field masks (field indices after the fold differ from positions
        in the source),
      * several `#` fields referenced in permuted order, constants mixed in,
      * templates with up to 3 nat parameters passed down 2-3 levels (structs, typedefs with
        parameters whose body permutes them, unions with parameters and typedef-bodied variants),
      * masks on template parameters, implicit repetition counts (`n:# x:[T]`, leading `[T]` sized by
        the last template parameter), and (rarely) multi-field brackets, which the kernel rejects.
    Every nat source has a role (mask | size) that is respected through template parameters, because
    the kernel refuses a # field used both as field mask and as tuple size."""

    def __init__(self, rng, ns="rs", ntypes=10):
        super().__init__(rng, ns, ntypes)
        self.decls = []          # (kind, name, roles)   roles: list of 'm' | 's', one per nat parameter
        self.multi_brackets = rng.random() < 0.03

    # ------------------------------------------------------------------ type expressions
    def natsrc(self, scope, role="s"):
        r = self.r
        cands = [n for n, ro in scope["nats"] if ro == role]
        if cands and r.random() < 0.8:
            return r.choice(cands)
        # 0 rarely: a constant-0 tuple is an element that occupies no bytes, and a hostile count over such
        # elements makes every reader (and the model) loop without consuming input
        return str(r.choice([1, 2, 3, 5]) if r.random() < 0.93 else 0)

    def ref(self, scope, allow_forward, want_params=False):
        r = self.r
        pool = list(self.decls)
        if allow_forward and scope.get("self"):
            pool.append(scope["self"])
        if want_params:
            pool = [d for d in pool if d[2]] or pool
        if not pool:
            return "int"
        kind, name, roles = r.choice(pool)
        lname, uname = f"{self.ns}.{name}", f"{self.ns}.{name[0].upper()}{name[1:]}"
        args = " ".join(self.natsrc(scope, ro) for ro in roles)
        base = (lname if r.random() < 0.6 else uname) if kind == "struct" else uname
        return f"({base} {args})" if roles else base

    def texpr(self, scope, depth=0, guarded=False):
        r = self.r
        x = r.random()
        if depth >= 2:
            x = x * 0.5
        elif scope["nats"] and r.random() < 0.3:
            x = r.choice([0.3, 0.65, 0.75])         # something that takes a nat argument
        if x < 0.26:
            return r.choice(["int", "int", "long", "string", "string", "double", "float", "#", "Bool", "Int", "String", "Long"])
        if x < 0.50:
            return self.ref(scope, allow_forward=guarded, want_params=r.random() < 0.6)
        if x < 0.60:
            return f"(vector {self.texpr(scope, depth + 1, True)})"
        if x < 0.70:
            return f"(tuple {self.texpr(scope, depth + 1, False)} {self.natsrc(scope, 's')})"
        if x < 0.82:
            n = self.natsrc(scope, "s")
            if depth == 0:
                return f"{n}*[{self.texpr(scope, depth + 1, False)}]"
            return f"(tuple {self.texpr(scope, depth + 1, False)} {n})"
        if x < 0.88:
            return f"(Maybe {self.texpr(scope, depth + 1, True)})"
        if x < 0.93:
            return f"(dictionary {self.texpr(scope, depth + 1, True)})"
        if x < 0.97:
            return f"(dictionaryAny {r.choice(['int', 'long', 'string'])} {self.texpr(scope, depth + 1, True)})"
        return "true"

    def elem(self, scope):
        t = self.texpr(scope, 1, False)
        return "int" if t in ("true", "#") else t

    def fields(self, scope, nf, allow_anon=True):
        r = self.r
        out = []
        anon_at = r.randrange(0, max(1, nf - 1)) if allow_anon and nf >= 2 and r.random() < 0.4 else -1
        nhash = 0
        i = 0
        while i < nf:
            fname = f"f{i}"
            i += 1
            if i - 1 == anon_at:
                out.append(f"# {fname}:[{self.elem(scope)}]")       # two source fields, ONE resolved field
                continue
            # several # fields early, so that later fields can refer to them in any order
            if nhash < 4 and (i - 1) < 5 and r.random() < (0.6 if nhash < 2 else 0.35):
                masks = [n for n, ro in scope["nats"] if ro == "m"]
                if masks and r.random() < 0.15:
                    out.append(f"{fname}:{r.choice(masks)}.{r.choice([0, 1, 2, 7, 31])}?#")
                else:
                    out.append(f"{fname}:#")
                scope["nats"].append((fname, r.choice("ms")))
                nhash += 1
                if scope["nats"][-1][1] == "s" and i < nf and r.random() < 0.12:
                    out.append(f"f{i}:[{self.elem(scope)}]")        # implicit count: the previous # field
                    i += 1
                continue
            if self.multi_brackets and r.random() < 0.3:
                out.append(f"{fname}:{self.natsrc(scope, 's')}*[a:int b:string]")
                continue
            masks = [n for n, ro in scope["nats"] if ro == "m"]
            if masks and r.random() < 0.35:
                m = r.choice(masks)
                bit = r.choice([0, 1, 2, 3, 5, 31]) if r.random() < 0.9 else r.randrange(32)
                t = "true" if r.random() < 0.25 else self.texpr(scope, 0, True)
                out.append(f"{fname}:{m}.{bit}?{t}")
                if t == "#":
                    scope["nats"].append((fname, r.choice("ms")))
            else:
                t = self.texpr(scope, 0, False)
                out.append(f"{fname}:{t}")
                if t == "#":
                    scope["nats"].append((fname, r.choice("ms")))
        return out

    # ------------------------------------------------------------------ declarations
    def roles(self, choices=(0, 0, 1, 2, 2, 3)):
        return [self.r.choice("ms") for _ in range(self.r.choice(choices))]

    def head(self, name, roles):
        params = [f"p{j}" for j in range(len(roles))]
        return "".join(f" {{{p}:#}}" for p in params), "".join(f" {p}" for p in params), [(p, ro) for p, ro in zip(params, roles)]

    def struct(self, i):
        r = self.r
        name = f"t{i}"
        roles = self.roles()
        tmpl, resargs, nats = self.head(name, roles)
        scope = {"nats": nats, "self": ("struct", name, roles)}
        nf = r.choice([0, 1, 2, 3, 3, 4, 5, 6, 7])
        pre = []
        if roles and roles[-1] == "s" and r.random() < 0.1:
            pre = [f"f90:[{self.elem(scope)}]"]                     # leading brackets: sized by the LAST template parameter
        fs = pre + self.fields(scope, nf, allow_anon=not pre)
        self.lines.append(f"{self.ns}.{name}{tmpl} {' '.join(fs)} = {self.ns}.T{i}{resargs};")
        self.decls.append(("struct", name, roles))

    def typedef(self, i):
        r = self.r
        name = f"t{i}"
        roles = self.roles((0, 0, 1, 2, 2, 3))
        tmpl, resargs, nats = self.head(name, roles)
        scope = {"nats": nats, "self": None}
        if roles:   # a typedef that passes its parameters on (permuted, constants mixed in)
            t = self.ref(scope, False, want_params=True) if r.random() < 0.7 else self.texpr(scope, 1, False)
        else:
            t = self.texpr(scope, 1, False)
        if t in ("true", "#"):
            t = "int"
        self.lines.append(f"{self.ns}.{name}{tmpl} {t} = {self.ns}.T{i}{resargs};")
        self.decls.append(("struct", name, roles))

    def union(self, i, enum=False):
        r = self.r
        name = f"u{i}"
        nv = r.choice([2, 2, 3, 4])
        roles = [] if enum else self.roles((0, 0, 0, 1, 2))
        tmpl, resargs, nats = self.head(name, roles)
        for j in range(nv):
            # no self reference in the FIRST constructor: generated Reset()/default values recurse through it forever,
            # masks notwithstanding (known findings F39/F21, subject of C08/C03)
            scope = {"nats": list(nats), "self": ("union", name, roles) if j > 0 else None}
            if enum:
                fs = []
            else:
                k = r.random()
                if k < 0.2:
                    fs = []
                elif k < 0.45:
                    t = self.ref(scope, False, want_params=True) if roles and r.random() < 0.6 else self.texpr(scope, 1, True)
                    fs = [t if t not in ("true", "#") else "int"]      # typedef-bodied variant
                else:
                    fs = self.fields(scope, r.choice([1, 2, 3, 4]))
            self.lines.append(f"{self.ns}.{name}c{j}{tmpl} {' '.join(fs)} = {self.ns}.U{i}{resargs};")
        self.decls.append(("union", name, roles))

    def function(self, i):
        r = self.r
        scope = {"nats": [], "self": None}
        fs = self.fields(scope, r.choice([1, 2, 3, 4]), allow_anon=False)
        res = self.result_type(scope)
        self.lines.append(f"@read {self.ns}.fn{i} {' '.join(fs)} => {res};")

    def result_type(self, scope):
        r = self.r
        simple = r.choice(["int", "long", "string", "Int", "String", "double"])
        k = r.random()
        if k < 0.2:
            return {"int": "Int", "long": "Long", "string": "String", "double": "Double"}.get(simple, simple)
        if k < 0.3:
            return f"Vector<{simple}>"
        if k < 0.45:
            return f"Tuple<{simple}, {self.natsrc(scope, 's')}>"
        if k < 0.5:
            return f"Maybe<{simple}>"
        if self.decls:
            pool = [d for d in self.decls if d[2]] or self.decls
            kind, name, roles = r.choice(pool if r.random() < 0.7 else self.decls)
            uname = f"{self.ns}.{name[0].upper()}{name[1:]}"
            return uname + "".join(" " + self.natsrc(scope, ro) for ro in roles)
        return "Bool"

    def text(self):
        r = self.r
        for i in range(self.ntypes):
            k = r.random()
            if k < 0.55:
                self.struct(i)
            elif k < 0.72:
                self.typedef(i)
            elif k < 0.93:
                self.union(i)
            else:
                self.union(i, enum=True)
        for i in range(r.choice([0, 1, 2, 3])):
            self.function(i)
        return HEADER + "\n".join(self.lines) + "\n"


def make_specs(ctx, n, prefix="rs", tl2=False, gen_cls=None):
    """n random schemas as gencommon unit specs (name, files, options, whitelist, san)."""
    specs = []
    for i in range(n):
        g = (gen_cls or Gen)(ctx.rng, ntypes=ctx.rng.choice([4, 6, 8, 12]))
        d = Path(ctx.scratch) / f"{prefix}{i}"
        d.mkdir(exist_ok=True)
        p = d / "s.tl"
        p.write_text(g.text())
        san = ctx.rng.random() < 0.6
        opts = [] if san else ["--checkLengthSanity=false"]
        wl = None
        if tl2 or ctx.rng.random() < 0.3:
            opts.append("--tl2WhiteList=*")
            wl = "*"
        if ctx.rng.random() < 0.2:
            opts.append("--split-internal")
        specs.append((f"{prefix}{i}", [p], opts, wl, san))
    return specs
