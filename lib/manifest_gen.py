#!/usr/bin/env python3
"""Regenerates MANIFEST.json from lib/manifest_data.py (one entry per claimed property)."""
import json, sys
from pathlib import Path
sys.path.insert(0, str(Path(__file__).resolve().parent))
from manifest_data import CHECKS, NOT_APPLICABLE, ENGINES

checks = []
for c in CHECKS:
    pid = c["id"]
    checks.append({
        "property_id": pid,
        "quick_cmd": f"bin/check {pid} --tier quick",
        "thorough_cmd": f"bin/check {pid} --tier thorough",
        "evidence_file": f"/verif/evidence/{pid}.json",
        "replay_cmd_template": f"bin/check {pid} --replay {{path}}",
        "engine": c.get("engine", "coq+corr"),
        "level_claimed": {"category": c.get("category", "proof"), "text": c["text"], "design_ref": c.get("design_ref", f"DESIGN.md section 5, {pid}")},
        "level_note": c["note"],
        "technique": c["technique"],
    })
m = {
    "version": 1,
    "setup_cmd": "bin/setup",
    "hooks": {
        "guard": "verif",
        "enable": "add-only harness files under /verif/overlay and /verif/harness are injected with `go build/test -tags verif -overlay <json>`; /repo itself carries no hook code",
        "baseline_off_cmd": "cd /repo && GOFLAGS=-mod=mod GOPROXY=off go test -vet=off -count=1 -timeout 25m ./...",
        "source_commits": [],
        "add_only": True,
    },
    "engines": ENGINES,
    "checks": checks,
    "notes": "All checks: bin/check <id>. Each regenerates constants from /repo (T-const), re-checks the Coq theorems of coq/theories/Props/<id>.v, rebuilds the Go side from /repo's working tree and runs the correspondence against the extracted model. See DESIGN.md.",
    "not_applicable": NOT_APPLICABLE,
}
Path(__file__).resolve().parent.parent.joinpath("MANIFEST.json").write_text(json.dumps(m, indent=1) + "\n")
