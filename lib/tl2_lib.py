"""Shared machinery of the TL2 properties C03, C04, C13 (family "tl2").

* write_ir2_file: the schema IR file of lib/schema_ir.py plus the TL2 side information
  (`alias <tid>`, `bit <tid> <field>`, `uidx <tid> <union index>`) read by ocaml/tl2/schema_io2.ml.
* tl2_units: repository schemas and random schemas, all generated with --tl2WhiteList=*.
* Tl2Unit helpers: factory items, model well-formedness, value sources (FillRandom, TL1 wire values),
  TL2 byte mutators.
"""
import random
import threading
from concurrent.futures import ThreadPoolExecutor
from pathlib import Path

from vlib import *
from gencommon import *
import randschema

FAMILY = "tl2"
DRIVER_FILES = ["main.go", "ops_tl1.go", "ops_tl2.go"]
MODEL_MAX_LINE = 300000
CORPUS_UNITS = ("cases", "goldmaster", "probe_reclist", "cases_tl2", "wide")


def write_ir2_file(ins, path):
    write_ir_file(ins, path)
    extra = []
    for x in ins:
        if x["kind"] == "struct":
            if x.get("isAlias"):
                extra.append(f"alias {x['id']}")
            if x.get("isUnionElement") and x.get("unionIndex"):
                extra.append(f"uidx {x['id']} {x['unionIndex']}")
            for i, f in enumerate(x["fields"]):
                if f.get("isBit"):
                    extra.append(f"bit {x['id']} {i}")
    with open(path, "a") as fh:
        fh.write("\n".join(extra) + ("\n" if extra else ""))


def write_ir2_file_pruned(ins, path, bad):
    """the same file with the instances in `bad` replaced by an unusable primitive"""
    write_ir2_file(ins, path)
    lines = Path(path).read_text().split("\n")
    out, skip = [], 0
    for l in lines:
        f = l.split(" ")
        if skip:
            skip -= 1
            continue
        if f[0] in ("struct", "union", "array", "dict", "prim") and int(f[1]) in bad:
            out.append(f"prim {f[1]} notl1")
            skip = int(f[3]) if f[0] == "struct" else (1 if f[0] in ("array", "dict") else 0)
            continue
        if f[0] in ("alias", "bit", "uidx") and int(f[1]) in bad:
            continue
        out.append(l)
    Path(path).write_text("\n".join(out))


def reaches(ins, bad):
    """instances from which an instance of `bad` is reachable (fields, variants, elements)"""
    succ = {}
    for x in ins:
        e = [f["type"] for f in x.get("fields") or []]
        e += x.get("variants") or []
        if x.get("elem"):
            e.append(x["elem"]["type"])
        succ[x["id"]] = e
    res = set(bad)
    changed = True
    while changed:
        changed = False
        for i, e in succ.items():
            if i not in res and any(j in res for j in e):
                res.add(i)
                changed = True
    return res


class ModelView:
    """Which top-level types of a unit the model covers, and the IR file the model reads.
    Instances without a finite default object (a union whose first variant contains the union
    again: the generated writer does not terminate on them) are cut out of the model's schema;
    types that can contain such an instance are left to the model-free oracle."""

    def __init__(self, u, ref):
        self.path = u.ir_path
        self.whole_unit_out = None
        self.no_default = set()
        self.out = set()
        notes = ir_notes(u.ins)
        rc, o, err = run_lines(ref, [str(u.ir_path)], ["wfwhy"])
        if notes:
            self.whole_unit_out = "; ".join(notes[:5])
            return
        if rc != 0 or len(o) != 1 or not o[0].startswith("ok "):
            self.whole_unit_out = f"model driver failed on the dump: {err[-200:]}"
            return
        items = [] if o[0] == "ok -" else o[0][3:].split(",")
        other = [i for i in items if not i.endswith(":no-finite-default")]
        if other:
            self.whole_unit_out = "wf2 is false for the dump: " + ",".join(other[:8])
            return
        self.no_default = {int(i.split(":")[0]) for i in items}
        if self.no_default:
            self.out = reaches(u.ins, self.no_default)
            self.path = Path(str(u.ir_path) + ".pruned")
            write_ir2_file_pruned(u.ins, self.path, self.out)    # nothing that is left refers to a cut instance
            rc, o, err = run_lines(ref, [str(self.path)], ["wf"])
            if o != ["ok true"]:
                self.whole_unit_out = "wf2 is false for the pruned dump"

    def covers(self, tid):
        return self.whole_unit_out is None and int(tid) not in self.out

    def describe(self, u, tops):
        if self.whole_unit_out:
            return {"unit": u.name, "why": self.whole_unit_out, "types": [name for tid, name, x in tops][:40]}
        if self.out:
            return {"unit": u.name, "why": "no finite default object (first union variant contains the union): " +
                    ", ".join(u.ins[i]["name"] for i in sorted(self.no_default)[:8]),
                    "types": [name for tid, name, x in tops if tid in self.out][:40]}
        return None


def model_run(ref, mv, lines, tid_pos):
    """run the model on the lines whose type it covers; result list has None elsewhere"""
    # inputs above MODEL_MAX_LINE characters (FillRandom occasionally produces megabytes) are left to
    # the implementation-side oracle: the list-of-N model is too slow on them
    idx = [i for i, l in enumerate(lines) if len(l) <= MODEL_MAX_LINE and mv.covers(l.split(" ", tid_pos + 2)[tid_pos])]
    res = [None] * len(lines)
    if not idx:
        return res, None
    rc, out, err = run_lines(ref, [str(mv.path)], [lines[i] for i in idx], timeout=600)
    if rc != 0 or len(out) != len(idx):
        return None, f"model driver failed: rc={rc} {err[-300:]}"
    for i, o in zip(idx, out):
        res[i] = o
    return res, None


NONTERM = "write-of-default-object-does-not-terminate"


def crash_sig(pid, mv, u, tid, name, g):
    """stable signature of a Go crash/panic"""
    if ("stack" in g) and int(tid) in mv.out:
        return f"{pid}:{NONTERM}:{name}"
    return f"{pid}:panic:{u.name}:{name}"


def ir_notes(ins):
    """Facts about the dump the model relies on (reported in the evidence when violated)."""
    notes = []
    for x in ins:
        if x["kind"] != "struct" or not x.get("hasTL2"):
            continue
        for f in x["fields"]:
            if (f.get("mask") is None) != (f.get("tl2bit") is None):
                notes.append(f"{x['name']}.{f['name']}: TL1 mask and TL2 presence bit disagree")
            if f["name"].startswith("_"):
                notes.append(f"{x['name']}.{f['name']}: omitted field")
        if x.get("originTL2"):
            notes.append(f"{x['name']}: TL2-origin type")
    return notes


def tl2_corpus():
    return [s for s in repo_corpus(True) if s[3] == "*"]


PROBE_RECLIST = """
int#a8509bda ? = Int;
---types---
l.cons head:int tail:l.List = l.List;
l.nil = l.List;
l.box x:l.List = l.Box;
"""


def kernel_accepts(ctx, bins, files):
    ins, err = dump_ir(bins["verifdump"], files, Path(ctx.scratch) / "probe_ir.json", tl2_whitelist="*")
    return ins is not None


def accepted_random_specs(ctx, n, bins):
    """n random schemas the kernel accepts (rejected candidates cost one kernel run each)"""
    good, rejected = [], 0
    for sp in randschema.make_specs(ctx, 3 * n + 2, tl2=True):
        if len(good) >= n:
            break
        if kernel_accepts(ctx, bins, sp[1]):
            good.append((f"rs{len(good)}",) + tuple(sp[1:]))
        else:
            rejected += 1
    ctx.notes["random_schemas_rejected_by_kernel"] = ctx.notes.get("random_schemas_rejected_by_kernel", 0) + rejected
    return good


def tl2_units(ctx, n_rand, bins, extra_specs=()):
    specs = tl2_corpus() + accepted_random_specs(ctx, n_rand, bins) + list(extra_specs)
    units = prepare_units(ctx, specs, bins, driver_files=DRIVER_FILES)
    for u in units:
        if u.ins is not None and u.ir_path is not None:
            write_ir2_file(u.ins, u.ir_path)
    return units


def unit_tops(u):
    """factory-creatable closed top-level objects of a unit: (tid, name, instance)"""
    rc, items, err = run_lines(u.gen.exe, [], ["items"])
    have = {}
    if items and items[0].startswith("ok "):
        for x in items[0][3:].split(";"):
            p = x.split(",")
            have[p[0]] = p
    # a union element without fields is a factory pseudo-object (the registry item itself) whose
    # ReadTL2/WriteTL2 do nothing: not a TL2 object
    return [t for t in toplevel_objects(u.ins) if t[1] in have and have[t[1]][4] == "true"
            and not (t[2]["kind"] == "struct" and t[2].get("isUnionElement") and not t[2]["fields"])]


def size_prefixed(ins, tid):
    """does the TL2 encoding of the type start with a byte size (object / array / string)?
    Aliases are transparent; fixed-width primitives have no size."""
    x = ins[tid]
    seen = 0
    while x["kind"] == "struct" and x.get("isAlias") and seen < 32:
        x = ins[x["fields"][0]["type"]]
        seen += 1
    return not (x["kind"] == "prim" and x["name"] != "string")


def size2(n):
    if n < 254:
        return bytes([n])
    if n < 254 + 65536:
        return bytes([254]) + (n - 254).to_bytes(2, "little")
    return bytes([255]) + n.to_bytes(8, "little")


def parse_size2(b, i=0):
    """(value, next index) or None"""
    if i >= len(b):
        return None
    if b[i] < 254:
        return b[i], i + 1
    if b[i] == 254:
        if i + 3 > len(b):
            return None
        return 254 + int.from_bytes(b[i + 1:i + 3], "little"), i + 3
    if i + 9 > len(b):
        return None
    return int.from_bytes(b[i + 1:i + 9], "little"), i + 9


def mutate2(rng, b):
    """One mutation of a valid TL2 encoding (bytes)."""
    b = bytearray(b)
    if not b:
        return bytes(rng.getrandbits(8) for _ in range(rng.randrange(1, 6)))
    k = rng.randrange(9)
    if k == 0:
        return bytes(b[:rng.randrange(len(b))])
    if k == 1:
        i = rng.randrange(len(b))
        b[i] ^= 1 << rng.randrange(8)
    elif k == 2:
        b[rng.randrange(len(b))] = rng.choice([0, 1, 2, 3, 0x7f, 0x80, 0xfd, 0xfe, 0xff, rng.getrandbits(8)])
    elif k == 3:
        b += bytes(rng.getrandbits(8) for _ in range(rng.randrange(1, 9)))
    elif k == 4 and len(b) >= 2:
        i = rng.randrange(len(b))
        del b[i:i + rng.randrange(1, 4)]
    elif k == 5:
        i = rng.randrange(len(b) + 1)
        b[i:i] = bytes(rng.choice([0, 1, rng.getrandbits(8)]) for _ in range(rng.randrange(1, 4)))
    elif k == 6:   # a size byte position gets the huge form of some value
        i = rng.randrange(len(b))
        v = rng.choice([b[i], 0, 1, len(b), len(b) - i - 1, 1 << 40, (1 << 63) - 1, 1 << 63, (1 << 64) - 1])
        b[i:i + 1] = bytes([255]) + (v & ((1 << 64) - 1)).to_bytes(8, "little")
    elif k == 7:   # medium form
        i = rng.randrange(len(b))
        b[i:i + 1] = bytes([254]) + (rng.choice([0, 1, len(b), 65535]) & 0xffff).to_bytes(2, "little")
    else:          # outer size too large / too small
        b[0] = (b[0] + rng.choice([1, 2, 5, 100, 255])) & 0xff
    return bytes(b)


def oversize(rng, b):
    """The outermost declared size exceeds what follows (C13: must be rejected)."""
    p = parse_size2(b)
    if p is None:
        return None
    n, i = p
    have = len(b) - i
    if n == 0 and have == 0 and rng.random() < 0.5:
        return size2(rng.choice([1, 2, 300]))
    bigger = max(n, have) + rng.choice([1, 1, 2, 7, 1000, 70000])
    return size2(bigger) + b[i:] if rng.random() < 0.7 else bytes([255]) + bigger.to_bytes(8, "little") + b[i:]


class Sources:
    """TL2 byte strings of valid values of a unit, from the implementation itself."""

    def __init__(self, u, tops, rng, ref):
        self.u, self.tops, self.rng, self.ref = u, tops, rng, ref
        self.tid_of = {name: tid for tid, name, x in tops}
        self.stats = {"go_random_values": 0, "tl1_values": 0, "fillrandom_failures_left_to_C18": 0, "budget_skips": 0, "model_enc1_none": 0}
        self.write_crashes = []     # (op line, result): WriteTL2 of a FillRandom value died
        # number of boundary-size values to add (sizes at the edges of the 1/3/9-byte size forms)
        self.boundary = boundary_budget(u)
        self.boundary_kinds = {}

    def go_random(self, per_type):
        """[(tid, name, tl2 hex)] from FillRandom + WriteTL2"""
        rl = [f"rand2 {name} {self.rng.getrandbits(48)}" for tid, name, x in self.tops for _ in range(per_type)]
        out = run_lines_resilient(self.u.gen.exe, [], rl, timeout=600)
        res = []
        retry = []
        for l, o in zip(rl, out):
            name = l.split(" ")[1]
            if o.startswith("ok "):
                res.append((self.tid_of[name], name, o[3:]))
                self.stats["go_random_values"] += 1
            else:
                retry.append((l, o))
        if retry:
            # FillRandom alone: a crash there belongs to C18, otherwise WriteTL2 died
            r1 = run_lines_resilient(self.u.gen.exe, [], [l.replace("rand2 ", "fill2 ", 1) for l, o in retry], timeout=600)
            for (l, o), o1 in zip(retry, r1):
                if o1 == "ok":
                    self.write_crashes.append((l, o))
                else:
                    self.stats["fillrandom_failures_left_to_C18"] += 1
        return res

    def tl1_values(self, per_type):
        """[(tid, name, boxed, tl1 hex)]: type-directed TL1 wire values written by the TL1 model"""
        vg = ValueGen(self.u.ins, self.rng)
        lines = []
        for tid, name, x in self.tops:
            for _ in range(per_type):
                try:
                    v = vg.top(tid)
                except Budget:
                    self.stats["budget_skips"] += 1
                    break
                boxed = 1 if x["kind"] == "union" or self.rng.random() < 0.5 else 0
                lines.append(f"enc 0 {tid} {name} {boxed} | {vtext(v)}")
                if x["kind"] == "struct" and len(x["fields"]) >= 8 and not x.get("isAlias"):
                    # only fields of the first presence block(s) non-default: the body ends at a block boundary
                    for cut in {self.rng.randrange(1, 8), self.rng.randrange(1, len(x["fields"]) + 1)}:
                        try:
                            sv = sparsify(self.u.ins, tid, v, cut)
                        except Budget:
                            continue
                        lines.append(f"enc 0 {tid} {name} {boxed} | {vtext(sv)}")
                        self.stats["sparse_values"] = self.stats.get("sparse_values", 0) + 1
        if self.boundary:
            for tid, name, v, what in boundary_values(self.u.ins, self.tops, self.rng, self.boundary):
                boxed = 1 if self.u.ins[tid]["kind"] == "union" else 0
                lines.append(f"enc 0 {tid} {name} {boxed} | {vtext(v)}")
                self.stats["boundary_values"] = self.stats.get("boundary_values", 0) + 1
                self.boundary_kinds[what] = self.boundary_kinds.get(what, 0) + 1
        rc, out, err = run_lines(self.ref, [str(self.u.ir_path)], lines)
        res = []
        if rc != 0 or len(out) != len(lines):
            return None, f"model driver failed: rc={rc} {err[-300:]}"
        for l, o in zip(lines, out):
            f = l.split(" ")
            if o.startswith("ok "):
                res.append((int(f[2]), f[3], f[4], o[3:]))
                self.stats["tl1_values"] += 1
            else:
                self.stats["model_enc1_none"] += 1
        return res, None


def common_setup(ctx, props, n_rand, extra_specs=()):
    """consts, theorems, reference model, tools, units"""
    import time
    t0 = time.time()
    with Lock():
        cres = run_genconsts()
        thm = check_theorems(props)
        try:
            ref = build_refmodel(FAMILY)
            ref_err = None
        except RuntimeError as e:
            ref, ref_err = None, str(e)
    t1 = time.time()
    bins, berr = build_tools(ctx.scratch)
    t2 = time.time()
    units = []
    if not berr:
        units = tl2_units(ctx, n_rand, bins, extra_specs)
    ctx.notes["setup_s"] = {"coq_and_model": round(t1 - t0, 1), "tools": round(t2 - t1, 1), "units": round(time.time() - t2, 1)}
    log(f"[{ctx.pid}] setup: {ctx.notes['setup_s']}")
    return cres, thm, ref, ref_err, bins, berr, units


def report_infra(ctx, props_file, cres, thm, berr, ref_err, unit_errors, mism, corr):
    pid = ctx.pid
    if ctx.violations:
        return
    if cres.get("Prim"):
        ctx.violation(f"{pid}:tconst", "translator T-const failed: " + cres["Prim"], {"theorem": props_file, "error": cres["Prim"]}, no_input=True)
    elif not thm["ok"]:
        ctx.violation(f"{pid}:theorem", f"theorem no longer checks: {thm['failing_at']}", {"theorem_file": thm["props_file"], "failing_at": thm["failing_at"], "log": thm["log_tail"]}, no_input=True)
    if berr:
        ctx.violation(f"{pid}:tools", "cannot build tl2gen/verifdump from /repo: " + trunc(berr, 600), {"error": berr}, no_input=True)
    if ref_err:
        ctx.violation(f"{pid}:model-build", "reference model does not build: " + trunc(ref_err, 600), {"error": ref_err}, no_input=True)
    left = []
    for name, e in unit_errors[:20]:
        if name in CORPUS_UNITS or not str(e).startswith(("go build:", "tl2gen:")):
            ctx.violation(f"{pid}:unit:{name}", f"schema unit {name}: {trunc(e, 600)}", {"unit": name, "error": e}, no_input=True)
        else:
            # an accepted random schema whose generated code does not build is a defect of the
            # generator that C14 owns (e.g. `t Bool = T;` with --tl2WhiteList): the unit is not usable here
            left.append({"unit": name, "error": trunc(str(e)[-400:], 400)})
    if left:
        ctx.notes["random_units_that_do_not_build_left_to_C14"] = left
    for name, l, m, g in mism[:30]:
        ctx.violation(f"{pid}:corr:{name}:{trunc(l, 60)}", f"{corr} {name}: model and generated code differ on {trunc(l, 140)}: model={trunc(m, 90)} go={trunc(g, 90)}",
                      {"correspondence": corr, "unit": name, "op": l, "model": m, "go": g}, no_input=True)


def trusted_base(thm):
    return ["Coq 8.16.1 kernel", "translator overlay/cmd/verifdump (kernel dump -> schema IR) and lib/schema_ir.py + lib/tl2_lib.py (IR file writer)",
            "translator tools/genconsts (size markers)", "extraction ExtrOcamlBasic only; ocaml/conv.ml, ocaml/tl2/schema_io2.ml, ocaml/drv_tl2.ml",
            "Go harness harness/go/gendrv (ops_tl2.go); comparison in lib/checks",
            "axioms: " + (", ".join(thm["axioms"]) if thm["axioms"] else "none (every theorem closed under the global context)")]


# --------------------------------------------------------------------------- schema evolution (C13)

def evolve_schema(rng, text):
    """A copy of a random schema with fields appended to some structs / union variants
    (what a newer version of the schema may do without breaking TL2 readers).  Returns
    (new text, number of declarations changed)."""
    import re
    out = []
    changed = 0
    for line in text.split("\n"):
        m = re.match(r"^(rs\.[tu]\w+)((?: \{\w+:#\})*)((?: \S+)*) = (rs\.\S+(?: \w+)*);$", line)
        if not m or rng.random() < 0.4:
            out.append(line)
            continue
        name, tmpl, fields, res = m.groups()
        toks = fields.split()
        if toks and not all(":" in t for t in toks):      # typedef-bodied declaration: one anonymous field
            out.append(line)
            continue
        if name.startswith("rs.u") and not toks:            # keep enums enums
            out.append(line)
            continue
        nats = [t.split(":")[0] for t in toks if t.endswith(":#") and "?" not in t]
        add = []
        for k in range(rng.randrange(1, 4)):
            t = rng.choice(["int", "string", "long", "double", "Bool", "(vector int)", "(Maybe long)", "(tuple int 2)", "(dictionary int)", "true"])
            if nats and rng.random() < 0.4:
                add.append(f"g{k}:{rng.choice(nats)}.{rng.choice([4, 6, 7, 30])}?{t}")
            elif t != "true":
                add.append(f"g{k}:{t}")
        if not add:
            out.append(line)
            continue
        changed += 1
        out.append(f"{name}{tmpl}{fields} {' '.join(add)} = {res};")
    return "\n".join(out), changed


def evolution_specs(ctx, n, bins=None):
    """n (old, new) pairs of random schemas as unit specs named evo<i>_old / evo<i>_new
    (with [bins]: only pairs the kernel accepts)"""
    specs = []
    for i in range(n):
        for _ in range(30):
            g = randschema.Gen(ctx.rng, ntypes=ctx.rng.choice([4, 6, 8]))
            old = g.text()
            new, changed = evolve_schema(ctx.rng, old)
            if not changed:
                continue
            if bins is not None:
                ok = True
                for text in (old, new):
                    pth = Path(ctx.scratch) / "probe_evo.tl"
                    pth.write_text(text)
                    ok = ok and kernel_accepts(ctx, bins, [pth])
                if not ok:
                    continue
            break
        for tag, text in (("old", old), ("new", new)):
            d = Path(ctx.scratch) / f"evo{i}_{tag}"
            d.mkdir(exist_ok=True)
            (d / "s.tl").write_text(text)
            specs.append((f"evo{i}_{tag}", [d / "s.tl"], ["--tl2WhiteList=*"], "*", True))
    return specs


# --------------------------------------------------------------------------- TL2-origin schemas (C03: oracle only, not modelled)

TL2_PRIMS = ["uint32", "int32", "int64", "uint64", "float64", "float32", "string", "bool", "byte"]


def rand_tl2_schema(rng, ntypes=8):
    """Random .tl2 schema text: structs with 1-20 fields, optional fields, bits, reserved `_:T`
    fields at any index (forced onto the presence-block boundaries 7 / 15 in some structs),
    unions, enums, arrays, fixed arrays, maps, aliases.  Only earlier types are referenced."""
    lines = []
    structs, unions, aliases = [], [], []

    def texpr(depth=0):
        x = rng.random()
        if x < 0.45 or depth >= 2:
            return rng.choice(TL2_PRIMS)
        if x < 0.60:
            return "[]" + texpr(depth + 1)
        if x < 0.66:
            return f"[{rng.choice([0, 1, 2, 3, 8, 9])}]" + texpr(depth + 1)
        if x < 0.70:
            return f"[{rng.choice(['string', 'int32', 'int64', 'uint32'])}]" + texpr(depth + 1)
        pool = structs + unions + aliases
        if pool and x < 0.95:
            return rng.choice(pool)
        return rng.choice(TL2_PRIMS)

    def fields(nf, prefix="f"):
        fs = []
        forced = set()
        if nf > 8 and rng.random() < 0.6:
            forced.add(7)
        if nf > 16 and rng.random() < 0.6:
            forced.add(15)
        for i in range(nf):
            if i in forced or rng.random() < 0.08:
                fs.append("_:" + texpr())
            elif rng.random() < 0.15:
                fs.append(f"{prefix}{i}:bit")
            elif rng.random() < 0.3:
                fs.append(f"{prefix}{i}?:{texpr()}")
            else:
                fs.append(f"{prefix}{i}:{texpr()}")
        return " ".join(fs)

    for i in range(ntypes):
        k = rng.random()
        if k < 0.6:
            nf = rng.choice([1, 2, 3, 5, 7, 8, 9, 10, 12, 15, 16, 17, 20])
            lines.append(f"r.s{i} = {fields(nf)} ;")
            structs.append(f"r.s{i}")
        elif k < 0.8:
            vs = []
            for j in range(rng.choice([2, 3, 4])):
                m = rng.random()
                if m < 0.3:
                    vs.append(f"| v{j}")
                elif m < 0.45:
                    vs.append(f"| v{j} {texpr(1)}")
                else:
                    vs.append(f"| v{j} {fields(rng.choice([1, 2, 3, 8, 9, 10]), 'g')}")
            lines.append(f"r.U{i} = " + " ".join(vs) + " ;")
            unions.append(f"r.U{i}")
        elif k < 0.9:
            lines.append(f"r.a{i} <=> {texpr()} ;")
            aliases.append(f"r.a{i}")
        else:
            lines.append(f"r.E{i} = | a | b | c ;")
            unions.append(f"r.E{i}")
    # one struct that always has reserved fields on both boundaries and plain fields around them
    lines.append("r.wide = " + " ".join(("_:uint32" if i in (7, 15) else f"w{i}:{rng.choice(['uint32', 'string', 'int64', 'bool'])}") for i in range(18)) + " ;")
    return "\n".join(lines) + "\n"


class Tl2OriginUnit:
    """A TL2-origin schema generated and built with the current generator (no IR, no model)."""

    def __init__(self, ctx, name, files, bins):
        self.name, self.files = name, files
        self.error = None
        self.gen = None
        g = GenPkg(ctx.scratch, name, bins["tl2gen"], files, ["--tl2WhiteList=*"], driver_files=DRIVER_FILES)
        if not g.generate():
            self.error = "tl2gen: " + g.gen_log[-800:]
        elif not g.build():
            self.error = "go build: " + g.gen_log[-1500:]
        else:
            self.gen = g

    def names(self):
        rc, items, err = run_lines(self.gen.exe, [], ["items"])
        res = []
        if items and items[0].startswith("ok "):
            for x in items[0][3:].split(";"):
                p = x.split(",")
                if len(p) >= 5 and p[4] == "true":
                    res.append(p[0])
        return res


# --------------------------------------------------------------------------- wide structs (presence-block boundaries)

def wide_schema(rng):
    """TL1 schema with structs of 8-20 fields (several presence blocks), local masks incl. bits"""
    lines = ["w.inner a:int b:string = w.Inner;"]
    names = []
    for k in range(3):
        nf = rng.choice([8, 9, 10, 12, 15, 16, 17, 20])
        fs = ["m:#"]
        bit = 0
        for i in range(1, nf):
            t = rng.choice(["int", "long", "string", "double", "Bool", "(vector int)", "(Maybe int)", "w.inner", "(tuple int 2)"] + names)
            r = rng.random()
            if r < 0.2 and bit < 31:
                fs.append(f"f{i}:m.{bit}?{rng.choice(['int', 'string', 'true', 'true', 'long'])}")
                bit += 1
            else:
                fs.append(f"f{i}:{t}")
        lines.append(f"w.s{k} {' '.join(fs)} = w.S{k};")
        names.append(f"w.s{k}")
    lines.append("w.box items:(vector w.s0) last:w.s2 = w.Box;")
    # carriers of boundary-size values: a string / vectors directly in a struct and one level deeper
    lines.append("w.blob s:string v:(vector int) vs:(vector string) = w.Blob;")
    lines.append("w.blobBox pad:int b:w.blob t:string = w.BlobBox;")
    return randschema.HEADER + "\n".join(lines) + "\n"


def wide_spec(ctx):
    d = Path(ctx.scratch) / "wide"
    d.mkdir(exist_ok=True)
    (d / "s.tl").write_text(wide_schema(ctx.rng))
    return ("wide", [d / "s.tl"], ["--tl2WhiteList=*"], "*", True)


def default_value(ins, tid, depth=0):
    """the default (Reset) value of an instance in ValueGen's representation"""
    x = ins[tid]
    k = x["kind"]
    if depth > 40:
        raise Budget("default too deep")
    if k == "prim":
        p = PRIM_MAP.get(x["name"], "notl1")
        if p == "string":
            return ("s", b"")
        if p == "bool":
            return ("b", False)
        if p == "notl1":
            raise Budget("no TL1 default")
        return ("n", 0)
    if k == "struct":
        return ("S", [None if f.get("mask") is not None else default_value(ins, f["type"], depth + 1) for f in x["fields"]])
    if k == "union":
        v0 = ins[x["variants"][0]]
        return ("U", 0, [None if f.get("mask") is not None else default_value(ins, f["type"], depth + 1) for f in v0["fields"]])
    if k == "array" and x.get("isTuple") and not x.get("dynamicSize"):
        return ("A", [default_value(ins, x["elem"]["type"], depth + 1) for _ in range(x.get("count", 0))])
    return ("A", [])


def sparsify(ins, tid, v, cut):
    """the struct value [v] with every field from index [cut] on made absent / default (mask bits
    of the local mask fields cleared accordingly)"""
    x = ins[tid]
    if x["kind"] != "struct" or v[0] != "S":
        return v
    fs = list(v[1])
    for i in range(cut, len(fs)):
        f = x["fields"][i]
        m = f.get("mask")
        if m is not None:
            fs[i] = None
            if m["kind"] == "field" and fs[m["value"]] is not None and fs[m["value"]][0] == "n":
                fs[m["value"]] = ("n", fs[m["value"]][1] & ~(1 << f["bit"]))
            elif m["kind"] != "field":
                return v
        else:
            fs[i] = default_value(ins, f["type"])
    return ("S", fs)


def oracle_only_run(pid, u, rng, nrand, nmut):
    """Model-free oracle on a TL2-origin unit: FillRandom values are written, read back and
    re-written (identical bytes, exact consumption, idempotence, reused object), byte mutations
    must not panic and what they decode to must re-write idempotently.
    Returns (bad [(unit, op, result, sig)], stats)."""
    bad = []
    st = {"types": 0, "values": 0, "mutated": 0, "accepted_mutated": 0, "ops": 0, "fillrandom_failures_left_to_C18": 0}
    names = u.names()
    st["types"] = len(names)
    rl = [f"rand2 {n} {rng.getrandbits(48)}" for n in names for _ in range(nrand)]
    ro = run_lines_resilient(u.gen.exe, [], rl, timeout=600)
    vals, retry = [], []
    for l, o in zip(rl, ro):
        if o.startswith("ok "):
            vals.append((l.split(" ")[1], o[3:]))
        else:
            retry.append((l, o))
    if retry:
        r1 = run_lines_resilient(u.gen.exe, [], [l.replace("rand2 ", "fill2 ", 1) for l, o in retry], timeout=600)
        for (l, o), o1 in zip(retry, r1):
            if o1 == "ok":
                bad.append((u.name, l, o, f"{pid}:tl2-origin:write-crash:{u.name}:{l.split(' ')[1]}"))
            else:
                st["fillrandom_failures_left_to_C18"] += 1
    st["values"] = len(vals)
    ops = [(f"rw2 0 {n} {h}", True) for n, h in vals]
    for n, h in vals:
        b = bytes.fromhex(h) if h != "-" else b""
        for _ in range(nmut):
            ops.append((f"rw2 0 {n} {mutate2(rng, b).hex() or '-'}", False))
            st["mutated"] += 1
    lines = [o[0] for o in ops]
    go = run_lines_resilient(u.gen.exe, [], lines, timeout=900)
    idem, dirty = [], []
    longest = {}
    for n, h in vals:
        if h != "-" and len(h) > len(longest.get(n, "")):
            longest[n] = h
    for (l, own), g in zip(ops, go):
        f = l.split(" ")
        if g.startswith(("panic", "crash", "driver-error")):
            bad.append((u.name, l, g, f"{pid}:tl2-origin:panic:{u.name}:{f[2]}"))
            continue
        if own:
            n = 0 if f[3] == "-" else len(f[3]) // 2
            if g != f"ok {n} {f[3]}":
                bad.append((u.name, l, g, f"{pid}:tl2-origin:roundtrip:{u.name}:{f[2]}"))
        elif g.startswith("ok "):
            st["accepted_mutated"] += 1
        if g.startswith("ok "):
            idem.append(f"idem2 0 {f[2]} {f[3]}")
            if f[2] in longest:
                dirty.append((f"rw2d 0 {f[2]} {longest[f[2]]} {f[3]}", g))
    io = run_lines_resilient(u.gen.exe, [], idem, timeout=900)
    for l, g in zip(idem, io):
        if g != "ok":
            bad.append((u.name, l, g, f"{pid}:tl2-origin:idempotence:{u.name}:{l.split(' ')[2]}"))
    do = run_lines_resilient(u.gen.exe, [], [x[0] for x in dirty], timeout=900)
    for (l, want), g in zip(dirty, do):
        if g != want and g != "dirty-err":
            bad.append((u.name, l, g + " (a fresh object gives " + trunc(want, 120) + ")", f"{pid}:tl2-origin:reused-object:{u.name}:{l.split(' ')[2]}"))
    st["ops"] = len(lines) + len(idem) + len(dirty)
    return bad, st


def tl2_origin_units(ctx, bins, n_rand):
    """cases.tl2 of the repository and n_rand random .tl2 schemas, generated + built (parallel)"""
    specs = [("cases_tl2", [REPO / "internal/tlcodegen/test/tls/cases.tl2"])]
    for i in range(n_rand):
        d = Path(ctx.scratch) / f"rt{i}"
        d.mkdir(exist_ok=True)
        (d / "s.tl2").write_text(rand_tl2_schema(ctx.rng, ntypes=ctx.rng.choice([5, 8, 10])))
        specs.append((f"rt{i}", [d / "s.tl2"]))
    with ThreadPoolExecutor(max_workers=8) as ex:
        return list(ex.map(lambda sp: Tl2OriginUnit(ctx, sp[0], sp[1], bins), specs))


# --------------------------------------------------------------------------- boundary-size values
# Sizes at the edges of the TL2 varlen size forms (1 byte < 254 <= 3 bytes < 254+65536 <= 9 bytes):
# string lengths, array bodies and enclosing object bodies that land exactly on them.

def size2_len(n):
    return 1 if n < 254 else (3 if n < 254 + 65536 else 9)


def boundary_budget(u):
    """how many boundary values a unit gets: the `wide` unit (it has dedicated carrier types) and the
    repository corpus get some, random units a few"""
    return {"wide": 20, "cases": 4, "goldmaster": 3}.get(u.name, 2)


def leaf_paths(ins, tid, max_levels=3):
    """paths from instance [tid] through unmasked, parameter-free struct fields (aliases are
    transparent in TL2) to a string or a vector of int/long/string.
    -> [(steps, leaf)], steps = [(struct tid, field index, is_alias)], leaf in str|vec4|vec8|vecstr"""
    res = []

    def go(t, steps, levels):
        x = ins[t]
        if x["kind"] == "prim":
            if x["name"] == "string" and steps:
                res.append((list(steps), "str"))
            return
        if x["kind"] == "array" and not x.get("isTuple") and steps:
            e = ins[x["elem"]["type"]]
            while e["kind"] == "struct" and e.get("isAlias"):
                e = ins[e["fields"][0]["type"]]
            if e["kind"] == "prim" and not x["elem"].get("natArgs"):
                leaf = {"int32": "vec4", "uint32": "vec4", "int64": "vec8", "string": "vecstr"}.get(e["name"])
                if leaf and ins[x["elem"]["type"]]["kind"] == "prim":
                    res.append((list(steps), leaf))
            return
        if x["kind"] != "struct" or x.get("natParams") or x.get("isUnionElement") or x.get("isFunction"):
            return
        alias = bool(x.get("isAlias"))
        if not alias and levels >= max_levels:
            return
        for i, f in enumerate(x["fields"]):
            if f.get("mask") is None and not f.get("natArgs") and len(res) < 12:
                go(f["type"], steps + [(t, i, alias)], levels + (0 if alias else 1))

    go(tid, [], 0)
    return res


def default_is_empty(ins, tid, depth=0):
    """is the TL2 encoding of the default value of [tid] as a non-optional field empty (0 bytes)?
    Only fixed-size tuples with elements are always written."""
    x = ins[tid]
    if depth > 40:
        return False
    if x["kind"] == "struct":
        return all(f.get("mask") is not None or default_is_empty(ins, f["type"], depth + 1) for f in x["fields"])
    if x["kind"] == "union":
        return default_is_empty(ins, x["variants"][0], depth + 1)
    if x["kind"] == "array":
        return not (x.get("isTuple") and not x.get("dynamicSize") and x.get("count", 0) > 0)
    return True


def clean_levels(ins, steps):
    """number of enclosing (non-alias) structs, counted from the inside, all of whose other
    non-optional fields are empty by default: their body sizes can be computed exactly"""
    n = 0
    for t, i, alias in reversed(steps):
        if alias:
            continue
        x = ins[t]
        if all(j == i or f.get("mask") is not None or default_is_empty(ins, f["type"]) for j, f in enumerate(x["fields"])):
            n += 1
        else:
            break
    return n


def _with_leaf(ins, tid, steps, leafv):
    """default value of [tid] with the value at the end of [steps] replaced"""
    v = default_value(ins, tid)
    if not steps:
        return leafv
    (t, i, alias), rest = steps[0], steps[1:]
    fs = list(v[1])
    fs[i] = _with_leaf(ins, ins[t]["fields"][i]["type"], rest, leafv)
    return ("S", fs)


def _solve_len(levels, m, target):
    """string length L such that the size number at nesting level m is [target]: level 0 = the
    string length itself, level k = body size of the k-th enclosing (non-alias) struct, counted from
    the inside; [levels][k-1] = number of presence-block bytes that struct writes.  None if impossible."""
    sz = target
    for k in range(m, 0, -1):
        nb = levels[k - 1]
        for sl in (1, 3, 9):
            inner = sz - nb - sl
            if inner >= 1 and size2_len(inner) == sl:
                sz = inner
                break
        else:
            return None
    return sz


def boundary_values(ins, tops, rng, budget):
    """[(tid, name, value, what)]: at most [budget] values with boundary sizes"""
    cands = []
    for tid, name, x in tops:
        if x["kind"] != "struct":
            continue
        try:
            default_value(ins, tid)
        except (Budget, RecursionError):
            continue
        for steps, leaf in leaf_paths(ins, tid):
            nlev = clean_levels(ins, steps)      # enclosing sizes we can aim at exactly
            cands.append((nlev, tid, name, steps, leaf))
    if not cands:
        return []
    out = []

    def add(tid, name, steps, leafv, what):
        if len(out) < budget:
            try:
                out.append((tid, name, _with_leaf(ins, tid, steps, leafv), what))
            except (Budget, RecursionError):
                pass

    def sval(n):
        return ("s", bytes((i * 7 + 65) & 0x7f or 66 for i in range(n)))

    must = [65790, 65536, 254, 253, 65789, 65791, 65535]
    rest = [252, 255, 256, 65533, 65534, 65537, 65787, 65788, 65792]
    # arrays whose body size lands on the boundaries
    vecs = [c for c in cands if c[4] != "str"]
    rng.shuffle(vecs)
    seen = set()
    for nlev, tid, name, steps, leaf in vecs:
        if leaf in seen:
            continue
        seen.add(leaf)
        if leaf == "vecstr":
            for L, body in ((65786, 65790), (65532, 65536), (252, 254)):
                add(tid, name, steps, ("A", [sval(L)]), f"vector-of-string:body={body}")
        else:
            w = 4 if leaf == "vec4" else 8
            counts = [16447, 16383, rng.choice([63, 64, 16446])] if w == 4 else [8223, 8191, rng.choice([31, 32, 8224])]
            for n in counts:
                body = size2_len(n) + w * n
                add(tid, name, steps, ("A", [("n", (i * 2654435761) & 0xffffffff) for i in range(n)]), f"vector-of-{w}-byte:body={body}")
    # strings: the length itself, and the body sizes of the enclosing structs
    strs = [c for c in cands if c[4] == "str"]
    rng.shuffle(strs)
    strs.sort(key=lambda c: -c[0])        # deepest first: more enclosing sizes to aim at
    for k, (nlev, tid, name, steps, leaf) in enumerate(strs[:2]):
        levels = [(i + 1) // 8 + 1 for (t, i, alias) in reversed(steps) if not alias]
        for m in range(min(nlev, 2), -1, -1):
            if m == 0:
                targets = (must + [rng.choice(rest)]) if k == 0 else [rng.choice(rest)]
            else:
                targets = must[:3] if k == 0 else must[:2]
            for target in targets:
                L = _solve_len(levels, m, target)
                if L is not None:
                    add(tid, name, steps, sval(L), f"string-in-struct:size-level-{m}={target}")
    return out


# --------------------------------------------------------------------------- C11: TL2 leg

def c11_tl2_leg(ctx, n_rand=None):
    """C11 (wire formats match an independent reference codec), TL2 projection: the extracted Tl2
    reference model against freshly generated Go code on random TL2-enabled schemas (plus the
    generated `wide` schema with the boundary-size carriers).
      writer: TL1 wire values (type-directed, sparse, boundary-size) -> Go ReadTL1 + WriteTL2 must give the
              bytes the reference writes (enc2 of dec1), and FillRandom values written by Go must be
              re-written identically by the reference after reading them;
      reader: those TL2 bytes, 9-byte-size re-encodings of them and byte mutations: verdict, consumed
              length and canonical rewrite of Go's ReadTL2 must equal the reference's.
    Returns (ops, results, violations): ops = [(unit, op line, kind)], results = [(reference, go)],
    violations = [{"sig": "C11:tl2:<kind>...", "what", "data", "no_input"}] (nothing is reported to ctx)."""
    quick = ctx.quick()
    n_rand = n_rand if n_rand is not None else (3 if quick else 10)
    ops, results, viol = [], [], []

    def v(sig, what, data, no_input=False):
        if len(viol) < 40:
            viol.append({"sig": sig, "what": what, "data": data, "no_input": no_input})

    with Lock():
        try:
            ref = build_refmodel(FAMILY)
        except RuntimeError as e:
            v("C11:tl2:model-build", "Tl2 reference model does not build: " + trunc(str(e), 400), {"error": str(e)}, True)
            return ops, results, viol
    bins, berr = build_tools(ctx.scratch)
    if berr:
        v("C11:tl2:tools", "cannot build tl2gen/verifdump: " + trunc(berr, 400), {"error": berr}, True)
        return ops, results, viol
    specs = [(f"c11tl2_{sp[0]}",) + tuple(sp[1:]) for sp in accepted_random_specs(ctx, n_rand, bins)]
    w = wide_spec(ctx)
    units = prepare_units(ctx, specs + [w], bins, driver_files=DRIVER_FILES)
    for u in units:
        if u.ins is not None and u.ir_path is not None:
            write_ir2_file(u.ins, u.ir_path)
    lock = threading.Lock()
    rngs = {u.name: random.Random(ctx.rng.getrandbits(64)) for u in units}
    nval = 4 if quick else 30

    def work(u):
        rng = rngs[u.name]
        if u.kernel_rejected:
            return
        if u.error or not u.gen:
            if u.name == "wide" or not str(u.error).startswith(("go build:", "tl2gen:")):
                with lock:
                    v(f"C11:tl2:unit:{u.name}", f"schema unit {u.name}: {trunc(u.error, 400)}", {"unit": u.name, "error": u.error}, True)
            return
        tops = unit_tops(u)
        mv = ModelView(u, ref)
        src = Sources(u, tops, rng, ref)
        if u.name != "wide":
            src.boundary = 6
        uops, ures, uv = [], [], []
        tv, e = src.tl1_values(nval)
        if e:
            uv.append((f"C11:tl2:unit:{u.name}", f"{u.name}: {e}", {"unit": u.name, "error": e}, True))
        # writer
        cl = [f"conv {int(bool(u.san))} {tid} {name} {boxed} {h}" for tid, name, boxed, h in (tv or [])]
        cg = run_lines_resilient(u.gen.exe, [], cl, timeout=900)
        cm, e = model_run(ref, mv, cl, 2)
        if e:
            uv.append((f"C11:tl2:unit:{u.name}", f"{u.name}: {e}", {"unit": u.name, "error": e}, True))
            cm = [None] * len(cl)
        valid = []
        for l, g, m in zip(cl, cg, cm):
            f = l.split(" ")
            uops.append((u.name, l, "writer:tl1-value"))
            ures.append((m, g))
            if g.startswith(("panic", "crash")):
                uv.append((f"C11:tl2:panic:{f[3]}", f"{u.name}: generated code panics: {trunc(l, 140)} -> {trunc(g, 160)}", {"unit": u.name, "op": l, "go": g}, False))
            elif m is not None and g.split(" ")[:3] != m.split(" ")[:3]:
                uv.append((f"C11:tl2:writer:{f[3]}", f"{u.name}: TL2 bytes written by Go differ from the reference: {trunc(l, 140)}: reference={trunc(m, 100)} go={trunc(g, 100)}",
                           {"unit": u.name, "op": l, "model": m, "go": g}, False))
            gf = g.split(" ")
            if g.startswith("ok ") and len(gf) == 4:
                valid.append((int(f[2]), f[3], gf[2], "tl1-value"))
        valid += [(tid, name, h, "go-random") for tid, name, h in src.go_random(nval)]
        for l, o in src.write_crashes:
            uv.append((f"C11:tl2:panic:{l.split(' ')[1]}", f"{u.name}: WriteTL2 of a FillRandom value died: {l} -> {trunc(o, 160)}", {"unit": u.name, "op": l, "go": o}, False))
        # reader
        rl = [(f"rw2 {tid} {name} {h}", "reader:" + kind) for tid, name, h, kind in valid]
        re_l = [f"reenc {tid} {name} {3 * rng.getrandbits(20)} {h}" for tid, name, h, kind in valid if mv.covers(tid)]
        ro, e = model_run(ref, mv, re_l, 1)
        for l, o in zip(re_l, ro or []):
            f, g = l.split(" "), (o or "").split(" ")
            if o and o.startswith("ok ") and len(g) == 3:
                rl.append((f"rw2 {f[1]} {f[2]} {g[1]}", "reader:all-sizes-9-byte"))
        for tid, name, h, kind in valid:
            b = bytes.fromhex(h) if h != "-" else b""
            if len(b) < 5000:
                rl.append((f"rw2 {tid} {name} {mutate2(rng, b).hex() or '-'}", "reader:mutated"))
        lines = [x[0] for x in rl]
        go = run_lines_resilient(u.gen.exe, [], lines, timeout=900)
        mo, e = model_run(ref, mv, lines, 1)
        if e:
            uv.append((f"C11:tl2:unit:{u.name}", f"{u.name}: {e}", {"unit": u.name, "error": e}, True))
            mo = [None] * len(lines)
        for (l, kind), g, m in zip(rl, go, mo):
            f = l.split(" ")
            uops.append((u.name, l, kind))
            ures.append((m, g))
            if g.startswith(("panic", "crash")):
                uv.append((crash_sig("C11:tl2", mv, u, f[1], f[2], g), f"{u.name}: generated code panics: {trunc(l, 140)} -> {trunc(g, 160)}", {"unit": u.name, "op": l, "go": g}, False))
            elif m is not None and m != g:
                uv.append((f"C11:tl2:{kind.split(':')[0]}:{f[2]}", f"{u.name}: Go ReadTL2/WriteTL2 and the reference differ ({kind}): {trunc(l, 140)}: reference={trunc(m, 100)} go={trunc(g, 100)}",
                           {"unit": u.name, "op": l, "model": m, "go": g}, False))
        with lock:
            ops.extend(uops)
            results.extend(ures)
            for sig, what, data, ni in uv:
                v(sig, what, data, ni)

    with ThreadPoolExecutor(max_workers=8) as ex:
        list(ex.map(work, units))
    return ops, results, viol
