"""Shared machinery of the TL2 properties C03, C04, C13 (family "tl2").

* write_ir2_file: the schema IR file of lib/schema_ir.py plus the TL2 side information
  (`alias <tid>`, `bit <tid> <field>`, `uidx <tid> <union index>`) read by ocaml/tl2/schema_io2.ml.
* tl2_units: repository schemas and random schemas, all generated with --tl2WhiteList=*.
* Tl2Unit helpers: factory items, model well-formedness, value sources (FillRandom, TL1 wire values),
  TL2 byte mutators.
"""
import random
import threading
from concurrent.futures import ThreadPoolExecutor
from pathlib import Path

from vlib import *
from gencommon import *
import randschema

FAMILY = "tl2"
DRIVER_FILES = ["main.go", "ops_tl1.go", "ops_tl2.go"]
MODEL_MAX_LINE = 300000
CORPUS_UNITS = ("cases", "goldmaster", "probe_reclist")


def write_ir2_file(ins, path):
    write_ir_file(ins, path)
    extra = []
    for x in ins:
        if x["kind"] == "struct":
            if x.get("isAlias"):
                extra.append(f"alias {x['id']}")
            if x.get("isUnionElement") and x.get("unionIndex"):
                extra.append(f"uidx {x['id']} {x['unionIndex']}")
            for i, f in enumerate(x["fields"]):
                if f.get("isBit"):
                    extra.append(f"bit {x['id']} {i}")
    with open(path, "a") as fh:
        fh.write("\n".join(extra) + ("\n" if extra else ""))


def write_ir2_file_pruned(ins, path, bad):
    """the same file with the instances in `bad` replaced by an unusable primitive"""
    write_ir2_file(ins, path)
    lines = Path(path).read_text().split("\n")
    out, skip = [], 0
    for l in lines:
        f = l.split(" ")
        if skip:
            skip -= 1
            continue
        if f[0] in ("struct", "union", "array", "dict", "prim") and int(f[1]) in bad:
            out.append(f"prim {f[1]} notl1")
            skip = int(f[3]) if f[0] == "struct" else (1 if f[0] in ("array", "dict") else 0)
            continue
        if f[0] in ("alias", "bit", "uidx") and int(f[1]) in bad:
            continue
        out.append(l)
    Path(path).write_text("\n".join(out))


def reaches(ins, bad):
    """instances from which an instance of `bad` is reachable (fields, variants, elements)"""
    succ = {}
    for x in ins:
        e = [f["type"] for f in x.get("fields") or []]
        e += x.get("variants") or []
        if x.get("elem"):
            e.append(x["elem"]["type"])
        succ[x["id"]] = e
    res = set(bad)
    changed = True
    while changed:
        changed = False
        for i, e in succ.items():
            if i not in res and any(j in res for j in e):
                res.add(i)
                changed = True
    return res


class ModelView:
    """Which top-level types of a unit the model covers, and the IR file the model reads.
    Instances without a finite default object (a union whose first variant contains the union
    again: the generated writer does not terminate on them) are cut out of the model's schema;
    types that can contain such an instance are left to the model-free oracle."""

    def __init__(self, u, ref):
        self.path = u.ir_path
        self.whole_unit_out = None
        self.no_default = set()
        self.out = set()
        notes = ir_notes(u.ins)
        rc, o, err = run_lines(ref, [str(u.ir_path)], ["wfwhy"])
        if notes:
            self.whole_unit_out = "; ".join(notes[:5])
            return
        if rc != 0 or len(o) != 1 or not o[0].startswith("ok "):
            self.whole_unit_out = f"model driver failed on the dump: {err[-200:]}"
            return
        items = [] if o[0] == "ok -" else o[0][3:].split(",")
        other = [i for i in items if not i.endswith(":no-finite-default")]
        if other:
            self.whole_unit_out = "wf2 is false for the dump: " + ",".join(other[:8])
            return
        self.no_default = {int(i.split(":")[0]) for i in items}
        if self.no_default:
            self.out = reaches(u.ins, self.no_default)
            self.path = Path(str(u.ir_path) + ".pruned")
            write_ir2_file_pruned(u.ins, self.path, self.out)    # nothing that is left refers to a cut instance
            rc, o, err = run_lines(ref, [str(self.path)], ["wf"])
            if o != ["ok true"]:
                self.whole_unit_out = "wf2 is false for the pruned dump"

    def covers(self, tid):
        return self.whole_unit_out is None and int(tid) not in self.out

    def describe(self, u, tops):
        if self.whole_unit_out:
            return {"unit": u.name, "why": self.whole_unit_out, "types": [name for tid, name, x in tops][:40]}
        if self.out:
            return {"unit": u.name, "why": "no finite default object (first union variant contains the union): " +
                    ", ".join(u.ins[i]["name"] for i in sorted(self.no_default)[:8]),
                    "types": [name for tid, name, x in tops if tid in self.out][:40]}
        return None


def model_run(ref, mv, lines, tid_pos):
    """run the model on the lines whose type it covers; result list has None elsewhere"""
    # inputs above MODEL_MAX_LINE characters (FillRandom occasionally produces megabytes) are left to
    # the implementation-side oracle: the list-of-N model is too slow on them
    idx = [i for i, l in enumerate(lines) if len(l) <= MODEL_MAX_LINE and mv.covers(l.split(" ", tid_pos + 2)[tid_pos])]
    res = [None] * len(lines)
    if not idx:
        return res, None
    rc, out, err = run_lines(ref, [str(mv.path)], [lines[i] for i in idx], timeout=600)
    if rc != 0 or len(out) != len(idx):
        return None, f"model driver failed: rc={rc} {err[-300:]}"
    for i, o in zip(idx, out):
        res[i] = o
    return res, None


NONTERM = "write-of-default-object-does-not-terminate"


def crash_sig(pid, mv, u, tid, name, g):
    """stable signature of a Go crash/panic"""
    if ("stack" in g) and int(tid) in mv.out:
        return f"{pid}:{NONTERM}:{name}"
    return f"{pid}:panic:{u.name}:{name}"


def ir_notes(ins):
    """Facts about the dump the model relies on (reported in the evidence when violated)."""
    notes = []
    for x in ins:
        if x["kind"] != "struct" or not x.get("hasTL2"):
            continue
        for f in x["fields"]:
            if (f.get("mask") is None) != (f.get("tl2bit") is None):
                notes.append(f"{x['name']}.{f['name']}: TL1 mask and TL2 presence bit disagree")
            if f["name"].startswith("_"):
                notes.append(f"{x['name']}.{f['name']}: omitted field")
        if x.get("originTL2"):
            notes.append(f"{x['name']}: TL2-origin type")
    return notes


def tl2_corpus():
    return [s for s in repo_corpus(True) if s[3] == "*"]


PROBE_RECLIST = """
int#a8509bda ? = Int;
---types---
l.cons head:int tail:l.List = l.List;
l.nil = l.List;
l.box x:l.List = l.Box;
"""


def tl2_units(ctx, n_rand, bins, extra_specs=()):
    specs = tl2_corpus() + randschema.make_specs(ctx, n_rand, tl2=True) + list(extra_specs)
    units = prepare_units(ctx, specs, bins, driver_files=DRIVER_FILES)
    for u in units:
        if u.ins is not None and u.ir_path is not None:
            write_ir2_file(u.ins, u.ir_path)
    return units


def unit_tops(u):
    """factory-creatable closed top-level objects of a unit: (tid, name, instance)"""
    rc, items, err = run_lines(u.gen.exe, [], ["items"])
    have = {}
    if items and items[0].startswith("ok "):
        for x in items[0][3:].split(";"):
            p = x.split(",")
            have[p[0]] = p
    # a union element without fields is a factory pseudo-object (the registry item itself) whose
    # ReadTL2/WriteTL2 do nothing: not a TL2 object
    return [t for t in toplevel_objects(u.ins) if t[1] in have and have[t[1]][4] == "true"
            and not (t[2]["kind"] == "struct" and t[2].get("isUnionElement") and not t[2]["fields"])]


def size_prefixed(ins, tid):
    """does the TL2 encoding of the type start with a byte size (object / array / string)?
    Aliases are transparent; fixed-width primitives have no size."""
    x = ins[tid]
    seen = 0
    while x["kind"] == "struct" and x.get("isAlias") and seen < 32:
        x = ins[x["fields"][0]["type"]]
        seen += 1
    return not (x["kind"] == "prim" and x["name"] != "string")


def size2(n):
    if n < 254:
        return bytes([n])
    if n < 254 + 65536:
        return bytes([254]) + (n - 254).to_bytes(2, "little")
    return bytes([255]) + n.to_bytes(8, "little")


def parse_size2(b, i=0):
    """(value, next index) or None"""
    if i >= len(b):
        return None
    if b[i] < 254:
        return b[i], i + 1
    if b[i] == 254:
        if i + 3 > len(b):
            return None
        return 254 + int.from_bytes(b[i + 1:i + 3], "little"), i + 3
    if i + 9 > len(b):
        return None
    return int.from_bytes(b[i + 1:i + 9], "little"), i + 9


def mutate2(rng, b):
    """One mutation of a valid TL2 encoding (bytes)."""
    b = bytearray(b)
    if not b:
        return bytes(rng.getrandbits(8) for _ in range(rng.randrange(1, 6)))
    k = rng.randrange(9)
    if k == 0:
        return bytes(b[:rng.randrange(len(b))])
    if k == 1:
        i = rng.randrange(len(b))
        b[i] ^= 1 << rng.randrange(8)
    elif k == 2:
        b[rng.randrange(len(b))] = rng.choice([0, 1, 2, 3, 0x7f, 0x80, 0xfd, 0xfe, 0xff, rng.getrandbits(8)])
    elif k == 3:
        b += bytes(rng.getrandbits(8) for _ in range(rng.randrange(1, 9)))
    elif k == 4 and len(b) >= 2:
        i = rng.randrange(len(b))
        del b[i:i + rng.randrange(1, 4)]
    elif k == 5:
        i = rng.randrange(len(b) + 1)
        b[i:i] = bytes(rng.choice([0, 1, rng.getrandbits(8)]) for _ in range(rng.randrange(1, 4)))
    elif k == 6:   # a size byte position gets the huge form of some value
        i = rng.randrange(len(b))
        v = rng.choice([b[i], 0, 1, len(b), len(b) - i - 1, 1 << 40, (1 << 63) - 1, 1 << 63, (1 << 64) - 1])
        b[i:i + 1] = bytes([255]) + (v & ((1 << 64) - 1)).to_bytes(8, "little")
    elif k == 7:   # medium form
        i = rng.randrange(len(b))
        b[i:i + 1] = bytes([254]) + rng.choice([0, 1, len(b), 65535]).to_bytes(2, "little")
    else:          # outer size too large / too small
        b[0] = (b[0] + rng.choice([1, 2, 5, 100, 255])) & 0xff
    return bytes(b)


def oversize(rng, b):
    """The outermost declared size exceeds what follows (C13: must be rejected)."""
    p = parse_size2(b)
    if p is None:
        return None
    n, i = p
    have = len(b) - i
    if n == 0 and have == 0 and rng.random() < 0.5:
        return size2(rng.choice([1, 2, 300]))
    bigger = max(n, have) + rng.choice([1, 1, 2, 7, 1000, 70000])
    return size2(bigger) + b[i:] if rng.random() < 0.7 else bytes([255]) + bigger.to_bytes(8, "little") + b[i:]


class Sources:
    """TL2 byte strings of valid values of a unit, from the implementation itself."""

    def __init__(self, u, tops, rng, ref):
        self.u, self.tops, self.rng, self.ref = u, tops, rng, ref
        self.tid_of = {name: tid for tid, name, x in tops}
        self.stats = {"go_random_values": 0, "tl1_values": 0, "fillrandom_failures_left_to_C18": 0, "budget_skips": 0, "model_enc1_none": 0}
        self.write_crashes = []     # (op line, result): WriteTL2 of a FillRandom value died

    def go_random(self, per_type):
        """[(tid, name, tl2 hex)] from FillRandom + WriteTL2"""
        rl = [f"rand2 {name} {self.rng.getrandbits(48)}" for tid, name, x in self.tops for _ in range(per_type)]
        out = run_lines_resilient(self.u.gen.exe, [], rl, timeout=600)
        res = []
        retry = []
        for l, o in zip(rl, out):
            name = l.split(" ")[1]
            if o.startswith("ok "):
                res.append((self.tid_of[name], name, o[3:]))
                self.stats["go_random_values"] += 1
            else:
                retry.append((l, o))
        if retry:
            # FillRandom alone: a crash there belongs to C18, otherwise WriteTL2 died
            r1 = run_lines_resilient(self.u.gen.exe, [], [l.replace("rand2 ", "fill2 ", 1) for l, o in retry], timeout=600)
            for (l, o), o1 in zip(retry, r1):
                if o1 == "ok":
                    self.write_crashes.append((l, o))
                else:
                    self.stats["fillrandom_failures_left_to_C18"] += 1
        return res

    def tl1_values(self, per_type):
        """[(tid, name, boxed, tl1 hex)]: type-directed TL1 wire values written by the TL1 model"""
        vg = ValueGen(self.u.ins, self.rng)
        lines = []
        for tid, name, x in self.tops:
            for _ in range(per_type):
                try:
                    v = vg.top(tid)
                except Budget:
                    self.stats["budget_skips"] += 1
                    break
                boxed = 1 if x["kind"] == "union" or self.rng.random() < 0.5 else 0
                lines.append(f"enc 0 {tid} {name} {boxed} | {vtext(v)}")
        rc, out, err = run_lines(self.ref, [str(self.u.ir_path)], lines)
        res = []
        if rc != 0 or len(out) != len(lines):
            return None, f"model driver failed: rc={rc} {err[-300:]}"
        for l, o in zip(lines, out):
            f = l.split(" ")
            if o.startswith("ok "):
                res.append((int(f[2]), f[3], f[4], o[3:]))
                self.stats["tl1_values"] += 1
            else:
                self.stats["model_enc1_none"] += 1
        return res, None


def common_setup(ctx, props, n_rand, extra_specs=()):
    """consts, theorems, reference model, tools, units"""
    import time
    t0 = time.time()
    with Lock():
        cres = run_genconsts()
        thm = check_theorems(props)
        try:
            ref = build_refmodel(FAMILY)
            ref_err = None
        except RuntimeError as e:
            ref, ref_err = None, str(e)
    t1 = time.time()
    bins, berr = build_tools(ctx.scratch)
    t2 = time.time()
    units = []
    if not berr:
        units = tl2_units(ctx, n_rand, bins, extra_specs)
    ctx.notes["setup_s"] = {"coq_and_model": round(t1 - t0, 1), "tools": round(t2 - t1, 1), "units": round(time.time() - t2, 1)}
    log(f"[{ctx.pid}] setup: {ctx.notes['setup_s']}")
    return cres, thm, ref, ref_err, bins, berr, units


def report_infra(ctx, props_file, cres, thm, berr, ref_err, unit_errors, mism, corr):
    pid = ctx.pid
    if ctx.violations:
        return
    if cres.get("Prim"):
        ctx.violation(f"{pid}:tconst", "translator T-const failed: " + cres["Prim"], {"theorem": props_file, "error": cres["Prim"]}, no_input=True)
    elif not thm["ok"]:
        ctx.violation(f"{pid}:theorem", f"theorem no longer checks: {thm['failing_at']}", {"theorem_file": thm["props_file"], "failing_at": thm["failing_at"], "log": thm["log_tail"]}, no_input=True)
    if berr:
        ctx.violation(f"{pid}:tools", "cannot build tl2gen/verifdump from /repo: " + trunc(berr, 600), {"error": berr}, no_input=True)
    if ref_err:
        ctx.violation(f"{pid}:model-build", "reference model does not build: " + trunc(ref_err, 600), {"error": ref_err}, no_input=True)
    left = []
    for name, e in unit_errors[:20]:
        if name in CORPUS_UNITS or not str(e).startswith(("go build:", "tl2gen:")):
            ctx.violation(f"{pid}:unit:{name}", f"schema unit {name}: {trunc(e, 600)}", {"unit": name, "error": e}, no_input=True)
        else:
            # an accepted random schema whose generated code does not build is a defect of the
            # generator that C14 owns (e.g. `t Bool = T;` with --tl2WhiteList): the unit is not usable here
            left.append({"unit": name, "error": trunc(str(e)[-400:], 400)})
    if left:
        ctx.notes["random_units_that_do_not_build_left_to_C14"] = left
    for name, l, m, g in mism[:30]:
        ctx.violation(f"{pid}:corr:{name}:{trunc(l, 60)}", f"{corr} {name}: model and generated code differ on {trunc(l, 140)}: model={trunc(m, 90)} go={trunc(g, 90)}",
                      {"correspondence": corr, "unit": name, "op": l, "model": m, "go": g}, no_input=True)


def trusted_base(thm):
    return ["Coq 8.16.1 kernel", "translator overlay/cmd/verifdump (kernel dump -> schema IR) and lib/schema_ir.py + lib/tl2_lib.py (IR file writer)",
            "translator tools/genconsts (size markers)", "extraction ExtrOcamlBasic only; ocaml/conv.ml, ocaml/tl2/schema_io2.ml, ocaml/drv_tl2.ml",
            "Go harness harness/go/gendrv (ops_tl2.go); comparison in lib/checks",
            "axioms: " + (", ".join(thm["axioms"]) if thm["axioms"] else "none (every theorem closed under the global context)")]


# --------------------------------------------------------------------------- schema evolution (C13)

def evolve_schema(rng, text):
    """A copy of a random schema with fields appended to some structs / union variants
    (what a newer version of the schema may do without breaking TL2 readers).  Returns
    (new text, number of declarations changed)."""
    import re
    out = []
    changed = 0
    for line in text.split("\n"):
        m = re.match(r"^(rs\.[tu]\w+)((?: \{\w+:#\})*)((?: \S+)*) = (rs\.\S+(?: \w+)*);$", line)
        if not m or rng.random() < 0.4:
            out.append(line)
            continue
        name, tmpl, fields, res = m.groups()
        toks = fields.split()
        if toks and not all(":" in t for t in toks):      # typedef-bodied declaration: one anonymous field
            out.append(line)
            continue
        if name.startswith("rs.u") and not toks:            # keep enums enums
            out.append(line)
            continue
        nats = [t.split(":")[0] for t in toks if t.endswith(":#") and "?" not in t]
        add = []
        for k in range(rng.randrange(1, 4)):
            t = rng.choice(["int", "string", "long", "double", "Bool", "(vector int)", "(Maybe long)", "(tuple int 2)", "(dictionary int)", "true"])
            if nats and rng.random() < 0.4:
                add.append(f"g{k}:{rng.choice(nats)}.{rng.choice([4, 6, 7, 30])}?{t}")
            elif t != "true":
                add.append(f"g{k}:{t}")
        if not add:
            out.append(line)
            continue
        changed += 1
        out.append(f"{name}{tmpl}{fields} {' '.join(add)} = {res};")
    return "\n".join(out), changed


def evolution_specs(ctx, n):
    """n (old, new) pairs of random schemas as unit specs named evo<i>_old / evo<i>_new"""
    specs = []
    for i in range(n):
        for _ in range(20):
            g = randschema.Gen(ctx.rng, ntypes=ctx.rng.choice([4, 6, 8]))
            old = g.text()
            new, changed = evolve_schema(ctx.rng, old)
            if changed:
                break
        for tag, text in (("old", old), ("new", new)):
            d = Path(ctx.scratch) / f"evo{i}_{tag}"
            d.mkdir(exist_ok=True)
            (d / "s.tl").write_text(text)
            specs.append((f"evo{i}_{tag}", [d / "s.tl"], ["--tl2WhiteList=*"], "*", True))
    return specs
