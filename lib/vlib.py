"""Shared machinery for the /verif checks.

Every check (lib/checks/Cxx.py) goes through the same steps (DESIGN.md 2.4):
  1. regenerate Gen/*.v from /repo's current sources (translator T-const),
  2. re-check the property theorems (coqc, full .vo build, no -vos),
  3. run the correspondence: extracted OCaml model vs the Go implementation
     rebuilt from /repo's working tree, on the same operations,
  4. run the property oracle directly on the implementation's outputs,
  5. write evidence/<id>.json and print VIOLATION / KNOWN-FINDING lines.
"""
import fcntl
import hashlib
import json
import os
import random
import re
import shutil
import subprocess
import sys
import tempfile
import time
from pathlib import Path

VERIF = Path(__file__).resolve().parent.parent
REPO = Path(os.environ.get("VERIF_REPO", "/repo"))
BUILD = VERIF / "build"
COQ = VERIF / "coq"
NPROC = os.cpu_count() or 4


def log(*a):
    print(*a, file=sys.stderr, flush=True)


def goenv():
    env = dict(os.environ)
    env["GOFLAGS"] = "-mod=mod"
    try:   # on a heavily loaded machine do not add 16 more compile jobs per build
        if os.getloadavg()[0] > 2 * NPROC:
            env["GOFLAGS"] = "-mod=mod -p=3"
            env.setdefault("GOMAXPROCS", "4")
    except OSError:
        pass
    env["GOPROXY"] = "off"
    env.pop("GOSUMDB", None)       # GOSUMDB=off breaks the cached toolchain module
    env.pop("GOTOOLCHAIN", None)   # go.mod demands go1.24.0 (module-cache toolchain)
    env.setdefault("GOCACHE", str(BUILD / "gocache"))
    return env


def _big_stack():
    import resource
    try:
        resource.setrlimit(resource.RLIMIT_STACK, (resource.RLIM_INFINITY, resource.RLIM_INFINITY))
    except (ValueError, OSError):
        try:
            soft, hard = resource.getrlimit(resource.RLIMIT_STACK)
            resource.setrlimit(resource.RLIMIT_STACK, (hard, hard))
        except (ValueError, OSError):
            pass


def _limits(big_stack, mem_gb):
    def f():
        import resource
        if big_stack:
            _big_stack()
        if mem_gb:
            lim = int(mem_gb * (1 << 30))
            try:
                resource.setrlimit(resource.RLIMIT_AS, (lim, lim))
            except (ValueError, OSError):
                pass
    return f if (big_stack or mem_gb) else None


def sh(cmd, cwd=None, env=None, timeout=None, input=None, check=False, big_stack=False, mem_gb=None):
    """Run a command, return (rc, stdout, stderr) as text."""
    try:
        p = subprocess.run(cmd, cwd=cwd, env=env, timeout=timeout, input=input,
                           capture_output=True, text=True, shell=isinstance(cmd, str),
                           preexec_fn=_limits(big_stack, mem_gb))
    except subprocess.TimeoutExpired as e:
        out = e.stdout.decode() if isinstance(e.stdout, bytes) else (e.stdout or "")
        err = e.stderr.decode() if isinstance(e.stderr, bytes) else (e.stderr or "")
        return 124, out, err + "\n[timeout]"
    if check and p.returncode != 0:
        raise RuntimeError(f"command failed ({p.returncode}): {cmd}\n{p.stdout}\n{p.stderr}")
    return p.returncode, p.stdout, p.stderr


class Lock:
    """Exclusive lock over the shared build directory."""

    def __init__(self, name="build"):
        BUILD.mkdir(exist_ok=True)
        self.path = BUILD / f".{name}.lock"

    def __enter__(self):
        self.f = open(self.path, "w")
        fcntl.flock(self.f, fcntl.LOCK_EX)
        return self

    def __exit__(self, *a):
        fcntl.flock(self.f, fcntl.LOCK_UN)
        self.f.close()


def file_hash(paths):
    h = hashlib.sha256()
    for p in sorted(str(x) for x in paths):
        h.update(p.encode())
        try:
            h.update(Path(p).read_bytes())
        except OSError:
            h.update(b"<missing>")
    return h.hexdigest()


# --------------------------------------------------------------------------- T-const

def build_genconsts():
    src = VERIF / "tools" / "genconsts"
    binp = BUILD / "bin" / "genconsts"
    stamp = BUILD / "bin" / "genconsts.hash"
    hv = file_hash([src / "main.go", src / "go.mod"])
    if binp.exists() and stamp.exists() and stamp.read_text() == hv:
        return binp
    binp.parent.mkdir(parents=True, exist_ok=True)
    env = goenv()
    env["GOFLAGS"] = ""
    rc, out, err = sh(["go", "build", "-o", str(binp), "."], cwd=src, env=env, timeout=300)
    if rc != 0:
        raise RuntimeError("cannot build genconsts: " + out + err)
    stamp.write_text(hv)
    return binp


def run_genconsts():
    """Regenerate coq/theories/Gen/<Name>Consts.v for every spec. Returns {name: error or None}."""
    binp = build_genconsts()
    res = {}
    gen = COQ / "theories" / "Gen"
    gen.mkdir(parents=True, exist_ok=True)
    for spec in sorted((VERIF / "tools" / "genconsts" / "spec").glob("*.json")):
        name = spec.stem
        out = gen / f"{name}Consts.v"
        rc, so, se = sh([str(binp), str(REPO), str(spec), str(out)], timeout=120)
        if rc != 0:
            res[name] = (so + se).strip()
            if out.exists():
                out.unlink()  # dependants must not be checked against stale constants
        else:
            res[name] = None
    return res


# --------------------------------------------------------------------------- Coq

def coq_project():
    """(Re)generate _CoqProject and Makefile.coq from the files present."""
    files = sorted(str(p.relative_to(COQ)) for p in (COQ / "theories").rglob("*.v"))
    text = (COQ / "_CoqProject.in").read_text() + "\n".join(files) + "\n"
    proj = COQ / "_CoqProject"
    if not proj.exists() or proj.read_text() != text or not (COQ / "Makefile.coq").exists():
        proj.write_text(text)
        sh(["coq_makefile", "-f", "_CoqProject", "-o", "Makefile.coq"], cwd=COQ, check=True)


def coq_make(targets=None, keep_going=False, timeout=3000):
    coq_project()
    cmd = ["make", "-f", "Makefile.coq", f"-j{NPROC}"]
    if keep_going:
        cmd.append("-k")
    if targets:
        cmd += targets
    rc, out, err = sh(cmd, cwd=COQ, timeout=timeout)
    return rc, out + err


def parse_assumptions(props_file, output):
    """Pair each `Print Assumptions X.` of the file with the block coqc printed for it."""
    names = re.findall(r"^Print Assumptions\s+([A-Za-z0-9_'.]+)\s*\.", Path(props_file).read_text(), re.M)
    blocks = []
    cur = None
    for line in output.splitlines():
        if line.startswith("Closed under the global context"):
            if cur is not None:
                blocks.append(cur)
                cur = None
            blocks.append([])
        elif line.startswith("Axioms:"):
            if cur is not None:
                blocks.append(cur)
            cur = []
        elif cur is not None:
            if re.match(r"^(COQC|COQDEP|make|File |Error|Warning)", line):
                blocks.append(cur)
                cur = None
            elif re.match(r"^\S", line):
                cur.append(line.split(":")[0].strip())
    if cur is not None:
        blocks.append(cur)
    res = {}
    for i, n in enumerate(names):
        res[n] = blocks[i] if i < len(blocks) else None
    return names, res


def count_statements(props_file):
    txt = Path(props_file).read_text()
    return re.findall(r"^(?:Theorem|Corollary|Lemma|Example|Fact)\s+([A-Za-z0-9_']+)", txt, re.M)


def check_theorems(props_rel):
    """Rebuild theories/<props_rel>.vo (forcing the property file itself to be re-checked so
    that its Print Assumptions output is captured).  Returns a dict for the evidence."""
    vfile = COQ / "theories" / (props_rel + ".v")
    vo = COQ / "theories" / (props_rel + ".vo")
    if vo.exists():
        vo.unlink()
    t0 = time.time()
    rc, out = coq_make([f"theories/{props_rel}.vo"])
    stmts = count_statements(vfile)
    names, ass = parse_assumptions(vfile, out)
    axioms = sorted({a for v in ass.values() if v for a in v})
    ok = rc == 0 and vo.exists()
    failing = None
    if not ok:
        m = re.search(r'File "([^"]+)", line (\d+)', out)
        failing = f"{m.group(1)}:{m.group(2)}" if m else "unknown"
    discharged = len(stmts) if ok else sum(1 for n in names if ass.get(n) is not None)
    chk = None
    if ok and os.environ.get("VERIF_TIER_EFFECTIVE") == "thorough" and os.environ.get("VERIF_NO_COQCHK") != "1":
        # independent re-check of the compiled property file and everything it depends on
        mod = "TLV." + props_rel.replace("/", ".")
        rc2, so, se = sh(["coqchk", "-silent", "-o", "-Q", "theories", "TLV", mod], cwd=COQ, timeout=3000)
        tail = (so + se)[-1500:]
        chk = {"cmd": f"coqchk -silent -o -Q theories TLV {mod}", "rc": rc2, "output_tail": tail}
        if rc2 != 0:
            ok = False
            failing = "coqchk rejected " + mod
    return {
        "coqchk": chk,
        "ok": ok, "props_file": f"coq/theories/{props_rel}.v", "statements": stmts,
        "obligations": len(stmts), "discharged": discharged, "axioms": axioms,
        "assumptions": {k: ("closed" if v == [] else v) for k, v in ass.items()},
        "failing_at": failing, "log_tail": "" if ok else out[-3000:], "coq_s": round(time.time() - t0, 1),
    }


def forbidden_scan():
    """The development declares no axioms and leaves nothing admitted."""
    bad = []
    pat = re.compile(r"\b(Admitted|admit|Axiom|Axioms|Parameter|Parameters|Conjecture|Abort All|bypass_check|Unset Guard Checking|"
                     r"Unset Positivity Checking|Unset Universe Checking|Admit Obligations)\b")
    for p in list((COQ / "theories").rglob("*.v")) + list((COQ / "extract").glob("*.v")):
        txt = re.sub(r"\(\*.*?\*\)", "", p.read_text(), flags=re.S)
        for i, line in enumerate(txt.splitlines(), 1):
            if pat.search(line):
                bad.append(f"{p.relative_to(VERIF)}:{i}: {line.strip()}")
    return bad


# --------------------------------------------------------------------------- extraction / OCaml

def build_refmodel(family):
    """Extract the family's model and build build/ocaml/_build/default/drv_<family>.exe."""
    ex_v = COQ / "extract" / f"Extract_{family}.v"
    exdir = BUILD / "extract" / family
    exdir.mkdir(parents=True, exist_ok=True)
    model_srcs = [p for p in (COQ / "theories").rglob("*.v") if p.name.endswith("Model.v") or p.parent.name == "Gen"]
    hv = file_hash(model_srcs + [ex_v])
    stamp = exdir / ".hash"
    if not (stamp.exists() and stamp.read_text() == hv and any(exdir.glob("*.ml"))):
        if stamp.exists():
            stamp.unlink()   # a failed extraction must not leave a valid-looking stamp behind
        for old in list(exdir.glob("*.ml")) + list(exdir.glob("*.mli")):
            old.unlink()
        tmpv = exdir / f"Extract_{family}.v"
        shutil.copy(ex_v, tmpv)
        rc, out, err = sh(["coqc", "-Q", str(COQ / "theories"), "TLV", tmpv.name], cwd=exdir, timeout=900)
        if rc != 0:
            raise RuntimeError(f"extraction failed for {family}:\n{out}{err}")
        stamp.write_text(hv)
    odir = BUILD / "ocaml" / family
    odir.mkdir(parents=True, exist_ok=True)
    srcs = list(exdir.glob("*.ml")) + list(exdir.glob("*.mli")) + [VERIF / "ocaml" / "conv.ml", VERIF / "ocaml" / f"drv_{family}.ml"]
    extra = VERIF / "ocaml" / family
    if extra.is_dir():
        srcs += list(extra.glob("*.ml"))
    hv2 = file_hash(srcs)
    exe = odir / "_build" / "default" / f"drv_{family}.exe"
    stamp2 = odir / ".hash"
    if exe.exists() and stamp2.exists() and stamp2.read_text() == hv2:
        return exe
    for old in list(odir.glob("*.ml")) + list(odir.glob("*.mli")):
        old.unlink()
    for s in srcs:
        shutil.copy(s, odir / s.name)
    (odir / "dune-project").write_text("(lang dune 2.9)\n")
    (odir / "dune").write_text(f"(executable\n (name drv_{family})\n (libraries unix)\n (ocamlopt_flags (:standard -O3 -unsafe -inline 200))\n (flags (:standard -w -a)))\n")
    rc, out, err = sh(["dune", "build", "--profile", "release", f"./drv_{family}.exe"], cwd=odir, timeout=900)
    if rc != 0:
        raise RuntimeError(f"ocaml build failed for {family}:\n{out}{err}")
    stamp2.write_text(hv2)
    return exe


# --------------------------------------------------------------------------- Go harness

def build_go_harness(name, scratch, tags=None, extra_files=None):
    """Copy harness/go/<name> to scratch, point it at /repo's working tree, build it."""
    src = VERIF / "harness" / "go" / name
    dst = Path(scratch) / name
    if dst.exists():
        shutil.rmtree(dst)
    shutil.copytree(src, dst)
    tmpl = dst / "go.mod.tmpl"
    (dst / "go.mod").write_text(tmpl.read_text().replace("@REPO@", str(REPO)))
    tmpl.unlink()
    shutil.copy(REPO / "go.sum", dst / "go.sum")
    for rel, content in (extra_files or {}).items():
        (dst / rel).parent.mkdir(parents=True, exist_ok=True)
        (dst / rel).write_text(content)
    cmd = ["go", "build", "-o", name]
    if tags:
        cmd += ["-tags", tags]
    cmd.append(".")
    rc, out, err = sh(cmd, cwd=dst, env=goenv(), timeout=900)
    if rc != 0:
        return None, out + err
    return dst / name, ""


def run_lines(exe, args, lines, timeout=1800, env=None, cwd=None, mem_gb=None):
    """Feed one op per line, get one result per line."""
    data = "\n".join(lines) + "\n"
    cmd = [str(exe)] + list(args)
    rc, out, err = sh(cmd, input=data, timeout=timeout, env=env, cwd=cwd, big_stack=True, mem_gb=mem_gb)
    res = out.split("\n")
    if res and res[-1] == "":
        res.pop()
    return rc, res, err


# --------------------------------------------------------------------------- findings

def load_known():
    p = VERIF / "known_findings.json"
    if not p.exists():
        return []
    return json.loads(p.read_text()).get("findings", [])


# --------------------------------------------------------------------------- check context

class Ctx:
    def __init__(self, pid, tier, seed, replay=None):
        self.pid = pid
        self.tier = tier
        self.seed = seed
        self.replay = replay
        self.t0 = time.time()
        self.rng = random.Random(seed)
        self.scratch = Path(tempfile.mkdtemp(prefix=f"verif-{pid}-", dir=os.environ.get("VERIF_SCRATCH_BASE", "/var/tmp")))
        self.violations = []      # dicts: sig, what, replay data
        self.known_hits = []
        self.coverage = {"evaluations": 0, "distinct_nontrivial": 0, "samples": []}
        self.assumptions = []
        self.level = "proof"
        self.notes = {}
        self.known = [f for f in load_known() if f.get("property") == pid]

    def quick(self):
        return self.tier == "quick"

    def cleanup(self):
        if os.environ.get("VERIF_KEEP_SCRATCH") == "1":     # debugging aid: keep the generated schemas and packages of this run
            print(f"[{self.pid}] scratch kept: {self.scratch}", file=sys.stderr)
            return
        shutil.rmtree(self.scratch, ignore_errors=True)

    # -- reporting
    def violation(self, sig, what, data, no_input=False):
        """Record a violation candidate. `sig` identifies the specific failing input/call site."""
        for f in self.known:
            if f.get("status", "known") == "known" and (f.get("sig") == sig or (f.get("sig_regex") and re.fullmatch(f["sig_regex"], sig))):
                if not any(k["sig"] == sig for k in self.known_hits):
                    self.known_hits.append({"sig": sig, "finding": f.get("id"), "what": what})
                return
        self.violations.append({"sig": sig, "what": what, "data": data, "no_input": no_input})

    def finish(self):
        wall = round(time.time() - self.t0, 2)
        ev = {
            "property_id": self.pid, "tier": self.tier, "seed": self.seed, "level": self.level,
            "coverage": self.coverage, "assumptions": self.assumptions, "wall_s": wall,
            "violations": len(self.violations),
        }
        if self.known_hits:
            ev["coverage"]["known_findings_reproduced"] = self.known_hits
        ev["coverage"].update(self.notes)
        evdir = VERIF / "evidence"
        evdir.mkdir(exist_ok=True)
        tmp = evdir / f"{self.pid}.json.tmp"
        text = json.dumps(ev, indent=1, sort_keys=True, default=str)
        # keep the record small (readers may cap its size): halve the longest list in coverage until it fits in ~3 MB
        guard = 0
        while len(text) > 3_000_000 and guard < 40:
            guard += 1
            cov = ev["coverage"]
            lists = [(len(json.dumps(v, default=str)), k) for k, v in cov.items() if isinstance(v, list) and len(v) > 4]
            if not lists:
                break
            _, k = max(lists)
            cov.setdefault("truncated_lists", {})
            cov["truncated_lists"][k] = cov["truncated_lists"].get(k, len(cov[k]))
            cov[k] = cov[k][:max(4, len(cov[k]) // 2)]
            text = json.dumps(ev, indent=1, sort_keys=True, default=str)
        tmp.write_text(text + "\n")
        tmp.replace(evdir / f"{self.pid}.json")
        for k in self.known_hits:
            print(f"KNOWN-FINDING: property={self.pid} {k['finding']}: {k['what']}")
        rc = 0
        if self.violations:
            rdir = VERIF / "build" / "replay"
            rdir.mkdir(parents=True, exist_ok=True)
            # concrete failing inputs first
            vs = sorted(self.violations, key=lambda v: v["no_input"])
            v = vs[0]
            rp = rdir / f"{self.pid}-{self.tier}-{self.seed}.json"
            rp.write_text(json.dumps({"property": self.pid, "seed": self.seed, "tier": self.tier,
                                      "first": v, "all": vs[:50]}, indent=1, default=str) + "\n")
            tail = " no-failing-input-found" if v["no_input"] else ""
            log(f"[{self.pid}] {len(vs)} violation(s); first: {v['sig']}: {v['what']}")
            print(f"VIOLATION property={self.pid} replay={rp}{tail}")
            rc = 1
        self.cleanup()
        return rc


def compare_outputs(ctx, ops, model_out, go_out, corr_name, max_report=20):
    """Line-by-line diff of the two drivers' outputs. Returns list of (index, op, model, go)."""
    mism = []
    n = len(ops)
    if len(model_out) != n or len(go_out) != n:
        mism.append((-1, f"line-count ops={n} model={len(model_out)} go={len(go_out)}", "", ""))
    for i in range(min(n, len(model_out), len(go_out))):
        if model_out[i] != go_out[i]:
            mism.append((i, ops[i], model_out[i], go_out[i]))
    return mism


def trunc(s, n=300):
    s = str(s)
    return s if len(s) <= n else s[:n] + f"...(+{len(s) - n})"


# --------------------------------------------------------------------------- overlay harnesses (in-package access, no edit of /repo)

def build_overlay_test(pkg_rel, files, scratch, name=None, tags="verif", race=False):
    """Compile an in-package test binary for /repo/<pkg_rel> with add-only files injected by
    `go test -c -overlay`.  `files` maps a file name (placed virtually inside the package
    directory) to the real source path under /verif/overlay.  Returns (binary, error)."""
    scratch = Path(scratch)
    name = name or pkg_rel.replace("/", "_")
    ov = {"Replace": {str(REPO / pkg_rel / fn): str(src) for fn, src in files.items()}}
    ovp = scratch / f"{name}.overlay.json"
    ovp.write_text(json.dumps(ov))
    out = scratch / f"{name}.test"
    cmd = ["go", "test", "-c", "-vet=off", "-overlay", str(ovp), "-tags", tags, "-o", str(out)]
    if race:
        cmd.append("-race")
    cmd.append("./" + pkg_rel)
    rc, so, se = sh(cmd, cwd=REPO, env=goenv(), timeout=1200)
    if rc != 0 or not out.exists():
        return None, so + se
    return out, ""


def run_overlay_test(binary, test_name, ops_lines, scratch, timeout=1800, extra_env=None):
    """Run one Test function of an overlay test binary; ops go in through a file named by
    VERIF_OPS, results come back through VERIF_OUT (one line per op)."""
    scratch = Path(scratch)
    opsf = scratch / f"{test_name}.ops"
    outf = scratch / f"{test_name}.out"
    opsf.write_text("\n".join(ops_lines) + "\n")
    if outf.exists():
        outf.unlink()
    env = goenv()
    env["VERIF_OPS"] = str(opsf)
    env["VERIF_OUT"] = str(outf)
    env.update(extra_env or {})
    rc, so, se = sh([str(binary), "-test.run", f"^{test_name}$", "-test.count=1", "-test.timeout", f"{timeout}s"],
                    cwd=scratch, env=env, timeout=timeout + 60)
    res = []
    if outf.exists():
        res = outf.read_text().split("\n")
        if res and res[-1] == "":
            res.pop()
    return rc, res, so + se


# --------------------------------------------------------------------------- the standard check shape

def sample_by_kind(ops, maxlen=400):
    by = {}
    for i, o in enumerate(ops):
        if len(o[0]) < maxlen:
            by.setdefault(o[1], []).append(i)
    return [v[len(v) // 2] for v in by.values()]


def standard_run(ctx, *, props, family, consts, go_runner, gen_ops, oracle, corr_name,
                 trusted, assumptions, rule, model_args=(), model_timeout=1800, post=None):
    """The common shape of a check (DESIGN.md 2.4).

    props      -- 'Props/Cxx' (file with only the property theorems)
    family     -- model family: coq/extract/Extract_<family>.v + ocaml/drv_<family>.ml
    consts     -- names of the T-const specs this property depends on (tools/genconsts/spec/<Name>.json)
    go_runner  -- f(ctx, lines) -> (list of output lines | None, error text)   [implementation side]
    gen_ops    -- f(ctx) -> list of (op_line, kind, data)
    oracle     -- f(ctx, ops, go_out) -> list of (op_line, kind, go_output, sig)  property evaluated on Go's own outputs;
                  sig identifies the specific failure for known_findings.json
    post       -- optional f(ctx, ops, model_out, go_out) for extra evidence
    """
    pid = ctx.pid
    with Lock():
        cres = run_genconsts()
        thm = check_theorems(props)
        try:
            ref = build_refmodel(family)
            ref_err = None
        except RuntimeError as e:
            ref, ref_err = None, str(e)
    ops = gen_ops(ctx)
    lines = [o[0] for o in ops]
    go_out, goerr = go_runner(ctx, lines)
    model_out = None
    if ref:
        rc, model_out, err = run_lines(ref, list(model_args), lines, timeout=model_timeout)
        if rc != 0:
            ref_err = f"model driver exit {rc}: {err[-500:]}"
            model_out = None
    mism = []
    if go_out is not None and model_out is not None:
        mism = compare_outputs(ctx, lines, model_out, go_out, corr_name)
    bad = oracle(ctx, ops, go_out) if go_out is not None else []

    for b in bad[:40]:
        op, kind, out = b[0], b[1], b[2]
        sig = b[3] if len(b) > 3 else f"{pid}:oracle:{kind}:{trunc(op, 80)}"
        ctx.violation(sig, f"implementation breaks the property ({kind}): {trunc(op, 160)} -> {trunc(out, 160)}",
                      {"op": op, "kind": kind, "go": out})
    if not ctx.violations:
        cerr = [f"{n}: {cres[n]}" for n in consts if cres.get(n)]
        if cerr:
            ctx.violation(f"{pid}:tconst", "translator T-const failed: " + "; ".join(cerr),
                          {"theorem": f"all of coq/theories/{props}.v (constants missing)", "error": cerr}, no_input=True)
        elif not thm["ok"]:
            ctx.violation(f"{pid}:theorem", f"theorem no longer checks: {thm['failing_at']}",
                          {"theorem_file": thm["props_file"], "failing_at": thm["failing_at"], "log": thm["log_tail"]}, no_input=True)
        if go_out is None:
            ctx.violation(f"{pid}:go-build", "implementation harness does not build/run: " + trunc(goerr, 600), {"error": goerr}, no_input=True)
        if ref_err:
            ctx.violation(f"{pid}:model-build", "reference model does not build/run: " + trunc(ref_err, 600), {"error": ref_err}, no_input=True)
        for i, op, m, g in mism[:40]:
            ctx.violation(f"{pid}:corr:{trunc(op, 80)}",
                          f"{corr_name}: model and implementation differ on {trunc(op, 120)}: model={trunc(m, 100)} go={trunc(g, 100)}",
                          {"correspondence": corr_name, "op": op, "model": m, "go": g}, no_input=True)

    kinds, verdicts = {}, {}
    for o in ops:
        kinds[o[1]] = kinds.get(o[1], 0) + 1
    for o in (go_out or []):
        v = o.split(" ")[0]
        verdicts[v] = verdicts.get(v, 0) + 1
    ctx.coverage.update({
        "obligations": thm["obligations"], "discharged": thm["discharged"],
        "checker_cmd": f"make -f Makefile.coq theories/{props}.vo (coqc 8.16.1, full .vo build, in /verif/coq)",
        "trusted_base": ["Coq 8.16.1 kernel (coqc; vm_compute only in Examples / finite sweeps)",
                         "extraction with ExtrOcamlBasic only (no Extract Constant); OCaml 4.13.1; ocaml/conv.ml + ocaml/drv_%s.ml" % family]
                        + list(trusted)
                        + ["axioms: " + (", ".join(thm["axioms"]) if thm["axioms"] else "none (every theorem closed under the global context)")],
        "theorems": thm["statements"], "assumptions_per_theorem": thm["assumptions"], "coqchk": thm.get("coqchk"),
        "evaluations": len(ops), "distinct_nontrivial": len(set(lines)),
        "rule": rule, "op_kinds": kinds, "go_verdicts": verdicts,
        "correspondence": corr_name, "correspondence_mismatches": len(mism), "oracle_failures": len(bad),
        "samples": [{"op": trunc(lines[i], 160), "go": trunc(go_out[i], 160) if go_out and i < len(go_out) else None,
                     "model": trunc(model_out[i], 160) if model_out and i < len(model_out) else None}
                    for i in sample_by_kind(ops)] or [{"note": "no ops"}],
        "constants": {n: ("regenerated from source this run" if not cres.get(n) else "FAILED") for n in consts},
    })
    ctx.assumptions += list(assumptions)
    if post:
        post(ctx, ops, model_out, go_out)
    return thm, mism, bad


def run_lines_resilient(exe, args, lines, timeout=900, env=None, max_restarts=20, mem_gb=None):
    """Like run_lines, but when the process dies (e.g. fatal stack overflow, which recover()
    cannot catch) the line it died on gets the result 'crash <last stderr line>' and the
    remaining lines are run in a fresh process."""
    out = []
    pos = 0
    crashes = 0
    while pos < len(lines):
        rc, res, err = run_lines(exe, args, lines[pos:], timeout=timeout, env=env, mem_gb=mem_gb)
        out += res[:len(lines) - pos]
        pos = len(out)
        if pos >= len(lines):
            break
        # died on lines[pos]
        reason = "timeout" if rc == 124 else next((l for l in err.splitlines() if l.startswith(("fatal error", "runtime:", "panic"))), f"exit {rc}")
        if "out of memory" in err[:4000] or "cannot allocate" in err[:4000]:
            reason = "oom " + reason
        out.append("crash " + reason.replace("\n", " ")[:200])
        pos = len(out)
        crashes += 1
        if crashes > max_restarts:
            out += ["crash too-many-restarts"] * (len(lines) - pos)
            break
    return out
