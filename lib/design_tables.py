#!/usr/bin/env python3
"""Regenerates the generated tables of DESIGN.md section 11 (findings, seeded changes, per-property status)
between <!-- BEGIN:x --> / <!-- END:x --> markers from known_findings.json, seeded/*/meta.json, lib/manifest_data.py."""
import json, re, sys
from pathlib import Path
V = Path(__file__).resolve().parent.parent
sys.path.insert(0, str(V / "lib"))
from manifest_data import CHECKS, NOT_APPLICABLE

def esc(s):
    return str(s).replace("|", "\\|").replace("\n", " ")

kf = json.loads((V / "known_findings.json").read_text())["findings"]
rows = ["| id | property | status | sig / sig_regex | what fails (replay in known_findings.json) |", "|---|---|---|---|---|"]
def key(f):
    m = re.match(r"F(\d+)([a-z]?)", f["id"]); return (int(m.group(1)), m.group(2), f["property"])
for f in sorted(kf, key=key):
    st = f.get("status", "known") + (" " + f.get("commit", "") if f.get("status") == "fixed" else "")
    rows.append(f"| {f['id']} | {f['property']} | {st} | `{esc(f.get('sig') or f.get('sig_regex'))}` | {esc(f['what'])[:420]} |")
findings = "\n".join(rows)

rows = ["| seeded change (dir under /verif/seeded) | property | what it changes / needs | caught? | by what |", "|---|---|---|---|---|"]
for d in sorted((V / "seeded").iterdir()) if (V / "seeded").exists() else []:
    m = json.loads((d / "meta.json").read_text())
    rows.append(f"| {d.name} | {m['property']} | {esc(m.get('breaks'))[:260]} — needs: {esc(m.get('needs_to_manifest'))[:200]} | {esc(m.get('caught_by_our_check'))} | {esc(m.get('caught_by'))[:260]} |")
seeded = "\n".join(rows)

rows = ["| id | technique | note (assumptions / partial) |", "|---|---|---|"]
for c in sorted(CHECKS, key=lambda c: c["id"]):
    rows.append(f"| {c['id']} | {esc(c['technique'])[:300]} | {esc(c['note'])[:380]} |")
for n in NOT_APPLICABLE:
    rows.append(f"| {n['property_id']} | — not claimed — | {esc(n['reason'])[:300]} |")
status = "\n".join(rows)

p = V / "DESIGN.md"
s = p.read_text()
for name, body in (("findings", findings), ("seeded", seeded), ("status", status)):
    b, e = f"<!-- BEGIN:{name} -->", f"<!-- END:{name} -->"
    if b not in s:
        continue
    s = s[:s.index(b) + len(b)] + "\n" + body + "\n" + s[s.index(e):]
p.write_text(s)
print("DESIGN.md tables regenerated")
