"""Shared machinery of the Canon family (C21, C23, C25): overlay harness runner, corpus, random TL1 combinator
generator (text with random layout and equivalent syntax variants), S-expression reader for the AST dumps."""
import re
from pathlib import Path

import vlib

OVERLAY = {"verif_canon_test.go": vlib.VERIF / "overlay" / "internal" / "tlast" / "verif_canon_test.go"}


def hx(s):
    if isinstance(s, str):
        s = s.encode()
    return s.hex() if s else "-"


def unhx(h):
    return b"" if h == "-" else bytes.fromhex(h)


# --------------------------------------------------------------------------- harness

class Harness:
    def __init__(self, ctx):
        self.ctx = ctx
        self.bin, self.err = vlib.build_overlay_test("internal/tlast", OVERLAY, ctx.scratch, name="canon")
        self.n = 0

    def ok(self):
        return self.bin is not None

    def raw(self, lines):
        self.n += 1
        rc, res, log = vlib.run_overlay_test(self.bin, "TestVerifCanon", lines, self.ctx.scratch, timeout=600)
        if rc != 0 or len(res) != len(lines):
            raise RuntimeError(f"overlay harness failed rc={rc} lines={len(res)}/{len(lines)}: {log[-400:]}")
        return res

    def parse(self, items):
        """items: list of (text, opts). Returns list of Parsed."""
        res = self.raw([f"parse {o or '-'} {hx(t)}" for t, o in items])
        return [Parsed(r) for r in res]


class Parsed:
    def __init__(self, line):
        f = line.split("\t")
        self.raw = line
        self.ok = f[0] == "ok"
        self.err = None
        self.combs = []
        if not self.ok:
            self.err = unhx(line[4:]).decode("utf-8", "replace") if line.startswith("err ") else line
            return
        self.tlstring = unhx(f[1])
        self.listing = unhx(f[2])
        for i in range(3, len(f), 6):
            self.combs.append({"dump": f[i], "str": unhx(f[i + 1]), "canon": unhx(f[i + 2]),
                               "id": int(f[i + 3]), "gen": int(f[i + 4]), "line": unhx(f[i + 5])})


# --------------------------------------------------------------------------- corpus

def corpus():
    """All .tl files of the repository, (path, text); parsed like the kernel does (AllowDirty)."""
    res = []
    for p in sorted(vlib.REPO.rglob("*.tl")):
        try:
            res.append((str(p), p.read_bytes().decode("utf-8", "surrogateescape")))
        except OSError:
            pass
    return res


# --------------------------------------------------------------------------- S-expressions (dump reader for the oracles)

def sexp(s):
    toks = re.findall(r"[()]|[^\s()]+", s)
    pos = 0

    def rd():
        nonlocal pos
        t = toks[pos]
        pos += 1
        if t == "(":
            l = []
            while toks[pos] != ")":
                l.append(rd())
            pos += 1
            return l
        return t
    v = rd()
    if pos != len(toks):
        raise ValueError("trailing tokens in dump")
    return v


# indices into the combinator dump
C_BUILTIN, C_ISFUNC, C_MODS, C_NAME, C_ID, C_EXPL, C_TARGS, C_FIELDS, C_DECL, C_FUNC = range(1, 11)
# field: ['f', name, mask, excl, isrep, ['R', explicit, scale, ['F', ...]], tref]
F_NAME, F_MASK, F_EXCL, F_ISREP, F_REP, F_TYPE = range(1, 7)
# tref: ['t', name, bare, ['O', aot...]] ; aot: ['o', isarith, arith, tref] ; arith: ['a', res, nums...]


def name_str(n):
    ns, nm = unhx(n[1]).decode("latin1"), unhx(n[2]).decode("latin1")
    return (ns + "." if ns else "") + nm


# --------------------------------------------------------------------------- random combinators as text

LC = "abcdefghijklmnopqrstuvwxyz"
UCS = "ABCDEFGHIJKLMNOPQRSTUVWXYZ"
IDC = LC + UCS + "0123456789_"
MODS = ["any", "read", "write", "readwrite", "internal", "kphp", "foo", "x1"]
COMMON_T = ["int", "long", "string", "Int", "Vector", "vector", "tuple", "Tuple", "Bool", "true", "Maybe", "dictionary"]


class Gen:
    """Generates a combinator as a little syntax tree and renders it to token lists; every rendering of one tree
    must parse to the same AST (layout and equivalent-syntax variants)."""

    def __init__(self, rng):
        self.rng = rng

    def ident(self, upper=None, maxlen=7):
        r = self.rng
        if upper is None:
            upper = r.random() < 0.3
        n = 1 if r.random() < 0.25 else r.randrange(1, maxlen)
        return r.choice(UCS if upper else LC) + "".join(r.choice(IDC) for _ in range(n - 1))

    def name(self, upper=None):
        r = self.rng
        ns = self.ident(False, 5) + "." if r.random() < 0.35 else ""
        return ns + self.ident(upper)

    def num(self):
        r = self.rng
        p = r.random()
        if p < 0.6:
            return r.randrange(0, 12)
        if p < 0.9:
            return r.randrange(0, 100000)
        return r.randrange(0, 1 << 31)

    def arith(self):
        r = self.rng
        k = 1 if r.random() < 0.55 else r.randrange(2, 5)
        nums = [self.num() for _ in range(k)]
        while sum(nums) >= (1 << 32) - 1:
            nums = [n // 2 for n in nums]
        return {"k": "arith", "nums": nums}

    def typ(self, depth, allow_hash=True):
        r = self.rng
        if allow_hash and r.random() < 0.08:
            return {"k": "hash"}
        nm = r.choice(COMMON_T) if r.random() < 0.4 else self.name()
        args = []
        if depth > 0 and r.random() < 0.5:
            for _ in range(r.randrange(1, 4)):
                args.append(self.arith() if r.random() < 0.3 else self.typ(depth - 1))
        return {"k": "type", "bare": r.random() < 0.3, "name": nm, "args": args}

    def field(self, depth, names=True):
        r = self.rng
        f = {"name": self.ident(maxlen=6) if (names and r.random() < 0.8) else "", "mask": None, "excl": r.random() < 0.12}
        if r.random() < 0.25:
            f["mask"] = (self.ident(maxlen=4), r.randrange(0, 32) if r.random() < 0.9 else r.randrange(0, 1 << 32))
        if depth > 0 and r.random() < 0.25:
            p = r.random()
            scale = None if p < 0.35 else (("id", self.ident(maxlen=4)) if p < 0.75 else ("arith", self.arith()["nums"]))
            f["rep"] = {"scale": scale, "fields": [self.field(depth - 1, names=r.random() < 0.6) for _ in range(r.choice([0, 1, 1, 1, 2, 3]))]}
        else:
            f["type"] = self.typ(2)
        return f

    def comb(self):
        r = self.rng
        c = {"mods": [r.choice(MODS) for _ in range(r.choice([0, 0, 0, 1, 1, 2, 3, 5, 12]))] if r.random() < 0.5 else [],
             "name": self.name(False), "tag": None, "targs": [], "fields": [], "builtin": False}
        p = r.random()
        if p < 0.04:
            c["tag"] = 0
        elif p < 0.4:
            c["tag"] = r.randrange(1, 1 << 32)
        for _ in range(r.choice([0, 0, 0, 1, 1, 2, 3])):
            c["targs"].append((self.ident(maxlen=4), r.random() < 0.5))
        c["func"] = r.random() < 0.35
        if not c["func"] and r.random() < 0.05:
            c["builtin"] = True
        else:
            c["fields"] = [self.field(2) for _ in range(r.choice([0, 1, 1, 2, 2, 3, 4, 6]))]
        if c["func"]:
            t = self.typ(2, allow_hash=False)
            c["result"] = t
        else:
            c["decl"] = (self.name(True), [self.ident(maxlen=4) for _ in range(r.choice([0, 0, 1, 2]))])
        return c

    # ---- rendering to tokens; `var` = True chooses among the equivalent spellings at random, False = plainest one
    def t_num(self, n, var):
        s = str(n)
        if var and self.rng.random() < 0.15:
            s = "0" * self.rng.randrange(1, 3) + s
        return s

    def t_arith(self, nums, var, need_paren=False):
        r = self.rng
        toks = []
        for i, n in enumerate(nums):
            if i:
                toks.append("+")
            if var and r.random() < 0.15:
                toks += ["(", self.t_num(n, var), ")"]
            else:
                toks.append(self.t_num(n, var))
        if var and len(nums) > 1 and r.random() < 0.2:
            # right-nested tail: a + (b + c)
            head = toks[:toks.index("+") + 1]
            tail = toks[toks.index("+") + 1:]
            toks = head + ["("] + tail + [")"]
        if need_paren or (var and r.random() < 0.2):
            toks = ["("] + toks + [")"]
        return toks

    def t_arg(self, a, var, flat_ok=False):
        if a["k"] == "arith":
            return self.t_arith(a["nums"], var)
        return self.t_type(a, var, "flat" if flat_ok else "arg")

    def t_type(self, t, var, ctx):
        """ctx: 'arg' (field type / argument: application needs brackets), 'flat' (argument inside <>: may be written
        without brackets), 'top' (function result: flat, round brackets not allowed at the start)."""
        r = self.rng
        if t["k"] == "hash":
            return ["#"]
        pct = ["%"] if t["bare"] else []
        if not t["args"]:
            if ctx != "top" and var and r.random() < 0.1:
                if r.random() < 0.5:
                    return pct + ["(", t["name"], ")"]
                return ["("] + pct + [t["name"], ")"]
            return pct + [t["name"]]
        style = "paren"
        if ctx == "top":
            style = "flat" if not var or r.random() < 0.6 else "angle"
        elif var:
            p = r.random()
            style = "angle" if p < 0.35 else ("flat" if (ctx == "flat" and p < 0.6) else "paren")
        if style == "angle":
            toks = pct + [t["name"], "<"]
            for i, a in enumerate(t["args"]):
                if i:
                    toks.append(",")
                toks += self.t_arg(a, var, flat_ok=True)
            return toks + [">"]
        inner = [t["name"]]
        for a in t["args"]:
            inner += self.t_arg(a, var)
        if style == "flat":
            return pct + inner
        if var and pct and r.random() < 0.4:
            toks = ["("] + pct + inner + [")"]
        else:
            toks = pct + ["("] + inner + [")"]
        if var and r.random() < 0.08:
            toks = ["("] + toks + [")"]
        return toks

    def t_field(self, f, var):
        toks = []
        if f["name"]:
            toks += [f["name"], ":"]
        if f["mask"]:
            toks += [f["mask"][0], ".", self.t_num(f["mask"][1], var), "?"]
        if f["excl"]:
            toks.append("!")
        if "rep" in f:
            sc = f["rep"]["scale"]
            if sc:
                if sc[0] == "id":
                    toks.append(sc[1])
                else:
                    toks += self.t_arith(sc[1], var, need_paren=len(sc[1]) > 1 and not var and False)
                toks.append("*")
            toks.append("[")
            for g in f["rep"]["fields"]:
                toks += self.t_field(g, var)
            toks.append("]")
        else:
            toks += self.t_type(f["type"], var, "arg")
        return toks

    def t_comb(self, c, var, arrow=False):
        """arrow=True writes a function with '=>' (valid in any section)."""
        toks = ["@" + m for m in c["mods"]]
        toks.append(c["name"])
        if c["tag"] is not None:
            toks.append("#%08x" % c["tag"])
        for n, isnat in c["targs"]:
            toks += ["{", n, ":", "#" if isnat else "Type", "}"]
        if c["builtin"]:
            toks.append("?")
        for f in c["fields"]:
            toks += self.t_field(f, var)
        toks.append("=>" if (c["func"] and arrow) else "=")
        if c["func"]:
            toks += self.t_type(c["result"], var, "top")
        else:
            toks.append(c["decl"][0])
            toks += c["decl"][1]
        toks.append(";")
        return toks

    # ---- layout
    def need_sep(self, a, b):
        return (a[-1] in IDC or a[-1] == "#") and b[0] in IDC

    def ws(self):
        r = self.rng
        p = r.random()
        if p < 0.45:
            return " " * r.randrange(1, 4)
        if p < 0.6:
            return "\n" + " " * r.randrange(0, 5)
        if p < 0.7:
            return "\t"
        if p < 0.78:
            return "\r\n"
        if p < 0.92:
            return " //" + "".join(r.choice(" abc;=#%[]{}()éxyz0123456789") for _ in range(r.randrange(0, 12))) + "\n"
        return " \n\n\t "

    def render(self, toks, style):
        """style: 'min' (only the separators the lexer needs), 'one' (one space everywhere), 'rand'."""
        r = self.rng
        out = []
        if style == "rand" and r.random() < 0.3:
            out.append(self.ws())
        for i, t in enumerate(toks):
            if i:
                need = self.need_sep(toks[i - 1], t)
                if style == "min":
                    out.append(" " if need else "")
                elif style == "one":
                    out.append(" ")
                else:
                    if need or r.random() < 0.5:
                        out.append(self.ws())
            out.append(t)
        if style == "rand" and r.random() < 0.5:
            out.append(self.ws() if r.random() < 0.7 else " // trailing comment without newline")
        return "".join(out)

    def text(self, c, var, style):
        """One combinator as a complete schema text (a function gets either '=>' or a functions section)."""
        arrow = c["func"] and (var and self.rng.random() < 0.5)
        toks = self.t_comb(c, var, arrow)
        if c["func"] and not arrow:
            toks = ["---functions---"] + toks
        elif var and self.rng.random() < 0.15:
            toks = ["---types---"] + toks
        return self.render(toks, style)


# --------------------------------------------------------------------------- semantically valid schemas (for the real tl2gen)

PRELUDE = """int#a8509bda ? = Int;
long#22076cba ? = Long;
float#824dab22 ? = Float;
double#2210c154 ? = Double;
string#b5286e24 ? = String;
vector#1cb5c415 {t:Type} # [t] = Vector t;
tuple#9770768a {t:Type} {n:#} [t] = Tuple t n;
boolFalse#bc799737 = Bool;
boolTrue#997275b5 = Bool;
true = True;
"""


def valid_schema(rng, n_types=8, n_funcs=4):
    """A schema the kernel accepts: structs, templates with Type and # arguments, unions, field masks, repeats,
    nested type applications, functions with annotations.  Returns the schema text."""
    lines = [PRELUDE]
    nss = ["", "a.", "bq."]
    plain = []      # (constructor name, Type name) of argument-free single-constructor types
    tmpl = []       # (constructor, Type, kinds) with kinds a list of 'T'/'N'
    uni = []        # union Type names
    used = set()

    def fresh(stem):
        while True:
            s = stem + "".join(rng.choice(LC) for _ in range(rng.randrange(1, 4))) + str(rng.randrange(0, 100))
            if s.lower() not in used:
                used.add(s.lower())
                return s

    def tag():
        return "#%08x" % rng.randrange(1, 1 << 32) if rng.random() < 0.5 else ""

    def ty(depth, tvars=(), nvars=()):
        p = rng.random()
        if p < 0.3 or depth <= 0:
            c = ["int", "long", "string", "%Int", "Bool", "true", "double", "float"]
            if tvars:
                c += list(tvars) * 2
            return rng.choice(c)
        if p < 0.45 and plain:
            c, t = rng.choice(plain)
            return rng.choice([c, t, "%" + t])
        if p < 0.5 and uni:
            return rng.choice(uni)
        if p < 0.7:
            inner = ty(depth - 1, tvars, nvars)
            return rng.choice(["(vector %s)", "(%%Vector %s)", "vector<%s>", "(Vector %s)"]) % inner
        if p < 0.85:
            inner = ty(depth - 1, tvars, nvars)
            n = rng.choice(list(nvars) + [str(rng.randrange(0, 5)), "1+2"]) if rng.random() < 0.7 else str(rng.randrange(0, 4))
            return rng.choice(["(tuple %s %s)", "(%%Tuple %s %s)", "tuple<%s,%s>"]) % (inner, n)
        if tmpl:
            c, t, kinds = rng.choice(tmpl)
            args = [ty(depth - 1, tvars, nvars) if k == "T" else rng.choice(list(nvars) + [str(rng.randrange(0, 4))]) for k in kinds]
            head = rng.choice([c, t])
            return "(" + head + " " + " ".join(args) + ")"
        return "int"

    def fields(tvars=(), nvars=()):
        out = []
        nv = list(nvars)       # usable as sizes / nat arguments
        mv = []                # usable as field masks (a #-field cannot be both)
        prev_nat = False
        for i in range(rng.choice([0, 1, 2, 2, 3, 4, 5])):
            fn = "f%d" % i
            p = rng.random()
            if p < 0.2:
                out.append(f"{fn}:#")
                (nv if rng.random() < 0.5 else mv).append(fn)
                prev_nat = fn in nv
                continue
            mask = ""
            if mv and rng.random() < 0.4:
                mask = f"{rng.choice(mv)}.{rng.randrange(0, 32)}?"
            if p < 0.35 and not mask:
                if prev_nat and rng.random() < 0.5:
                    star = ""
                else:
                    star = rng.choice(nv + [str(rng.randrange(0, 4)), "1+1"]) + "*"
                out.append(f"{fn}:{star}[{ty(1, tvars, nv)}]")
            else:
                t = ty(2, tvars, nv)
                if mask and t in ("Bool",):
                    t = "true"
                out.append(f"{fn}:{mask}{t}")
            prev_nat = False
        return " ".join(out)

    for _ in range(n_types):
        ns = rng.choice(nss)
        p = rng.random()
        if p < 0.5:
            nm = fresh("s")
            cn, tn = ns + nm, ns + nm[0].upper() + nm[1:]
            lines.append(f"{cn}{tag()} {fields()} = {tn};")
            plain.append((cn, tn))
        elif p < 0.75:
            nm = fresh("p")
            cn, tn = ns + nm, ns + nm[0].upper() + nm[1:]
            kinds = [rng.choice("TN") for _ in range(rng.randrange(1, 4))]
            names = [("t%d" % i if k == "T" else "n%d" % i) for i, k in enumerate(kinds)]
            targs = " ".join("{%s:%s}" % (n, "Type" if k == "T" else "#") for n, k in zip(names, kinds))
            tv = [n for n, k in zip(names, kinds) if k == "T"]
            nv = [n for n, k in zip(names, kinds) if k == "N"]
            lines.append(f"{cn}{tag()} {targs} {fields(tv, nv)} = {tn} {' '.join(names)};")
            tmpl.append((cn, tn, kinds))
        else:
            nm = fresh("u")
            tn = ns + nm[0].upper() + nm[1:]
            for k in range(rng.randrange(2, 4)):
                lines.append(f"{ns}{nm}{'abc'[k]}{tag()} {fields()} = {tn};")
            uni.append(tn)
    # namespaced constructors whose local name is (or starts with) a primitive name: they are NOT the primitive
    # wrappers the listing skips and must be listed
    prims = ["int", "long", "float", "double", "string"]
    prim_ns = rng.sample(["geo.", "pq.", "zx9."], 2)
    for ns in prim_ns:
        for pn in rng.sample(prims, rng.randrange(1, 4)):
            nm = pn + rng.choice(["", "", "x", "2", "_t"])
            if (ns + nm).lower() in used:
                continue
            used.add((ns + nm).lower())
            cn, tn = ns + nm, ns + nm[0].upper() + nm[1:]
            lines.append(f"{cn}{tag()} {fields()} = {tn};")
            plain.append((cn, tn))
    if rng.random() < 0.5:
        nm = rng.choice(prims) + rng.choice(["er", "s", "1"])
        if nm.lower() not in used:
            used.add(nm.lower())
            lines.append(f"{nm}{tag()} {fields()} = {nm[0].upper() + nm[1:]};")
            plain.append((nm, nm[0].upper() + nm[1:]))
    lines.append("---functions---")
    for ns in prim_ns:
        pn = rng.choice(prims)
        if (ns + pn).lower() not in used:
            used.add((ns + pn).lower())
            lines.append(f"@read {ns}{pn}{tag()} {fields()} = Int;")
    for _ in range(n_funcs):
        ns = rng.choice(nss)
        nm = fresh("g")
        mods = " ".join("@" + m for m in rng.sample(["any", "read", "write", "readwrite", "internal", "kphp"], rng.choice([0, 1, 1, 2, 3])))
        q = rng.random()
        if q < 0.3:
            res = rng.choice(["Int", "Long", "String", "Bool", "True", "Double"])
        elif q < 0.5 and plain:
            res = rng.choice(plain)[1]
        elif q < 0.6 and uni:
            res = rng.choice(uni)
        elif q < 0.8:
            res = rng.choice(["Vector %s", "Vector<%s>"]) % ty(1)
        elif q < 0.9:
            res = "Tuple %s %d" % (ty(1), rng.randrange(0, 4))
        elif tmpl:
            c, t, kinds = rng.choice(tmpl)
            res = t + " " + " ".join(ty(1) if k == "T" else str(rng.randrange(0, 4)) for k in kinds)
        else:
            res = "Int"
        lines.append(f"{mods} {ns}{nm}{tag()} {fields()} = {res};")
    return "\n".join(lines) + "\n"
