"""Tlo family (C26 TLO output, C27 TL1->TL2 migration): shared helpers.

C26 plumbing:
  * overlay test in internal/tlast (ops dump / decode / gen), see overlay/internal/tlast/verif_tlo_test.go
  * parse_value: the wire-value syntax of ocaml/tl1/schema_io.ml (printed by the extracted dec1 and by the Go decode op)
  * project: decoded TLO value -> description (python dicts); parse_model_desc: output of drv_tlo's `tlo` op
  * compare_desc: model description vs decoded description on the fields the model covers
  * oracle_tlo: the property evaluated model-free on the parser dump and the Go-decoded description
"""
from pathlib import Path

import vlib

OVERLAY = {"verif_tlo_test.go": vlib.VERIF / "overlay/internal/tlast/verif_tlo_test.go"}

NAT_TAG = 0x70659eff
TYPE_TAG = 0x2cecf817
BUILTINS = {"int": 0xa8509bda, "long": 0x22076cba, "float": 0x824dab22, "double": 0x2210c154, "string": 0xb5286e24}


def build_overlay(scratch):
    return vlib.build_overlay_test("internal/tlast", OVERLAY, scratch, name="tlo")


def run_overlay(binary, lines, scratch, tag="TestVerifTlo"):
    rc, res, log = vlib.run_overlay_test(binary, "TestVerifTlo", lines, scratch)
    return rc, res, log


def unhex(s):
    return "" if s == "-" else bytes.fromhex(s).decode("latin-1")


# --------------------------------------------------------------------------- parser dump

def parse_dump(line):
    """'ok <n> C ...' -> list of combinator dicts"""
    t = line.split(" ")
    if t[0] != "ok":
        return None
    n = int(t[1])
    pos = 2
    res = []
    for _ in range(n):
        assert t[pos] == "C", t[pos:pos + 4]
        c = {"name": unhex(t[pos + 1]), "tag": int(t[pos + 2]), "fun": t[pos + 3] == "1", "res": unhex(t[pos + 4]),
             "arity": int(t[pos + 5])}
        pos += 6
        nm = int(t[pos]); pos += 1
        c["mods"] = [unhex(x) for x in t[pos:pos + nm]]; pos += nm
        nt = int(t[pos]); pos += 1
        c["targs"] = [(unhex(t[pos + 2 * i]), t[pos + 2 * i + 1] == "1") for i in range(nt)]; pos += 2 * nt
        nf = int(t[pos]); pos += 1
        c["fields"] = [(unhex(t[pos + 3 * i]), t[pos + 3 * i + 1] == "1", t[pos + 3 * i + 2] == "1") for i in range(nf)]; pos += 3 * nf
        res.append(c)
    assert pos == len(t)
    return res


# --------------------------------------------------------------------------- wire values

def parse_value(text):
    """value syntax of schema_io.ml -> nested tuples ('n',int) ('s',bytes) ('S',[..]) ('U',idx,[..]) ('A',[..]); None = absent"""
    toks = text.split(" ")
    pos = 0

    def val():
        nonlocal pos
        t = toks[pos]
        if t == "(":
            k = toks[pos + 1]
            pos += 2
            idx = None
            if k == "U":
                idx = int(toks[pos]); pos += 1
            items = []
            while toks[pos] != ")":
                if toks[pos] == "_":
                    items.append(None); pos += 1
                else:
                    items.append(val())
            pos += 1
            return ("U", idx, items) if k == "U" else (k, items)
        pos += 1
        if t[0] == "n":
            return ("n", int(t[1:]))
        if t[0] == "s":
            return ("s", b"" if t[1:] == "-" else bytes.fromhex(t[1:]))
        if t in ("b0", "b1"):
            return ("b", t == "b1")
        raise ValueError("bad value token " + t)

    v = val()
    if pos != len(toks):
        raise ValueError("trailing tokens in value")
    return v


def _s(v):
    return v[1].decode("latin-1")


def _typehead(v):
    """tls.TypeExpr union value -> head"""
    assert v[0] == "U"
    idx, f = v[1], v[2]
    if idx == 0:
        return {"k": "var", "var": f[0][1], "flags": f[1][1]}
    if idx == 1:
        return {"k": "array", "args_num": f[1][1], "n": len(f[2][1])}
    ch = []
    for e in f[3][1]:
        inner = e[2][0]
        if e[1] == 0:   # exprType expr:TypeExpr
            h = _typehead(inner)
            ch.append(("type", h))
        else:           # exprNat expr:NatExpr
            ch.append(("nat", ("const", inner[2][0][1]) if inner[1] == 0 else ("var", inner[2][0][1], inner[2][1][1])))
    return {"k": "expr", "name": f[0][1], "flags": f[1][1], "children_num": f[2][1], "children": ch}


def _arg(v):
    f = v[1]
    return {"id": _s(f[0]), "flags": f[1][1], "var": None if f[2] is None else f[2][1],
            "evn": None if f[3] is None else f[3][1], "evb": None if f[4] is None else f[4][1], "type": _typehead(f[5])}


def _comb(v):
    idx, f = v[1], v[2]
    c = {"v4": idx == 1, "name": f[0][1], "id": _s(f[1]), "type_name": f[2][1], "flags": f[5][1] if idx == 1 else 0}
    left = f[3]
    if left[1] == 0:
        c["builtin"] = True
        c["args_num"] = 0
        c["args"] = []
    else:
        c["builtin"] = False
        c["args_num"] = left[2][0][1]
        c["args"] = [_arg(a) for a in left[2][1][1]]
    c["right"] = _typehead(f[4][1][0])
    return c


def project(v):
    """decoded tls.Schema value -> description"""
    assert v[0] == "U"
    f = v[2]
    return {"ctor": v[1], "version": f[0][1], "date": f[1][1], "types_num": f[2][1],
            "types": [{"name": t[1][0][1], "id": _s(t[1][1]), "cnum": t[1][2][1], "flags": t[1][3][1], "arity": t[1][4][1], "ptype": t[1][5][1]}
                      for t in f[3][1]],
            "constructor_num": f[4][1], "constructors": [_comb(c) for c in f[5][1]],
            "functions_num": f[6][1], "functions": [_comb(c) for c in f[7][1]]}


# --------------------------------------------------------------------------- model description

def parse_model_desc(line):
    t = line.split(" ")
    if t[0] != "ok":
        return None
    pos = 1
    assert t[pos] == "V"
    d = {"version": int(t[pos + 1]), "date": int(t[pos + 2])}
    pos += 3
    assert t[pos] == "T"
    n = int(t[pos + 1]); pos += 2
    d["types"] = []
    for _ in range(n):
        d["types"].append({"name": int(t[pos]), "id": unhex(t[pos + 1]), "cnum": int(t[pos + 2]), "flags": int(t[pos + 3]),
                           "arity": int(t[pos + 4]), "ptype": int(t[pos + 5])})
        pos += 6

    def entries():
        nonlocal pos
        n = int(t[pos + 1]); pos += 2
        res = []
        for _ in range(n):
            assert t[pos] == "E"
            e = {"name": int(t[pos + 1]), "id": unhex(t[pos + 2]), "type_name": int(t[pos + 3]), "flags": int(t[pos + 4]),
                 "builtin": t[pos + 5] == "1", "args_num": int(t[pos + 6])}
            pos += 7
            nt = int(t[pos]); pos += 1
            e["targs"] = [{"id": unhex(t[pos + 4 * i]), "flags": int(t[pos + 4 * i + 1]), "var": int(t[pos + 4 * i + 2]), "tname": int(t[pos + 4 * i + 3])}
                          for i in range(nt)]
            pos += 4 * nt
            nf = int(t[pos]); pos += 1
            e["fields"] = [unhex(x) for x in t[pos:pos + nf]]; pos += nf
            assert t[pos] == "R"
            if t[pos + 1] == "v":
                e["right"] = ("var", int(t[pos + 2])); pos += 3
            else:
                name = int(t[pos + 2])
                if t[pos + 3] == "-":
                    e["right"] = ("expr", name, None); pos += 4
                else:
                    k = int(t[pos + 3]); pos += 4
                    e["right"] = ("expr", name, [(t[pos + 2 * i] == "1", int(t[pos + 2 * i + 1])) for i in range(k)]); pos += 2 * k
            res.append(e)
        return res

    assert t[pos] == "C"
    d["constructors"] = entries()
    assert t[pos] == "F"
    d["functions"] = entries()
    assert pos == len(t)
    return d


def compare_entry(m, g, where):
    diffs = []
    for k in ("name", "id", "type_name", "flags", "builtin", "args_num"):
        if m[k] != g[k]:
            diffs.append(f"{where}.{k}: model={m[k]!r} tlo={g[k]!r}")
    if not g["v4"]:
        diffs.append(f"{where}: not a tls.combinator_v4")
    if g["args_num"] != len(g["args"]):
        diffs.append(f"{where}: args_num {g['args_num']} but {len(g['args'])} args")
    exp = len(m["targs"]) + len(m["fields"])
    if len(g["args"]) != exp:
        diffs.append(f"{where}: model has {exp} args, tlo {len(g['args'])}")
        return diffs
    for i, a in enumerate(m["targs"]):
        ga = g["args"][i]
        want = {"id": a["id"], "flags": a["flags"], "var": a["var"], "evn": None, "evb": None,
                "type": {"k": "expr", "name": a["tname"], "flags": 0, "children_num": 0, "children": []}}
        if ga != want:
            diffs.append(f"{where}.arg{i}: model={want} tlo={ga}")
    for j, fid in enumerate(m["fields"]):
        ga = g["args"][len(m["targs"]) + j]
        if ga["id"] != fid:
            diffs.append(f"{where}.arg{len(m['targs']) + j}.id: model={fid!r} tlo={ga['id']!r}")
    r, gr = m["right"], g["right"]
    if r[0] == "var":
        if gr != {"k": "var", "var": r[1], "flags": 0}:
            diffs.append(f"{where}.right: model={r} tlo={gr}")
    else:
        if gr["k"] != "expr" or gr["name"] != r[1] or gr["flags"] != 0 or gr["children_num"] != len(gr["children"]):
            diffs.append(f"{where}.right: model={r} tlo={gr}")
        elif r[2] is not None:
            want = [("nat", ("var", 0, i)) if isnat else ("type", {"k": "var", "var": i, "flags": 0}) for isnat, i in r[2]]
            if gr["children"] != want:
                diffs.append(f"{where}.right.children: model={want} tlo={gr['children']}")
    return diffs


def compare_desc(m, g, check_date=True):
    """model description (parse_model_desc) vs decoded description (project) -> list of differences"""
    diffs = []
    if g["ctor"] != 2:
        diffs.append(f"schema constructor index {g['ctor']} (expected tls.schema_v4)")
    if m["version"] != g["version"]:
        diffs.append(f"version: model={m['version']} tlo={g['version']}")
    if check_date and m["date"] != g["date"]:
        diffs.append(f"date: model={m['date']} tlo={g['date']}")
    for sec, num in (("types", "types_num"), ("constructors", "constructor_num"), ("functions", "functions_num")):
        if g[num] != len(g[sec]):
            diffs.append(f"{num}={g[num]} but {len(g[sec])} entries")
        if len(m[sec]) != len(g[sec]):
            diffs.append(f"{sec}: model lists {len(m[sec])}, tlo {len(g[sec])}")
    for i, (a, b) in enumerate(zip(m["types"], g["types"])):
        if a != b:
            diffs.append(f"types[{i}]: model={a} tlo={b}")
    for sec in ("constructors", "functions"):
        for i, (a, b) in enumerate(zip(m[sec], g[sec])):
            diffs += compare_entry(a, b, f"{sec}[{i}]:{a['id']}")
    return diffs


# --------------------------------------------------------------------------- model-free oracle

def oracle_tlo(combs, g):
    """The property on the implementation's own outputs: parser dump `combs` vs decoded description `g`.
    Returns list of (sig-suffix, message)."""
    bad = []
    listed = g["constructors"] + g["functions"]
    by_id = {}
    for e in listed:
        by_id.setdefault(e["id"], []).append(e)
    ctor_ids = {e["id"] for e in g["constructors"]}
    fun_ids = {e["id"] for e in g["functions"]}
    for c in combs:
        es = by_id.get(c["name"], [])
        if len(es) != 1:
            bad.append((f"listed-{len(es)}-times:{c['name']}", f"combinator {c['name']} is listed {len(es)} times"))
            continue
        e = es[0]
        if e["name"] != c["tag"]:
            # F26 is ONLY: one of the five un-namespaced builtin wrappers (FULL name), schema tag not the canonical one,
            # listed with exactly the hard-coded constant
            f26 = c["name"] in BUILTINS and e["name"] == BUILTINS[c["name"]] and c["tag"] != BUILTINS[c["name"]]
            kind = "F26:builtin-hardcoded" if f26 else "tag"
            bad.append((f"{kind}:{c['name']}", f"combinator {c['name']} has tag {c['tag']:#010x} but is listed with {e['name']:#010x}"))
        if c["fun"] and c["name"] not in fun_ids:
            bad.append((f"function-not-in-functions:{c['name']}", f"function {c['name']} is not in the functions section"))
        if not c["fun"] and c["name"] not in ctor_ids:
            bad.append((f"constructor-not-in-constructors:{c['name']}", f"constructor {c['name']} is not in the constructors section"))
    if len(listed) != len(combs):
        bad.append(("count", f"{len(combs)} combinators in the schema, {len(listed)} listed"))
    names = [c["name"] for c in combs]
    for e in listed:
        if e["id"] not in names:
            bad.append((f"extra:{e['id']}", f"listed combinator {e['id']} is not in the schema"))
    # types
    ctors = {}
    for c in combs:
        if not c["fun"]:
            ctors.setdefault(c["res"], []).append(c)
    tl = {}
    for t in g["types"]:
        if t["id"] in tl:
            bad.append((f"type-twice:{t['id']}", f"type {t['id']} listed twice"))
        tl[t["id"]] = t
    for tn, cl in ctors.items():
        t = tl.get(tn)
        if t is None:
            bad.append((f"type-missing:{tn}", f"type {tn} is not listed"))
            continue
        x = NAT_TAG if tn == "#" else TYPE_TAG if tn == "Type" else 0
        for c in cl:
            x ^= c["tag"]
        if t["name"] != x:
            bad.append((f"type-name-xor:{tn}", f"type {tn}: name {t['name']:#010x} is not the XOR of its constructor tags {x:#010x}"))
        if t["cnum"] != len(cl):
            bad.append((f"type-cnum:{tn}", f"type {tn}: constructors_num {t['cnum']} but {len(cl)} constructors"))
        for c in cl:
            if t["arity"] != c["arity"] or c["arity"] != len(c["targs"]):
                bad.append((f"type-arity:{tn}", f"type {tn}: arity {t['arity']}, constructor {c['name']} has {c['arity']} arguments / {len(c['targs'])} template arguments"))
            pt = sum(1 << i for i, (_, isnat) in enumerate(c["targs"]) if isnat and i < 64)
            if t["ptype"] != pt:
                bad.append((f"type-params:{tn}", f"type {tn}: params_type {t['ptype']:#x}, constructor {c['name']} has kinds {pt:#x}"))
            e = by_id.get(c["name"], [None])[0]
            if e is not None and len(by_id.get(c["name"], [])) == 1 and e["type_name"] != t["name"]:
                f26 = c["name"] in BUILTINS and e["type_name"] == BUILTINS[c["name"]] and c["tag"] != BUILTINS[c["name"]]
                kind = "F26:builtin-hardcoded" if f26 else "ctor-type-name"
                bad.append((f"{kind}:{c['name']}", f"constructor {c['name']}: type_name {e['type_name']:#010x} is not the id {t['name']:#010x} of its type {tn}"))
    for tn in tl:
        if tn not in ctors and tn not in ("#", "Type"):
            bad.append((f"type-extra:{tn}", f"listed type {tn} has no constructor in the schema"))
    ids = [t["name"] for t in g["types"]]
    if len(set(ids)) != len(ids):
        bad.append(("type-id-collision", "two listed types share an id"))
    return bad


# --------------------------------------------------------------------------- TLO-oriented random TL1 schemas

TLO_HEADER = """int#a8509bda ? = Int;
long#22076cba ? = Long;
float#824dab22 ? = Float;
double#2210c154 ? = Double;
string#b5286e24 ? = String;
boolFalse#bc799737 = Bool;
boolTrue#997275b5 = Bool;
true = True;
vector#1cb5c415 {t:Type} # [t] = Vector t;
tuple#9770768a {t:Type} {n:#} [t] = Tuple t n;
"""


def rand_tlo_schema(rng, ntypes=8, noncanonical_builtin=False, ns_primitives=True):
    """Random TL1 schema exercising what the TLO describes: many types of arity 0..4 with mixed parameter kinds,
    1..4 constructors per type, explicit / computed tags, namespaces, functions with modifiers."""
    lines = []
    hdr = TLO_HEADER
    if noncanonical_builtin:
        which = rng.choice(["int#a8509bda", "long#22076cba", "string#b5286e24"])
        hdr = hdr.replace(which, which.split("#")[0] + "#%08x" % rng.getrandbits(32))
    decls = []   # (Type name, [kinds])
    nss = ["", "a.", "b.", "long_ns."]

    def typeref(scope_types, depth=0):
        """a type expression usable as a field type"""
        k = rng.random()
        if k < 0.35 or depth > 1:
            return rng.choice(["int", "long", "string", "double", "float", "Bool", "#"] + scope_types)
        if k < 0.5:
            return "%(Vector " + typeref(scope_types, depth + 1).replace("#", "int") + ")"
        if decls:
            tn, kinds = rng.choice(decls)
            args = []
            for isnat in kinds:
                args.append(str(rng.choice([0, 1, 2, 7])) if isnat else rng.choice(["int", "string", "long"] + scope_types))
            ref = tn if rng.random() < 0.8 or len(kinds) == 0 else tn
            return "(" + " ".join([ref] + args) + ")" if args else ref
        return "int"

    for i in range(ntypes):
        ns = rng.choice(nss)
        base = f"t{i}" + rng.choice(["", "x", "Long", "_q"])
        tname = f"{ns}{base[0].upper()}{base[1:]}"
        arity = rng.choice([0, 0, 0, 1, 1, 2, 3, 4])
        kinds = [rng.random() < 0.5 for _ in range(arity)]
        pnames = [(f"n{j}" if kinds[j] else f"X{j}") for j in range(arity)]
        nct = rng.choice([1, 1, 1, 2, 2, 3, 4])
        targs = " ".join("{%s:%s}" % (pnames[j], "#" if kinds[j] else "Type") for j in range(arity))
        for c in range(nct):
            cname = f"{ns}{base}" if nct == 1 else f"{ns}{base}{'ABCD'[c]}"
            tag = "#%08x" % rng.randrange(1, 1 << 32) if rng.random() < 0.4 else ""
            fields = []
            nats = [p for p, k in zip(pnames, kinds) if k]
            types = [p for p, k in zip(pnames, kinds) if not k]
            for f in range(rng.choice([0, 1, 2, 3, 5])):
                fn = f"f{f}"
                k = rng.random()
                if k < 0.15:
                    fields.append(f"{fn}:#")
                    nats.append(fn)
                    continue
                if k < 0.3 and nats:
                    fields.append(f"{fn}:{rng.choice(nats)}*[{typeref(types).replace('#', 'int')}]")
                    continue
                mask = ""
                if nats and rng.random() < 0.3:
                    mask = f"{rng.choice(nats)}.{rng.randrange(32)}?"
                t = typeref(types)
                if mask and t == "#":
                    t = "int"
                fields.append(f"{fn}:{mask}{t}")
            # every type parameter must be used for the kernel to accept some shapes; use them
            for p, k in zip(pnames, kinds):
                if not k and not any(p in f for f in fields):
                    fields.append(f"u{p}:{p}")
            res = " ".join([tname] + pnames)
            lines.append(f"{cname}{tag} {targs} {' '.join(fields)} = {res};".replace("  ", " "))
        decls.append((tname, kinds))
    # namespaced constructors whose LOCAL name is, or starts with, a builtin name (GenerateTLO keys its builtin table by the
    # full name: these are ordinary combinators)
    prims = ["int", "long", "float", "double", "string"]
    used = set()
    if ns_primitives:
        for _ in range(rng.choice([1, 2, 3])):
            ns = rng.choice(["a.", "b.", "stats.", "long_ns."])
            p = rng.choice(prims)
            local = p + rng.choice(["", "", "", "Value", "2", "_x", "s"])
            if (ns, local) in used:
                continue
            used.add((ns, local))
            tn = f"{ns}{local[0].upper()}{local[1:]}"
            tag = "#%08x" % rng.randrange(1, 1 << 32) if rng.random() < 0.3 else ""
            if rng.random() < 0.7:
                lines.append(f"{ns}{local}{tag} hi:int lo:{rng.choice(['int', 'string', 'long'])} = {tn};")
            else:
                lines.append(f"{ns}{local}{tag} = {tn}U;")
                lines.append(f"{ns}{local}B x:{p} = {tn}U;")
    lines.append("---functions---")
    if ns_primitives:
        for _ in range(rng.choice([0, 1, 2])):
            ns = rng.choice(["a.", "b.", "stats."])
            local = rng.choice(prims) + rng.choice(["", "", "Get", "3"])
            if (ns, "f" + local) in used or (ns, local) in used:
                continue
            used.add((ns, "f" + local))
            lines.append(f"{rng.choice(['@read', '@write', '@any'])} {ns}{local} q:int = {rng.choice(['Int', 'Long', 'String'])};")
    for i in range(rng.choice([0, 1, 2, 3, 5])):
        ns = rng.choice(nss)
        mods = rng.sample(["@any", "@read", "@write", "@readwrite", "@internal", "@kphp"], rng.choice([0, 1, 1, 2, 3]))
        # the kernel wants exactly one of any/read/write/readwrite in some modes; keep whatever it accepts
        fields = []
        nats = []
        for f in range(rng.choice([0, 1, 2, 4])):
            if rng.random() < 0.25:
                fields.append(f"a{f}:#")
                nats.append(f"a{f}")
            else:
                t = typeref([])
                fields.append(f"a{f}:{t}")
        tn, kinds = rng.choice(decls) if decls and rng.random() < 0.8 else ("Int", [])
        args = [(rng.choice(nats) if nats and rng.random() < 0.5 else str(rng.choice([0, 1, 3]))) if k else rng.choice(["int", "string"]) for k in kinds]
        tag = "#%08x" % rng.randrange(1, 1 << 32) if rng.random() < 0.3 else ""
        order = list(range(5))
        name = f"{ns}fn{rng.choice(order)}{i}"
        lines.append(f"{' '.join(mods)} {name}{tag} {' '.join(fields)} = {' '.join([tn] + args)};".strip().replace("  ", " "))
    return hdr + "\n".join(lines) + "\n"


# =========================================================================== C27: TL1 -> TL2 migration

def hexs(s):
    return s.encode("latin-1").hex() if s else "-"


def mig_view_lines(ins):
    """TL2 view of a kernel dump in the line format read by ocaml/drv_tlo.ml (one instance per line):
    the attributes TloMigModel.tl2_equiv compares."""
    lines = []
    for x in ins:
        k = x["kind"]
        if k == "prim":
            lines.append(f"prim {hexs(x['name'])}")
        elif k == "struct":
            if x.get("isAlias"):
                lines.append(f"alias {x['fields'][0]['type']}")
                continue
            fn = str(x["tag"]) if x.get("isFunction") else "-"
            res = str(x["result"]["type"]) if x.get("isFunction") and x.get("result") else "-"
            t = ["struct", hexs(x.get("tlName", "")), str(x.get("unionIndex", 0)), fn, res, str(len(x["fields"]))]
            for f in x["fields"]:
                t += [hexs(f["name"]), "-" if f.get("tl2bit") is None else str(f["tl2bit"]), "1" if f.get("isBit") else "0", str(f["type"])]
            lines.append(" ".join(t))
        elif k == "union":
            vs = x.get("variants") or []
            names = x.get("variantNames") or []
            lines.append(" ".join(["union", "1" if x.get("isEnum") else "0", "1" if x.get("isMaybe") else "0", str(len(names))] +
                                  [hexs(n) for n in names] + [str(len(vs))] + [str(v) for v in vs]))
        elif k == "array":
            fixed = str(x.get("count", 0)) if x.get("isTuple") and not x.get("dynamicSize") else "-"
            lines.append(f"array {fixed} {x['elem']['type']}")
        elif k == "dict":
            lines.append(f"dict {x['elem']['type']}")
        else:
            lines.append("prim " + hexs("unknown:" + k))
    return lines


def mig_resolve(ins, t):
    seen = 0
    while 0 <= t < len(ins) and ins[t]["kind"] == "struct" and ins[t].get("isAlias") and seen <= len(ins):
        t = ins[t]["fields"][0]["type"]
        seen += 1
    return t


def mig_phi(A, B, roots):
    """candidate correspondence (untrusted; validated by the extracted tl2_equiv): parallel walk from the roots"""
    phi, seen = [], set()
    todo = [(mig_resolve(A, a), mig_resolve(B, b)) for a, b in roots]
    while todo:
        a, b = todo.pop()
        if (a, b) in seen or not (0 <= a < len(A) and 0 <= b < len(B)):
            continue
        seen.add((a, b))
        phi.append((a, b))
        x, y = A[a], B[b]
        if x["kind"] != y["kind"]:
            continue
        if x["kind"] == "struct":
            for f, g in zip(x["fields"], y["fields"]):
                if not f.get("isBit"):
                    todo.append((mig_resolve(A, f["type"]), mig_resolve(B, g["type"])))
            if x.get("isFunction") and y.get("isFunction") and x.get("result") and y.get("result"):
                todo.append((mig_resolve(A, x["result"]["type"]), mig_resolve(B, y["result"]["type"])))
        elif x["kind"] == "union":
            for u, v in zip(x.get("variants") or [], y.get("variants") or []):
                todo.append((u, v))
        elif x["kind"] in ("array", "dict"):
            todo.append((mig_resolve(A, x["elem"]["type"]), mig_resolve(B, y["elem"]["type"])))
    return phi


def mig_roots(A, B):
    """(roots, unmatched): every top-level TL2-origin instance of the migrated dump B paired with EVERY original instance of
    the same TL name whose arguments are nat arguments only (`*` = a nat parameter, a number = an instantiated constant):
    the migration drops those arguments, so all of them become the one migrated type"""
    import re
    by = {}
    for x in A:
        if x["kind"] in ("struct", "union") and x.get("tlName") and not x.get("originTL2"):
            if x["name"] == x["tlName"] or re.fullmatch(re.escape(x["tlName"]) + r"<(\*|\d+)(,(\*|\d+))*>", x["name"]):
                by.setdefault((x["kind"], x["tlName"]), []).append(x["id"])
    roots, unmatched = [], []
    for y in B:
        if y.get("topLevel") and y.get("originTL2") and y["kind"] in ("struct", "union") and y["name"] == y.get("tlName"):
            l = by.get((y["kind"], y["tlName"]))
            if not l:
                unmatched.append(y["name"])
            else:
                roots += [(a, y["id"]) for a in l]
    return roots, unmatched


def mig_closure(A, B, root):
    """pairs reachable from one root"""
    return mig_phi(A, B, [root])


class MigPkg:
    """One scratch module with TWO freshly generated packages -- verifh/geno (original schema) and verifh/genm (migrated
    schema) -- and the driver harness/go/tlodrv built against both (one link, shared compile of basictl; -trimpath so that
    the Go build cache is hit across scratch directories)."""

    def __init__(self, scratch, name, tl2gen, orig_files, mig_files, options):
        self.dir = Path(scratch) / f"migmod_{name}"
        self.tl2gen, self.options = tl2gen, list(options)
        self.orig_files, self.mig_files = [str(f) for f in orig_files], [str(f) for f in mig_files]
        self.exe = None
        self.log = ""
        self.failed = None    # "gen-orig" | "gen-mig" | "build-orig" | "build-mig" | "build-driver"

    def _gen(self, sub, files):
        cmd = [str(self.tl2gen), "--language=go", f"--outdir={self.dir / sub}", f"--pkgPath=verifh/{sub}/tl",
               "--basicPkgPath=github.com/VKCOM/tl/pkg/basictl", "--generateRandomCode"] + self.options + files
        rc, so, se = vlib.sh(cmd, timeout=600)
        self.log += so + se
        return rc == 0

    def prepare(self):
        import shutil
        if self.dir.exists():
            shutil.rmtree(self.dir)
        self.dir.mkdir(parents=True)
        if not self._gen("geno", self.orig_files):
            self.failed = "gen-orig"
            return False
        if not self._gen("genm", self.mig_files):
            self.failed = "gen-mig"
            return False
        src = vlib.VERIF / "harness" / "go" / "tlodrv"
        (self.dir / "drv").mkdir()
        shutil.copy(src / "main.go", self.dir / "drv" / "main.go")
        (self.dir / "go.mod").write_text((src / "go.mod.tmpl").read_text().replace("@REPO@", str(vlib.REPO)))
        shutil.copy(vlib.REPO / "go.sum", self.dir / "go.sum")
        exe = self.dir / "tlodrv"
        rc, so, se = vlib.sh(["go", "build", "-trimpath", "-o", str(exe), "./drv"], cwd=self.dir, env=vlib.goenv(), timeout=1800)
        if rc != 0:
            self.log += so + se
            first = next((l for l in (so + se).splitlines() if l.startswith("# ")), "")
            self.failed = "build-mig" if "verifh/genm" in first else "build-orig" if "verifh/geno" in first else "build-driver"
            return False
        self.exe = exe
        return True


NS_PRIMITIVE_LINES = """stats.long hi:int lo:int = stats.Long;
a.int x:int = a.Int;
b.string#0badc0de s:string = b.String;
a.floatA = a.F;
a.floatB x:float = a.F;
long_ns.doubleValue d:double = long_ns.DoubleValue;
"""
NS_PRIMITIVE_FUNCS = """@read a.double x:int = Int;
@write b.long = Long;
@any stats.intGet q:stats.long = a.Int;
"""


INTERLEAVED_LINES = """shape.circle r:int = shape.Shape;
color.color c:int = color.Color;
shape.square s:int = shape.Shape;
il.a1 = il.A;
il.b1 x:int = il.B;
il.a2 y:string = il.A;
il.b2 = il.B;
il.a3 {t:Type} z:t = il.P t;
il.c = il.C;
il.a4 {t:Type} = il.P t;
"""
SPLIT_SECTION_TAIL = """---types---
shape.tri a:int b:int = shape.Shape;
il.b3 q:long = il.B;
"""


def edge_ns_primitives_schema():
    """fixed schema: namespaced constructors and functions whose local name is / starts with a builtin name; unions whose
    constructors are interleaved with other types' constructors and continued in a second ---types--- section"""
    return TLO_HEADER + NS_PRIMITIVE_LINES + INTERLEAVED_LINES + "---functions---\n" + NS_PRIMITIVE_FUNCS + SPLIT_SECTION_TAIL


def interleave_unions(text, rng, p=0.75, skip=("Bool", "Maybe")):
    """Post-process a one-declaration-per-line TL1 schema: constructors of a union need not be adjacent.  For most unions one
    constructor is moved behind constructors of other types (interleaving) or into a second ---types--- section at the end
    of the file (a union split across sections).  Returns (text, number of moved constructors)."""
    import re
    lines = text.split("\n")
    in_types = True
    groups = {}
    ctor_idx = []
    for i, l in enumerate(lines):
        t = l.strip()
        if t == "---functions---":
            in_types = False
        elif t == "---types---":
            in_types = True
        elif in_types and t and not t.startswith(("@", "//")) and "=>" not in t and t.endswith(";") and "?" not in t.split("=")[0].split(" ")[0]:
            m = re.search(r"=\s*([A-Za-z_][\w.]*)[^=;]*;$", t)
            if m and " ? " not in t:
                groups.setdefault(m.group(1), []).append(i)
                ctor_idx.append(i)
    moved_tail, moves = [], 0
    relocate = {}     # line index -> insert after this line index
    for tn, idxs in groups.items():
        if len(idxs) < 2 or tn in skip or rng.random() > p:
            continue
        victim = idxs[-1]
        later = [j for j in ctor_idx if j > victim and j not in idxs]
        k = rng.random()
        if k < 0.5 and later:
            relocate[victim] = rng.choice(later)
        elif k < 0.8 or not later:
            moved_tail.append(lines[victim])
            relocate[victim] = None
        else:
            # move the FIRST constructor behind another type's constructor that precedes the rest of the union
            first = idxs[0]
            mid = [j for j in ctor_idx if first < j and j not in idxs]
            if mid:
                relocate[first] = rng.choice(mid)
            else:
                continue
        moves += 1
    out = []
    after = {}
    for v, tgt in relocate.items():
        if tgt is not None:
            after.setdefault(tgt, []).append(lines[v])
    for i, l in enumerate(lines):
        if i in relocate:
            continue
        out.append(l)
        for x in after.get(i, []):
            out.append(x)
    # a relocated line whose target was itself relocated
    placed = set(x for l in after.values() for x in l)
    emitted = set(out)
    for x in placed:
        if x not in emitted:
            moved_tail.append(x)
    if moved_tail:
        while out and out[-1] == "":
            out.pop()
        out += ["---types---"] + moved_tail
    return "\n".join(out) + "\n", moves
