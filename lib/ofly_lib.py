"""C12, family ofly: the correspondence leg between the Coq model of the DYNAMIC INTERPRETER (coq/theories/Ofly/OflyModel.v,
extracted to ocaml/drv_ofly.ml) and the real interpreter internal/pure/onthefly (driven by the overlay harness
overlay/internal/pure/onthefly/verif_otf_test.go).

The interpreter runs on the kernel WITHOUT constant instantiation (`tuple int 4` stays a dynamic tuple whose size is the nat
argument 4), so its model runs on a second kernel dump taken the same way (IR0), not on the generator's IR of the tl1 family.

Per schema unit:
  * the schema conditions of the theorems of Props/C12.v (wf_schema, ofly_ok, create_total, df_ok of the computed set of instances that
    do not reach a dictionary, notl1_free) are evaluated on IR0;
  * every rw1 input the check gave to the real interpreter is given to the model: verdict, consumed length and re-written bytes must be
    equal (`corr:C12:ofly`).  One documented escape: a dictionary with more than 12 elements and a duplicate key, where
    slices.SortFunc (pdqsort) does not specify which of the equal keys survives (the model renders the stable insertion sort);
  * the model's WriteTL1 on the type-directed values (op `enc`) must produce the bytes the generated-code model produces (IR0 vs IR1);
  * finding probe (deterministic): a dictionary with a duplicate key (2 elements) on the generated code, the interpreter and both
    models; and the classification [tl1_sig] of a TL1 difference between generated code and interpreter that the theorems explain.
Every read of this leg goes into a FRESH interpreter value (CreateValue), the only use C12 speaks about.  (ReadTL1 into a value that was
read into before behaves differently -- side observation outside C12, see Ofly_reader_reused_value_differs_observation in
Ofly/OflyProofs.v; replay tools: overlay/internal/pure/onthefly/verif_ofly_test.go op rw1x2, drv_ofly op rw1x2 -- not run by the check.)
"""
import threading
from pathlib import Path

import vlib
from vlib import run_lines, trunc
from schema_ir import dump_ir, write_ir_file

FAMILY = "ofly"
CORR = "corr:C12:ofly"
DUP_SIG = "C12:ofly:tl1-dict-duplicate-key:interpreter-keeps-first-generated-keeps-last"
DUP_PROBES = {
    # type -> (boxed flag of the rw1 op, input hex: count 2, (5 -> 1), (5 -> 2))
    "cases.testDictInt": ("0", "0200000005000000010000000500000002000000"),
}


# a fixed schema aimed at the interpreter's own mechanisms: an optional # field that is absent and then used as mask (bit 0) or as tuple
# size (formatNatArg: nil counts as 0), nat parameters passed through three levels in permuted order and mixed with constants and
# fields (the natArgs stack), a recursive union with an empty first variant (CreateValue / setIndex), dictionaries, Bool under a mask
OFX_HEADER = """
int#a8509bda ? = Int;
long#22076cba ? = Long;
float#824dab22 ? = Float;
double#2210c154 ? = Double;
string#b5286e24 ? = String;
boolFalse#bc799737 = Bool;
boolTrue#997275b5 = Bool;
true = True;
resultFalse#27930a7b {t:Type} = Maybe t;
resultTrue#3f9c8ef8 {t:Type} t = Maybe t;
vector#1cb5c415 {t:Type} # [t] = Vector t;
tuple#9770768a {t:Type} {n:#} [t] = Tuple t n;
dictionaryField {t:Type} key:string value:t = DictionaryField t;
dictionary#1f4c618f {t:Type} %(Vector %(DictionaryField t)) = Dictionary t;
"""
OFX_SCHEMA = OFX_HEADER + """
ofx.optNat m:# n:m.0?# a:n.0?int c:n.1?string k:m.1?# t:k*[int] s:(tuple string k) = ofx.OptNat;
ofx.optNat2 m:# n:m.1?# k:n.0?# z:k.0?string j:n.2?# w:j*[long] = ofx.OptNat2;
ofx.inner {a:#} {b:#} {c:#} x:a*[int] y:b*[string] f:c.0?int g:c.1?long = ofx.Inner a b c;
ofx.mid {p:#} q:# r:# in1:(ofx.inner p q r) in2:(ofx.inner q p 1) v:(vector (ofx.inner p 2 r)) = ofx.Mid p;
ofx.outer a:# b:# m1:(ofx.mid a) m2:(ofx.mid b) t:(tuple (ofx.mid a) b) = ofx.Outer;
ofx.u1 = ofx.U;
ofx.u2 x:int = ofx.U;
ofx.u3 m:# y:m.0?string = ofx.U;
ofx.u4 v:(vector ofx.U) = ofx.U;
ofx.useU u:ofx.U us:(vector ofx.U) mu:(Maybe ofx.U) = ofx.UseU;
ofx.dicts d1:(dictionary int) d2:(dictionary (vector string)) = ofx.Dicts;
ofx.bools m:# b1:Bool b2:m.0?Bool b3:(vector Bool) = ofx.Bools; // tlgen:nolint
ofx.nested n:# m:# k:# t:(tuple (tuple (ofx.inner n m k) m) n) = ofx.Nested;
"""


def extra_specs(ctx):
    """unit specs (name, files, tl2gen options, kernel tl2 whitelist, sanity) added to C12's schema list"""
    d = Path(ctx.scratch) / "ofx"
    d.mkdir(exist_ok=True)
    (d / "ofx.tl").write_text(OFX_SCHEMA)
    return [("ofx", [d / "ofx.tl"], ["--checkLengthSanity=false"], None, False)]


def build():
    """extracted model -> build/ocaml/ofly/.../drv_ofly.exe; call under vlib.Lock()"""
    try:
        return vlib.build_refmodel(FAMILY), None
    except RuntimeError as e:
        return None, str(e)


class State:
    def __init__(self):
        self.lock = threading.Lock()
        self.stats = {"units": 0, "units_all_theorem_hypotheses_hold": 0, "units_without_dict": 0, "rw1_compared": 0, "rw1_equal": 0,
                      "rw1_ok": 0, "rw1_eof": 0, "rw1_reject": 0, "rw1_skipped_interpreter_crash": 0, "rw1_skipped_unknown_type": 0,
                      "rw1_unstable_sort_duplicate_keys": 0, "rw1_on_types_not_reaching_a_dictionary": 0, "enc_compared": 0, "enc_equal": 0, "dup_probe_runs": 0}
        self.mism = []        # (unit, op, model, interpreter)
        self.enc_mism = []    # (unit, op, interpreter model, generated-code model)
        self.errors = []      # (unit, message)
        self.outside = []     # units on which a hypothesis of the theorems fails: {"unit":..., "conditions":...}
        self.findings = []    # (sig, what, data)
        self.samples = []


def _norm(line):
    """the harness prints the panic / unsupported reason; the model only the verdict"""
    w = line.split(" ", 1)[0]
    return w if w in ("panic", "unsupported") else line


def prepare(ctx, u, verifdump, exe):
    """second kernel dump (no constant instantiation) -> (args of drv_ofly, name -> instance id, conditions) or error text"""
    d = Path(ctx.scratch) / f"unit_{u.name}"
    d.mkdir(exist_ok=True)
    ins0, err = dump_ir(verifdump, u.files, d / "ir0.json", tl2_whitelist=u.whitelist, instantiate_constants=False)
    if ins0 is None:
        return None, "kernel dump without constant instantiation failed: " + err[-400:]
    try:
        write_ir_file(ins0, d / "ir0.txt")
    except Exception as e:  # noqa
        return None, f"ir0: {e!r}"
    (d / "np0.txt").write_text("".join(f"{len(x.get('natParams') or [])}\n" for x in ins0))
    args = [str(d / "ir0.txt"), str(d / "np0.txt")]
    cand = {}
    for x in ins0:
        if x.get("topLevel") and not x.get("natParams") and x["kind"] in ("struct", "union") and x.get("tlName"):
            cand.setdefault(x["tlName"], []).append(x["id"])
    tid0 = {n: ids[0] for n, ids in cand.items() if len(ids) == 1}
    rc, out, err = run_lines(exe, args, ["wf"])
    if rc != 0 or not out or not out[0].startswith("ok "):
        return None, f"model driver failed on wf: rc={rc} {trunc(err, 300)}"
    cond = dict(p.split("=") for p in out[0][3:].split(" "))
    return (args, tid0, cond), ""


def tl1_sig(default, g, i, m, interp_agrees_with_its_model):
    """signature of a TL1 difference between generated code (answer g, its model's answer m) and interpreter (answer i).
    When each implementation agrees with its own model and the two accept the input with the same consumed length, the theorems of
    Props/C12.v leave one source for different re-written bytes: the value of a dictionary with a duplicate key (first vs last)."""
    gs, is_ = g.split(" "), i.split(" ")
    if interp_agrees_with_its_model and g == m and gs[0] == "ok" and is_[0] == "ok" and gs[:2] == is_[:2]:
        return DUP_SIG
    return default


def unit_leg(ctx, st, u, bins, exe, inputs, it, go, enc_lines, enc_out, tl1_exe, otf_run):
    """inputs: (tid, name, boxed, hex, kind) as given to the interpreter; it / go: the interpreter's / generated code's answers;
    enc_lines / enc_out: the `enc` ops of the tl1 model and its answers; otf_run(lines) -> interpreter answers.
    Returns the set of (name, boxed, hex) on which the interpreter agrees with its model (or differs from it only in which of several
    equal dictionary keys the unstable sort kept)."""
    agree = set()
    if exe is None:
        return agree
    prep, err = prepare(ctx, u, bins["verifdump"], exe)
    if prep is None:
        with st.lock:
            st.errors.append((u.name, err))
        return agree
    args, tid0, cond = prep
    s_ = {k: 0 for k in st.stats}
    s_["units"] = 1
    hyp = all(cond.get(k) == "1" for k in ("wf_schema", "ofly_ok", "create_total", "np_len", "notl1_free", "df_ok"))
    dfree = set() if cond.get("dfree", "-") == "-" else {int(x) for x in cond["dfree"].split(",")}     # the exact theorems apply to these
    s_["units_all_theorem_hypotheses_hold"] = int(hyp)
    s_["units_without_dict"] = int(cond.get("nodict") == "1")
    mism, enc_mism, errors, findings, samples = [], [], [], [], []
    # ---- rw1: the model of the interpreter against the interpreter
    idx = [j for j, inp in enumerate(inputs) if inp[1] in tid0 and not it[j].startswith("crash")]
    s_["rw1_skipped_unknown_type"] = sum(1 for inp in inputs if inp[1] not in tid0)
    s_["rw1_skipped_interpreter_crash"] = sum(1 for j, inp in enumerate(inputs) if inp[1] in tid0 and it[j].startswith("crash"))
    lines0 = [f"rw1 0 {tid0[inputs[j][1]]} {inputs[j][1]} {inputs[j][2]} {inputs[j][3]}" for j in idx]
    rc, mo, err = run_lines(exe, args, lines0) if lines0 else (0, [], "")
    if rc != 0 or len(mo) != len(lines0):
        errors.append((u.name, f"model driver failed (rw1): rc={rc} lines {len(mo)} of {len(lines0)} {trunc(err, 300)}"))
    else:
        diff = []
        for j, l, m in zip(idx, lines0, mo):
            s_["rw1_compared"] += 1
            s_["rw1_on_types_not_reaching_a_dictionary"] += int(tid0[inputs[j][1]] in dfree)
            v = m.split(" ", 1)[0]
            if "rw1_" + v in s_:
                s_["rw1_" + v] += 1
            if m == _norm(it[j]):
                s_["rw1_equal"] += 1
                agree.add(tuple(inputs[j][1:4]))
            else:
                diff.append((j, l, m))
        if diff:
            rc, uo, err = run_lines(exe, args, [l.replace("rw1", "unstable", 1) for j, l, m in diff])
            for k, (j, l, m) in enumerate(diff):
                if rc == 0 and k < len(uo) and uo[k] == "ok 1" and m.split(" ")[:2] == it[j].split(" ")[:2]:
                    s_["rw1_unstable_sort_duplicate_keys"] += 1     # same verdict and consumed length; which duplicate survives is unspecified
                    agree.add(tuple(inputs[j][1:4]))
                else:
                    mism.append((u.name, l, m, it[j]))
        if lines0:
            j = len(lines0) // 2
            samples.append({"schema": u.name, "op": trunc(lines0[j], 160), "interpreter_model": trunc(mo[j], 90), "interpreter": trunc(it[idx[j]], 90)})
    # ---- enc: WriteTL1 of the interpreter model vs the generated-code model's writer, same wire values
    el, eo = [], []
    for l, o in zip(enc_lines or [], enc_out or []):
        f = l.split(" ", 5)
        if o.startswith("ok ") and f[3] in tid0:
            el.append(" ".join(f[:2] + [str(tid0[f[3]])] + f[3:]))
            eo.append(o)
    rc, mo2, err = run_lines(exe, args, el) if el else (0, [], "")
    if rc != 0 or len(mo2) != len(el):
        errors.append((u.name, f"model driver failed (enc): rc={rc} lines {len(mo2)} of {len(el)} {trunc(err, 300)}"))
    else:
        for l, m, o in zip(el, mo2, eo):
            s_["enc_compared"] += 1
            if m == o:
                s_["enc_equal"] += 1
            else:
                enc_mism.append((u.name, l, m, o))
    # ---- probe: duplicate dictionary key
    for name, (boxed, h) in DUP_PROBES.items():
        tid1 = next((str(inp[0]) for inp in inputs if inp[1] == name), None)
        if tid1 is None or name not in tid0 or u.gen is None:
            continue
        s_["dup_probe_runs"] += 1
        op1 = f"rw1 0 {tid1} {name} {boxed} {h}"
        op0 = f"rw1 0 {tid0[name]} {name} {boxed} {h}"
        g = vlib.run_lines(u.gen.exe, [], [op1])[1]
        i = otf_run([op1])
        m0 = run_lines(exe, args, [op0])[1]
        m1 = run_lines(tl1_exe, [str(u.ir_path)], [op1])[1] if tl1_exe else ["?"]
        g, i, m0, m1 = (x[0] if x else "no-answer" for x in (g, i, m0, m1))
        if _norm(i) != m0:
            mism.append((u.name, op0, m0, i))
        if g != i:
            findings.append((DUP_SIG, f"{u.name}: duplicate dictionary key: {op1} -> generated {g} (its model {m1}), interpreter {i} (its model {m0})",
                             {"unit": u.name, "op": op1, "go": g, "interpreter": i, "generated_model": m1, "interpreter_model": m0}))
    with st.lock:
        for k, v in s_.items():
            st.stats[k] += v
        st.mism += mism
        st.enc_mism += enc_mism
        st.errors += errors
        st.findings += findings
        if not hyp:
            st.outside.append({"unit": u.name, "conditions": cond})
        if len(st.samples) < 8:
            st.samples += samples
    return agree


def report(ctx, st, build_err):
    """findings always; correspondence failures when no concrete failing input of the property was found (the convention of vlib)"""
    seen = set()
    for sig, what, data in st.findings:
        if sig not in seen:
            seen.add(sig)
            ctx.violation(sig, what, data)
    pid = ctx.pid
    # a departure of the real interpreter from its model comes with the concrete input, but what it breaks is the tie, not
    # (necessarily) the property: reported after the concrete failing inputs of the property (no_input sorts last)
    for name, l, m, i in st.mism[:10]:
        ctx.violation(f"{pid}:{CORR}:{name}:{trunc(l, 60)}",
                      f"{CORR} {name}: the real interpreter departs from its Coq model (Ofly/OflyModel.v) on {trunc(l, 140)}: model={trunc(m, 90)} interpreter={trunc(i, 90)}",
                      {"correspondence": CORR, "unit": name, "op": l, "model": m, "interpreter": i}, no_input=True)
    if not [v for v in ctx.violations if not v["no_input"]]:
        if build_err:
            ctx.violation(f"{pid}:ofly-model-build", "interpreter model does not build: " + trunc(build_err, 600), {"error": build_err}, no_input=True)
        for name, e in st.errors[:10]:
            ctx.violation(f"{pid}:ofly-unit:{name}", f"interpreter-model leg, schema unit {name}: {trunc(e, 500)}", {"unit": name, "error": e}, no_input=True)
        for name, l, m, o in st.enc_mism[:30]:
            ctx.violation(f"{pid}:{CORR}:enc:{name}:{trunc(l, 60)}",
                          f"{CORR} {name}: WriteTL1 of the interpreter model and the generated-code model's writer differ on {trunc(l, 140)}: interpreter-model={trunc(m, 90)} generated-model={trunc(o, 90)}",
                          {"correspondence": CORR, "unit": name, "op": l, "interpreter_model": m, "generated_model": o}, no_input=True)
    ctx.coverage["ofly_leg"] = {
        "correspondence": CORR, "stats": st.stats, "mismatches": len(st.mism) + len(st.enc_mism), "errors": len(st.errors),
        "units_outside_the_theorems": st.outside[:20], "samples": st.samples,
        "what": "extracted model of the interpreter (CreateValue/ReadTL1/WriteTL1) vs the real interpreter on every rw1 input of this run; "
                "its writer vs the generated-code model's writer on every type-directed value; theorem hypotheses evaluated per kernel dump",
    }
    if isinstance(ctx.coverage.get("trusted_base"), list):
        ctx.coverage["trusted_base"].append("family ofly: extraction coq/extract/Extract_ofly.v (ExtrOcamlBasic only), ocaml/drv_ofly.ml, ocaml/tl1/schema_io.ml, "
                                            "second kernel dump (verifdump without --instantiateConstants) + len(NatParams()) table, comparison in lib/ofly_lib.py")
    ctx.assumptions += ["the interpreter's model renders slices.SortFunc as a stable insertion sort: exact for up to 12 dictionary elements and for distinct keys",
                        "the schema IR conflates byte/bit/uint64 (TL2-only primitives): the interpreter's model is claimed only where no field refers to them (notl1_free, evaluated per dump)"]
