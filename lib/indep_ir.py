"""Independent derivation of the resolved TL1 schema IR (the input of the Coq codec model) and its
structural comparison with the kernel dump (leg corr:C11:resolution / corr:C01:resolution).

Why: the IR the model runs on is dumped from the real kernel (internal/pure via verifdump), and the Go
generator consumes the same resolution.  A defect of the kernel's resolution (field index of a size
argument, mask source, order of nat arguments through a typedef, ...) therefore yields a
self-consistent wrong IR and stays invisible to model-vs-generated-code comparisons.  This module
re-derives the IR from the schema TEXT with its own small parser and its own instantiation algorithm
(no /repo code, written from the TL language rules) and compares it with the dump, up to renumbering
of type instances.

Conventions fixed here (they are conventions of the IR, not of the wire format; stated so that a
reader can judge them):
 * template instantiation: one instance per (combinator, type arguments incl. bareness, CONSTANT nat
   arguments); every non-constant nat argument is a "slot".  The nat parameters of an instance are its
   slots in depth-first order of its arguments (for `n*[T]`: size first, then T; dictionary: key, value).
 * NField i counts fields of the combinator AFTER `# name:[T]` has been folded into one vector field.
 * `vector`, `tuple`, `dictionary*`, `Maybe` are what the schema header declares: structs/unions whose
   single field is the built-in array / dictionary type.
 * a combinator whose name contains "dictionary", with a companion `<name>Field` of two fields, is the
   map-backed dictionary; its element struct is anonymous (tag 0).
"""
import json
import re
import zlib
from pathlib import Path


class Unsupported(Exception):
    """construct outside what this resolver handles (must not happen for lib/randschema.py output)"""


class Rejected(Exception):
    """the schema is ill-formed by the rules implemented here (the kernel is expected to reject it too)"""


# ----------------------------------------------------------------------------------------------- lexer

_TOK = re.compile(r"""
   (?P<ws>\s+|//[^\n]*|/\*.*?\*/)
 | (?P<section>---\s*[a-z]+\s*---)
 | (?P<id>[A-Za-z_][A-Za-z0-9_]*)
 | (?P<num>[0-9]+)
 | (?P<arrow>=>)
 | (?P<p>[#?=;{}:()\[\]%*<>,!.@+])
""", re.X)


def lex(text):
    """tokens: (kind, text) with kind in id|num|tag|p ; `name#hex` (no space) gives a tag token"""
    out = []
    pos = 0
    prev_end_is_ident = False
    while pos < len(text):
        if text[pos] == "#" and prev_end_is_ident:
            m = re.match(r"#([0-9a-fA-F]{1,8})(?![0-9A-Za-z_])", text[pos:])
            if m:
                out.append(("tag", m.group(1)))
                pos += m.end()
                prev_end_is_ident = False
                continue
        m = _TOK.match(text, pos)
        if not m:
            raise Unsupported(f"lexer: unexpected character {text[pos]!r} at {pos}")
        pos = m.end()
        k = m.lastgroup
        if k == "ws":
            prev_end_is_ident = False
            continue
        if k == "section":
            out.append(("section", m.group(k).strip("- \t")))
        elif k == "arrow":
            out.append(("p", "=>"))
        else:
            out.append((k, m.group(k)))
        prev_end_is_ident = k == "id"
    return out


# ----------------------------------------------------------------------------------------------- AST

class TExpr:
    """type expression: head name (or '#'), percent flag, arguments (TExpr | int)"""
    __slots__ = ("name", "pct", "args")

    def __init__(self, name, pct=False, args=None):
        self.name, self.pct, self.args = name, pct, args or []

    def __repr__(self):
        a = "".join(" " + repr(x) for x in self.args)
        return f"({'%' if self.pct else ''}{self.name}{a})"


class FieldAst:
    __slots__ = ("name", "mask", "texpr", "repeat", "scale", "inner", "excl")

    def __init__(self):
        self.name = None      # str | None
        self.mask = None      # (name, bit) | None
        self.texpr = None     # TExpr (when not repeat)
        self.repeat = False
        self.scale = None     # None (implicit) | int | str
        self.inner = []       # [FieldAst] inside brackets
        self.excl = False


class Comb:
    __slots__ = ("mods", "cname", "tag", "builtin", "tparams", "fields", "is_function", "tname", "targs", "result", "text")

    def __init__(self):
        self.mods, self.cname, self.tag, self.builtin = [], None, None, False
        self.tparams, self.fields = [], []          # tparams: [(name, is_nat)]
        self.is_function, self.tname, self.targs, self.result = False, None, [], None
        self.text = ""


class Parser:
    def __init__(self, text):
        self.toks = lex(text)
        self.i = 0

    def peek(self, k=0):
        j = self.i + k
        return self.toks[j] if j < len(self.toks) else ("eof", "")

    def next(self):
        t = self.peek()
        self.i += 1
        return t

    def accept(self, text):
        if self.peek() == ("p", text):
            self.i += 1
            return True
        return False

    def expect(self, text):
        if not self.accept(text):
            raise Unsupported(f"parser: expected {text!r}, got {self.peek()} at token {self.i}")

    def ident(self):
        k, t = self.next()
        if k != "id":
            raise Unsupported(f"parser: identifier expected, got {(k, t)}")
        return t

    def qname(self):
        n = self.ident()
        if self.peek() == ("p", ".") and self.peek(1)[0] == "id":
            self.i += 1
            n = n + "." + self.ident()
        return n

    def combinators(self):
        out = []
        self.in_functions = False
        while self.peek()[0] != "eof":
            if self.peek()[0] == "section":
                self.in_functions = self.next()[1] == "functions"
                continue
            out.append(self.combinator())
        return out

    def combinator(self):
        c = Comb()
        start = self.i
        while self.accept("@"):
            c.mods.append(self.ident())
        c.cname = self.qname()
        if self.peek()[0] == "tag":
            c.tag = int(self.next()[1], 16)
        if self.accept("?"):
            c.builtin = True
        while self.peek() == ("p", "{"):
            self.i += 1
            n = self.ident()
            self.expect(":")
            if self.accept("#"):
                c.tparams.append((n, True))
            else:
                if self.ident() != "Type":
                    raise Unsupported("template parameter must be # or Type")
                c.tparams.append((n, False))
            self.expect("}")
        while self.peek() not in (("p", "="), ("p", "=>")):
            c.fields.append(self.field())
        if self.accept("=>") or (getattr(self, "in_functions", False) and self.accept("=")):
            c.is_function = True
            c.result = self.juxtaposed(";")
        else:
            self.expect("=")
            c.tname = self.qname()
            while self.peek() != ("p", ";"):
                c.targs.append(self.ident())
        self.expect(";")
        c.text = " ".join(t for _, t in self.toks[start:self.i])
        return c

    def juxtaposed(self, stop):
        """`Head a b c` without parentheses (function result position)"""
        head = self.term()
        while self.peek() != ("p", stop):
            head.args.append(self.arg())
        return head

    def field(self):
        f = FieldAst()
        if self.peek()[0] == "id" and self.peek(1) == ("p", ":"):
            f.name = self.ident()
            self.i += 1
        if self.peek()[0] == "id" and self.peek(1) == ("p", ".") and self.peek(2)[0] == "num" and self.peek(3) == ("p", "?"):
            m = self.ident()
            self.i += 1
            bit = int(self.next()[1])
            self.i += 1
            f.mask = (m, bit)
        if self.accept("!"):
            f.excl = True
        # repetition:  [ ... ]  |  n*[ ... ]  |  name*[ ... ]
        if self.peek() == ("p", "["):
            f.repeat = True
        elif self.peek()[0] in ("num", "id") and self.peek(1) == ("p", "*") and self.peek(2) == ("p", "["):
            k, t = self.next()
            f.scale = int(t) if k == "num" else t
            self.i += 1
            f.repeat = True
        if f.repeat:
            self.expect("[")
            while not self.accept("]"):
                f.inner.append(self.field())
            return f
        f.texpr = self.term()
        return f

    def term(self):
        """a type term that takes arguments only inside parentheses or angle brackets"""
        if self.accept("#"):
            return TExpr("#")
        pct = self.accept("%")
        if self.accept("("):
            pct = self.accept("%") or pct
            head = self.term()
            head.pct = head.pct or pct
            while not self.accept(")"):
                head.args.append(self.arg())
            return head
        name = self.qname()
        e = TExpr(name, pct)
        if self.accept("<"):
            while True:
                e.args.append(self.arg())
                if self.accept(">"):
                    break
                self.expect(",")
        return e

    def arg(self):
        if self.peek()[0] == "num":
            return int(self.next()[1])
        return self.term()


# ----------------------------------------------------------------------------------------------- resolver

PRIMS = {"int": "int32", "long": "int64", "string": "string", "float": "float32", "double": "float64"}


class TypeDecl:
    """one TL type: struct (single constructor), union (several), builtin wrapper, Bool"""

    def __init__(self, kind, combs):
        self.kind = kind            # struct | union | wrapper | bool
        self.combs = combs
        self.cname = combs[0].cname
        self.tname = combs[0].tname
        self.tparams = combs[0].tparams
        self.canon = self.cname if kind == "struct" else self.tname


def _is_nat(a):
    return a[0] in ("num", "nat")


def strip(a):
    """forget where slots get their value from"""
    if a[0] == "num":
        return a
    if a[0] == "nat":
        return ("nat", None)
    _, t, bare = a
    return ("type", strip_t(t), bare)


def strip_t(t):
    if t[0] == "prim":
        return t
    if t[0] == "app":
        return ("app", t[1], tuple(strip(x) for x in t[2]))
    if t[0] == "vec":
        return ("vec", strip(t[1]))
    if t[0] == "tup":
        return ("tup", strip(t[1]), strip(t[2]))
    if t[0] == "dict":
        return ("dict", strip(t[1]), strip(t[2]))
    raise AssertionError(t)


def sources(a, out):
    """slot sources of an argument, depth first, in argument order"""
    if a[0] == "num":
        return out
    if a[0] == "nat":
        out.append(a[1])
        return out
    sources_t(a[1], out)
    return out


def sources_t(t, out):
    if t[0] == "app":
        for x in t[2]:
            sources(x, out)
    elif t[0] == "vec":
        sources(t[1], out)
    elif t[0] in ("tup", "dict"):
        sources(t[1], out)
        sources(t[2], out)
    return out


def rebind(a, counter, names, prefix):
    """give every slot of an (already stripped) argument a fresh parameter index of the instance"""
    if a[0] == "num":
        return a
    if a[0] == "nat":
        j = counter[0]
        counter[0] += 1
        names.append(prefix)
        return ("nat", ("param", j))
    _, t, bare = a
    return ("type", rebind_t(t, counter, names, prefix), bare)


def rebind_t(t, counter, names, prefix):
    if t[0] == "prim":
        return t
    if t[0] == "app":
        return ("app", t[1], tuple(rebind(x, counter, names, prefix) for x in t[2]))
    if t[0] == "vec":
        return ("vec", rebind(t[1], counter, names, prefix))
    return (t[0], rebind(t[1], counter, names, prefix), rebind(t[2], counter, names, prefix))


def key_t(t):
    if t[0] == "prim":
        return t[1]
    if t[0] == "app":
        return t[1] + ("<" + ",".join(key_a(x) for x in t[2]) + ">" if t[2] else "")
    if t[0] == "vec":
        return "[]" + key_a(t[1])
    if t[0] == "tup":
        return "[" + key_a(t[1]) + "]" + key_a(t[2])
    return "[" + key_a(t[1]) + "=>]" + key_a(t[2])


def key_a(a):
    if a[0] == "num":
        return str(a[1])
    if a[0] == "nat":
        return "*"
    return ("" if a[2] else "+") + key_t(a[1])


def natarg_json(src):
    if src[0] == "num":
        return {"kind": "num", "value": src[1]}
    return {"kind": src[0], "value": src[1]}


class Resolver:
    """schema text -> list of instances in the JSON shape of the verifdump output (own numbering)."""

    def __init__(self, text):
        """text: the schema text, or a list of texts (one per file; `---functions---` sections end with their file)"""
        self.combs = []
        for t in ([text] if isinstance(text, str) else list(text)):
            self.combs += Parser(t).combinators()
        self.names = {}       # reference name -> (TypeDecl | ('prim', p), bare-by-name)
        self.decls = []
        self.functions = []
        self.ins = []
        self.memo = {}
        self.roots = []       # (name, instance id)
        self.stats = {"field_refs_after_fold": 0, "folded_count_vectors": 0, "implicit_counts": 0}
        self._declare()

    # ---------------------------------------------------------------- declarations
    def _declare(self):
        by_type = {}
        order = []
        for pn, kn in PRIMS.items():      # the bare primitive names exist whether or not a boxed wrapper is declared
            self.names[pn] = (("prim", kn), True)
        for c in self.combs:
            if c.is_function:
                self.functions.append(c)
                continue
            if c.tname not in by_type:
                by_type[c.tname] = []
                order.append(c.tname)
            by_type[c.tname].append(c)
        seen_c = set()
        for c in self.combs:
            if c.cname in seen_c:
                raise Rejected(f"constructor {c.cname} declared twice")
            seen_c.add(c.cname)
            fnames = [p for p, _ in c.tparams] + [f.name for f in c.fields if f.name]
            # (the kernel normalises names before comparing; randschema names cannot collide that way)
            if len(set(fnames)) != len(fnames):
                raise Rejected(f"{c.cname}: duplicate field/parameter name")
            if not c.is_function:
                if [p for p, _ in c.tparams] != c.targs:
                    raise Rejected(f"{c.cname}: result type arguments differ from template parameters")
            elif c.tparams:
                raise Rejected(f"{c.cname}: function with template parameters")
        for tname in order:
            cs = by_type[tname]
            if cs[0].builtin:
                if len(cs) != 1 or cs[0].cname not in PRIMS or cs[0].tparams:
                    raise Unsupported(f"builtin {cs[0].cname}")
                d = TypeDecl("wrapper", cs)
                self.names[cs[0].cname] = (("prim", PRIMS[cs[0].cname]), True)
                self._add_name(tname, d, False)
            elif tname == "Bool":
                if len(cs) != 2 or [c.cname for c in cs] != ["boolFalse", "boolTrue"] or any(c.fields or c.tparams for c in cs):
                    raise Rejected("Bool must be boolFalse/boolTrue")
                d = TypeDecl("bool", cs)
                self._add_name("Bool", d, False)
            elif len(cs) == 1:
                d = TypeDecl("struct", cs)
                if cs[0].cname.split(".")[:-1] != tname.split(".")[:-1]:
                    raise Rejected(f"{cs[0].cname}: constructor namespace differs from type namespace")
                self._add_name(cs[0].cname, d, True)
                self._add_name(tname, d, False)
            else:
                d = TypeDecl("union", cs)
                for c in cs[1:]:
                    if c.tparams != cs[0].tparams:
                        raise Rejected(f"{c.cname}: union constructors with different template parameters")
                self._add_name(tname, d, False)
            self.decls.append(d)
        # the built-in dictionary element:  __dict_field {k:Type} {v:Type} key:k value:v
        df = Parser("__dict_field {k:Type} {v:Type} key:k value:v = DictField k v;").combinators()[0]
        df.tag = 0
        self.dict_field = TypeDecl("struct", [df])
        self.dict_field.canon = "__dict_field"

    def _add_name(self, name, decl, bare):
        if name in self.names:
            raise Rejected(f"name {name} declared twice")
        self.names[name] = (decl, bare)

    def dict_wrapper(self, d):
        """(field decl, number of type params) when d is a map-backed dictionary wrapper"""
        if d.kind != "struct" or "dictionary" not in d.cname.split(".")[-1].lower():
            return None
        ent = self.names.get(d.cname + "Field")
        if not ent or not isinstance(ent[0], TypeDecl) or ent[0].kind != "struct":
            return None
        fd = ent[0]
        if not (1 <= len(fd.tparams) <= 2) or len(fd.tparams) != len(d.tparams) or len(fd.combs[0].fields) != 2:
            return None
        for (a, an), (b, bn) in zip(d.tparams, fd.tparams):
            if an or bn or a != b:
                return None
        return fd

    # ---------------------------------------------------------------- type expressions
    def resolve(self, e, env):
        """TExpr|int -> argument ('num',c) | ('nat',src) | ('type', tree, bare) ; sources refer to env"""
        if isinstance(e, int):
            return ("num", e)
        if e.name == "#":
            return ("type", ("prim", "uint32"), True)
        if "." not in e.name and e.name in env:
            b = env[e.name]
            if e.args:
                raise Rejected(f"reference to local name {e.name} with arguments")
            if b[0] == "wrong":
                raise Rejected(f"{e.name} is not a #-field or #-parameter")
            if _is_nat(b):
                if e.pct:
                    raise Rejected(f"%{e.name}: bare reference to a nat")
                return b
            return ("type", b[1], b[2] or (e.pct and b[1][0] not in ("vec", "tup", "dict")))
        ent = self.names.get(e.name)
        if ent is None:
            raise Rejected(f"unknown type {e.name}")
        d, bare_by_name = ent
        if not isinstance(d, TypeDecl):
            if e.args:
                raise Rejected(f"primitive {e.name} with arguments")
            return ("type", d, True)
        if d.kind == "bool":
            if e.args or e.pct:
                raise Rejected("Bool takes no arguments and has no bare form")
            return ("type", ("prim", "bool"), False)
        bare = bare_by_name or e.pct
        if d.kind == "wrapper" and bare:
            if e.args:
                raise Rejected(f"primitive {e.name} with arguments")
            return ("type", ("prim", PRIMS[d.cname]), True)
        if d.kind == "union" and bare:
            raise Rejected(f"union {d.tname} cannot be bare")
        if len(e.args) != len(d.tparams):
            raise Rejected(f"{e.name}: {len(e.args)} arguments for {len(d.tparams)} parameters")
        args = []
        for (pn, is_nat), a in zip(d.tparams, e.args):
            r = self.resolve(a, env)
            if is_nat != _is_nat(r):
                raise Rejected(f"{e.name}: argument {pn} has the wrong kind")
            args.append(r)
        return ("type", ("app", d.canon, tuple(args)), bare)

    # ---------------------------------------------------------------- instances
    def new_instance(self, key, kind, name):
        x = {"id": len(self.ins), "kind": kind, "name": name, "tag": 0, "natParams": [], "fields": []}
        self.ins.append(x)
        self.memo[key] = x["id"]
        return x

    def instance(self, t):
        """stripped tree -> instance id"""
        key = key_t(t)
        if key in self.memo:
            return self.memo[key]
        if t[0] == "prim":
            x = self.new_instance(key, "prim", t[1])
            if t[1] == "bool":
                d = self.names["Bool"][0]
                x["falseTag"], x["trueTag"] = self.tag_of(d.combs[0]), self.tag_of(d.combs[1])
            return x["id"]
        if t[0] == "vec":
            x = self.new_instance(key, "array", key)
            names = []
            el = rebind(t[1], [0], names, "t")
            x["natParams"] = names
            x["elem"] = self.field_json("", el, None)
            return x["id"]
        if t[0] == "tup":
            x = self.new_instance(key, "array", key)
            x["isTuple"] = True
            names, cnt = [], [0]
            if t[1][0] == "num":
                x["count"] = t[1][1]
            else:
                x["dynamicSize"] = True
                rebind(t[1], cnt, names, "n")
            el = rebind(t[2], cnt, names, "t")
            x["natParams"] = names
            x["elem"] = self.field_json("", el, None)
            return x["id"]
        if t[0] == "dict":
            x = self.new_instance(key, "dict", key)
            names, cnt = [], [0]
            k = rebind(t[1], cnt, names, "k")
            v = rebind(t[2], cnt, names, "v")
            x["natParams"] = names
            el = ("type", ("app", "__dict_field", (k, v)), True)
            x["elem"] = self.field_json("", el, None)
            ks = self.ins[x["elem"]["type"]]
            kt = self.ins[ks["fields"][0]["type"]]
            hops = 0
            while kt["kind"] == "struct" and len(kt["fields"]) == 1 and kt["fields"][0].get("mask") is None and hops < 8:
                kt = self.ins[kt["fields"][0]["type"]]
                hops += 1
            if kt["kind"] != "prim" or kt["name"] not in ("uint32", "int32", "int64", "string", "bool"):
                raise Rejected("dictionary key is not an integer/string/bool")
            return x["id"]
        # application of a declared type
        canon, args = t[1], t[2]
        d = self.dict_field if canon == "__dict_field" else self.names_canon(canon)
        if d.kind == "union":
            x = self.new_instance(key, "union", key)
            names, cnt = [], [0]
            bound = [rebind(a, cnt, names, pn) for a, (pn, _) in zip(args, d.tparams)]
            x["natParams"] = names
            x["tlName"] = d.tname
            x["variants"] = []
            x["elementNatArgs"] = [{"kind": "param", "value": j} for j in range(len(names))]
            suffix = key[len(canon):]
            for i, c in enumerate(d.combs):
                v = self.new_instance("variant:" + c.cname + suffix, "struct", c.cname + suffix)
                v["isUnionElement"], v["unionIndex"] = True, i
                self.fill_struct(v, d, c, bound)
                x["variants"].append(v["id"])
            return x["id"]
        x = self.new_instance(key, "struct", key)
        names, cnt = [], [0]
        bound = [rebind(a, cnt, names, pn) for a, (pn, _) in zip(args, d.tparams)]
        self.fill_struct(x, d, d.combs[0], bound)
        return x["id"]

    def names_canon(self, canon):
        ent = self.names.get(canon)
        if ent is None or not isinstance(ent[0], TypeDecl):
            raise Unsupported(f"no declaration {canon}")
        return ent[0]

    def tag_of(self, c):
        return c.tag if c.tag is not None else canonical_crc32(c)

    def field_json(self, name, a, mask):
        """argument (with sources) -> field record; instantiates the referenced type"""
        if a[0] != "type":
            raise Rejected(f"field {name}: a nat is not a type")
        tid = self.instance(strip_t(a[1]))
        f = {"name": name, "type": tid, "bare": bool(a[2]), "mask": None, "bit": 0,
             "natArgs": [natarg_json(s) for s in sources(a, [])]}
        if mask is not None:
            f["mask"], f["bit"] = natarg_json(mask[0]), mask[1]
        return f

    def fill_struct(self, x, d, c, bound):
        """fields of combinator c with its template parameters bound to `bound`"""
        # nat parameters of the instance = slots of the bound arguments, in order
        x["natParams"] = []
        for a, (pn, _) in zip(bound, d.tparams):
            for s in sources(a, []):
                x["natParams"].append(pn)
        x["tag"] = self.tag_of(c)
        x["tlName"] = c.cname
        env = {}
        for a, (pn, _) in zip(bound, d.tparams):
            env[pn] = a
        fields = []
        wrapper = self.dict_wrapper(d) if d is not self.dict_field else None
        if d.kind == "wrapper":
            fields.append(self.field_json("", ("type", ("prim", PRIMS[c.cname]), True), None))
            x["fields"] = fields
            return
        if wrapper is not None:
            if len(bound) == 2:
                k, v = bound
            else:
                k, v = self.resolve(wrapper.combs[0].fields[0].texpr, {}), bound[0]
            if _is_nat(k) or _is_nat(v):
                raise Rejected("dictionary of a number")
            a = ("type", ("dict", k, v), True)
            fields.append(self.field_json(c.fields[-1].name or "", a, None))
            x["fields"] = fields
            return
        raw = c.fields
        i = 0
        while i < len(raw):
            f = raw[i]
            if f.excl:
                raise Unsupported("!X fields")
            if not f.repeat and f.texpr.name == "#" and f.name is None and i + 1 < len(raw):
                # `# name:[T]`: the count and the repetition are ONE field, a vector
                nxt = raw[i + 1]
                if nxt.mask is not None or not nxt.repeat or nxt.scale is not None or f.mask is not None:
                    raise Rejected("anonymous # must be followed by plain brackets")
                el = self.bracket_elem(nxt, env)
                a = ("type", ("vec", el), True)
                f = nxt
                i += 1
                self.stats["folded_count_vectors"] += 1
            elif f.repeat:
                el = self.bracket_elem(f, env)
                if f.scale is None and i == 0 and c.tparams:
                    pn, is_nat = c.tparams[-1]
                    if not is_nat:
                        raise Rejected("implicit repetition count must be a # parameter")
                    size = env[pn]
                elif f.scale is None:
                    if i == 0:
                        raise Rejected("repetition without a count")
                    prev = raw[i - 1]
                    if prev.repeat or prev.texpr.name != "#" or prev.name is None:
                        raise Rejected("implicit repetition count must be the previous # field")
                    size = self.resolve(TExpr(prev.name), env)
                elif isinstance(f.scale, int):
                    size = ("num", f.scale)
                else:
                    size = self.resolve(TExpr(f.scale), env)
                if not _is_nat(size):
                    raise Rejected("repetition count is not a nat")
                a = ("type", ("tup", size, el), True)
            else:
                a = self.resolve(f.texpr, env)
            mask = None
            if f.mask is not None:
                mn, bit = f.mask
                if bit > 31:
                    raise Rejected("mask bit out of range")
                b = env.get(mn)
                if b is None or not _is_nat(b):
                    raise Rejected(f"field mask {mn} is not a #-field or #-parameter")
                mask = ((b if b[0] == "num" else b[1]), bit)
            idx = len(fields)
            fj = self.field_json(f.name or "", a, mask)
            fields.append(fj)
            if idx != i:   # references to fields whose index differs from their position in the source
                self.stats["field_refs_after_fold"] += sum(1 for s in fj["natArgs"] + ([fj["mask"]] if fj["mask"] else []) if s["kind"] == "field")
            if f.repeat and f.scale is None and a[1][0] == "tup":
                self.stats["implicit_counts"] += 1
            if f.name:
                is_hash = (not f.repeat) and f.texpr.name == "#" and not f.texpr.args
                env[f.name] = ("nat", ("field", idx)) if is_hash else ("wrong",)
            i += 1
        for f in fields:
            if not f["name"] and (len(fields) != 1 or f["mask"] is not None):
                raise Rejected("anonymous field in a combinator with several fields")
            if not f["name"] and c.is_function:
                raise Rejected("anonymous field in a function")
        x["fields"] = fields
        if c.is_function:
            r = self.resolve(c.result, env)
            if r[0] != "type":
                raise Rejected("function result is a nat")
            rf = self.field_json("", r, None)
            if rf["bare"]:
                raise Rejected("function result is bare")
            x["isFunction"] = True
            x["result"] = {"type": rf["type"], "bare": rf["bare"], "natArgs": rf["natArgs"]}

    def bracket_elem(self, f, env):
        if len(f.inner) != 1:
            raise Rejected("brackets must contain a single type")
        g = f.inner[0]
        if g.repeat or g.name is not None or g.mask is not None:
            raise Rejected("brackets content must be an unnamed plain type")
        el = self.resolve(g.texpr, env)
        if el[0] != "type":
            raise Rejected("brackets content is a nat")
        return el

    # ---------------------------------------------------------------- whole schema
    def run(self):
        """instantiate every closed (parameterless) declaration; returns the instance list"""
        for c in self.combs:
            if c.is_function:
                x = self.new_instance("function:" + c.cname, "struct", c.cname)
                d = TypeDecl("struct", [c])
                self.fill_struct(x, d, c, [])
                self.roots.append((c.cname, x["id"]))
        for d in self.decls:
            if d.kind == "bool" or d.tparams:
                continue
            a = ("app", d.canon, ())
            tid = self.instance(a)
            self.roots.append((d.canon, tid))
            if d.kind == "union":
                for v in self.ins[tid]["variants"]:
                    self.roots.append((self.ins[v]["name"], v))
        for x in self.ins:
            x["topLevel"] = any(x["id"] == r for _, r in self.roots)
        self.lint = self.check_mask_vs_size()
        return self.ins

    def check_mask_vs_size(self):
        """language rule: a # field must not be used both as a field mask and as a tuple size, also
        not indirectly through template parameters it is passed to"""
        ins = self.ins

        def mark(tid, j, seen, use):
            if (tid, j) in seen:
                return
            seen.add((tid, j))
            x = ins[tid]
            if x["kind"] == "struct":
                for f in x["fields"]:
                    m = f.get("mask")
                    if m and m["kind"] == "param" and m["value"] == j:
                        use.add("mask")
                    for ai, a in enumerate(f["natArgs"]):
                        if a["kind"] == "param" and a["value"] == j:
                            mark(f["type"], ai, seen, use)
            elif x["kind"] == "union":
                for v in x["variants"]:
                    mark(v, j, seen, use)
            elif x["kind"] == "array" and x.get("dynamicSize") and j == 0:
                use.add("size")
            elif x["kind"] in ("array", "dict"):
                for ai, a in enumerate(x["elem"]["natArgs"]):
                    if a["kind"] == "param" and a["value"] == j:
                        mark(x["elem"]["type"], ai, seen, use)

        for x in ins:
            if x["kind"] != "struct":
                continue
            for i, fi in enumerate(x["fields"]):
                use, seen = set(), set()
                for f in x["fields"] + ([x["result"]] if x.get("result") else []):
                    m = f.get("mask")
                    if m and m["kind"] == "field" and m["value"] == i:
                        use.add("mask")
                    for ai, a in enumerate(f["natArgs"]):
                        if a["kind"] == "field" and a["value"] == i:
                            mark(f["type"], ai, seen, use)
                if len(use) == 2:
                    return f"{x['name']}: # field {fi['name']} is used both as field mask and as tuple size" + (" (union constructor)" if x.get("isUnionElement") else "")
        return None


# ----------------------------------------------------------------------------------------------- tags

def _crc_type(e, top):
    """canonical text of a type expression inside a combinator: parentheses and angle brackets are
    dropped (prefix notation is unambiguous), `%` is kept on Type names only"""
    if isinstance(e, int):
        return str(e)
    s = ("%" if e.pct and not e.name.split(".")[-1][:1].islower() else "") + e.name
    return " ".join([s] + [_crc_type(a, False) for a in e.args])


def canonical_text(c):
    """one line, braces dropped, one space between tokens, `[ T ]` (documented in tlast/tlcrc32.go)"""
    parts = [c.cname]
    for n, is_nat in c.tparams:
        parts.append(f"{n}:{'#' if is_nat else 'Type'}")
    if c.builtin:
        parts.append("?")

    def fld(f):
        s = (f.name + ":") if f.name else ""
        if f.mask:
            s += f"{f.mask[0]}.{f.mask[1]}?"
        if f.repeat:
            s += (f"{f.scale}*" if f.scale is not None else "") + "[ " + " ".join(fld(g) for g in f.inner) + " ]"
        else:
            s += ("!" if f.excl else "") + _crc_type(f.texpr, False)
        return s
    parts += [fld(f) for f in c.fields]
    parts.append("=")
    if c.is_function:
        parts.append(_crc_type(c.result, True))
    else:
        parts.append(" ".join([c.tname] + c.targs))
    return " ".join(parts)


def canonical_crc32(c):
    """None when brackets contain a type application or nested brackets: there the implementation's
    canonical text keeps parentheses (finding F18 of C23), so the documented rule gives another tag;
    those tags are not compared here (canonical forms are the subject of C21/C23/C25)."""
    def quirky(fs):
        for f in fs:
            if f.repeat and any(g.repeat or g.name or g.mask or (g.texpr is not None and (g.texpr.args or g.texpr.pct)) for g in f.inner):
                return True
        return False
    if quirky(c.fields):
        return None
    return zlib.crc32(canonical_text(c).encode()) & 0xffffffff


# ----------------------------------------------------------------------------------------------- comparison

PRIM_CLASS = {"uint32": "nat", "int32": "int", "float32": "float", "int64": "long", "float64": "double",
              "string": "string", "bool": "bool"}


def _na(a, fields=None):
    if a is None:
        return "none"
    if a["kind"] == "num":
        return f"const {a['value']}"
    if a["kind"] == "field":
        nm = ""
        if fields is not None and a["value"] < len(fields):
            nm = f" ({fields[a['value']].get('name') or '_'})"
        return f"field#{a['value']}{nm}"
    return f"param#{a['value']}"


class Comparison:
    def __init__(self, exp, ker, roots, compare_tags=True):
        self.exp, self.ker, self.roots = exp, ker, roots
        self.compare_tags = compare_tags
        self.e2k, self.k2e = {}, {}
        self.diffs = []       # (kind, path, message)
        self.stats = {"instances": 0, "fields": 0, "masks": 0, "tags": 0,
                      "natargs_num": 0, "natargs_field": 0, "natargs_param": 0, "size_args": 0, "results": 0}

    def diff(self, kind, path, msg):
        self.diffs.append((kind, path, msg))

    def run(self):
        by_name = {}
        for x in self.ker:
            by_name.setdefault(x["name"], x["id"])
        todo = []
        for name, eid in self.roots:
            if name not in by_name:
                self.diff("root-missing", name, f"closed declaration {name} has no instance in the kernel dump")
                continue
            todo.append((eid, by_name[name], ""))
        known = {n for n, _ in self.roots}
        for x in self.ker:
            if x.get("topLevel") and not x.get("natParams") and x["kind"] in ("struct", "union") and "<" not in x["name"] and x["name"] not in known:
                self.diff("root-extra", x["name"], f"kernel has a top-level instance {x['name']} that is no closed declaration of the schema")
        while todo:
            eid, kid, path = todo.pop()
            if eid in self.e2k or kid in self.k2e:
                if self.e2k.get(eid) != kid or self.k2e.get(kid) != eid:
                    self.diff("instance-identity", path, f"instances are shared differently: expected instance {self.exp[eid]['name']} "
                              f"corresponds to kernel #{self.e2k.get(eid)} elsewhere, here to #{kid} ({self.ker[kid]['name']})")
                continue
            self.e2k[eid], self.k2e[kid] = kid, eid
            self.node(self.exp[eid], self.ker[kid], path, todo)
        return self

    def field(self, ef, kf, efields, kfields, path, what, todo, is_struct_field=True):
        st = self.stats
        st["fields"] += 1
        p = f"{path} {what}".strip()
        if bool(ef["bare"]) != bool(kf["bare"]):
            self.diff("field-bare", p, f"expected {'bare' if ef['bare'] else 'boxed'}, kernel says {'bare' if kf['bare'] else 'boxed'}")
        em, km = ef.get("mask"), kf.get("mask")
        if (em is None) != (km is None):
            self.diff("mask-presence", p, f"field mask: expected {_na(em, efields)}, kernel says {_na(km, kfields)}")
        elif em is not None:
            st["masks"] += 1
            st["masks_" + em["kind"]] = st.get("masks_" + em["kind"], 0) + 1
            if (em["kind"], em["value"]) != (km["kind"], km["value"]):
                self.diff("mask-source", p, f"field mask source: expected {_na(em, efields)}, kernel says {_na(km, kfields)}")
            if ef["bit"] != kf["bit"]:
                self.diff("mask-bit", p, f"field mask bit: expected {ef['bit']}, kernel says {kf['bit']}")
        ea, ka = ef.get("natArgs") or [], kf.get("natArgs") or []
        et = self.exp[ef["type"]]
        if len(ea) != len(ka):
            self.diff("natarg-count", p, f"nat arguments: expected [{', '.join(_na(a, efields) for a in ea)}], kernel says [{', '.join(_na(a, kfields) for a in ka)}]")
        else:
            for j, (a, b) in enumerate(zip(ea, ka)):
                is_size = j == 0 and et["kind"] == "array" and et.get("dynamicSize")
                st["natargs_" + a["kind"]] += 1
                if is_size:
                    st["size_args"] += 1
                if (a["kind"], a["value"]) != (b["kind"], b["value"]):
                    self.diff("size-arg-source" if is_size else "natarg-source", p,
                              f"{'size arg' if is_size else f'nat arg {j}'}: expected {_na(a, efields)}, kernel says {_na(b, kfields)}")
        if kf["type"] is None or kf["type"] < 0 or kf["type"] >= len(self.ker):
            self.diff("field-type", p, f"kernel field type is not a listed instance ({kf['type']})")
            return
        todo.append((ef["type"], kf["type"], p + " ->"))

    def node(self, e, k, path, todo):
        st = self.stats
        st["instances"] += 1
        if e["kind"] != k["kind"]:
            self.diff("instance-kind", path, f"expected {e['kind']} {e['name']}, kernel says {k['kind']} {k['name']}")
            return
        kind = e["kind"]
        if kind == "prim":
            if e["name"] != k["name"]:
                self.diff("prim", path, f"expected primitive {e['name']}, kernel says {k['name']}")
            elif e["name"] == "bool" and (e.get("falseTag"), e.get("trueTag")) != (k.get("falseTag", 0), k.get("trueTag", 0)):
                self.diff("prim", path, f"Bool tags: expected {e.get('falseTag'):08x}/{e.get('trueTag'):08x}, kernel says {k.get('falseTag', 0):08x}/{k.get('trueTag', 0):08x}")
            return
        if len(e.get("natParams") or []) != len(k.get("natParams") or []):
            self.diff("natparam-count", path, f"{e['name']}: expected {len(e.get('natParams') or [])} nat parameters, kernel says {len(k.get('natParams') or [])} ({k['name']})")
        if kind == "struct":
            name = e["name"]
            if e["tag"] is None:
                st["tags_not_derived"] = st.get("tags_not_derived", 0) + 1
                e["tag"] = k["tag"]
            elif self.compare_tags:
                st["tags"] += 1
                if e["tag"] != k["tag"]:
                    self.diff("tag", path, f"{name}: expected tag {e['tag']:08x}, kernel says {k['tag']:08x}")
            ef, kf = e["fields"], k["fields"]
            if len(ef) != len(kf):
                self.diff("field-count", path, f"{name}: expected {len(ef)} fields [{' '.join(f['name'] or '_' for f in ef)}], kernel says {len(kf)} [{' '.join(f['name'] or '_' for f in kf)}]")
                return
            for i, (a, b) in enumerate(zip(ef, kf)):
                if (a["name"] or "") != (b.get("name") or ""):
                    self.diff("field-name", path, f"{name} field {i}: expected name {a['name'] or '_'}, kernel says {b.get('name') or '_'}")
                self.field(a, b, ef, kf, path, f"{name} field {a['name'] or '_'}", todo)
            er, kr = e.get("result"), k.get("result")
            if (er is None) != (kr is None):
                self.diff("result", path, f"{name}: function result expected {'present' if er else 'absent'}")
            elif er is not None:
                st["results"] += 1
                self.field(dict(er, mask=None), dict(kr, mask=None), ef, kf, path, f"{name} result", todo)
        elif kind == "union":
            ev, kv = e["variants"], k["variants"]
            if len(ev) != len(kv):
                self.diff("union-variants", path, f"{e['name']}: expected {len(ev)} variants, kernel says {len(kv)}")
                return
            for i, (a, b) in enumerate(zip(ev, kv)):
                todo.append((a, b, f"{path} {e['name']} variant {i} ->".strip()))
        elif kind == "array":
            ek = "vector" if not e.get("isTuple") else ("dyn" if e.get("dynamicSize") else f"fixed:{e.get('count', 0)}")
            kk = "vector" if not k.get("isTuple") else ("dyn" if k.get("dynamicSize") else f"fixed:{k.get('count', 0)}")
            if ek != kk:
                self.diff("array-kind", path, f"{e['name']}: expected {ek}, kernel says {kk} ({k['name']})")
            self.field(e["elem"], k["elem"], None, None, path, f"{e['name']} element", todo)
        elif kind == "dict":
            self.field(e["elem"], k["elem"], None, None, path, f"{e['name']} entry", todo)

    def mapping(self):
        return dict(self.e2k)


def expected_ir(text, with_stats=False):
    """(instances, roots) derived from the schema text alone"""
    r = Resolver(text)
    ins = r.run()
    if with_stats:
        return ins, r.roots, dict(r.stats, lint=r.lint)
    return ins, r.roots


def compare_with_kernel(text, ker_ins, compare_tags=True):
    """-> dict(status=ok|diff|indep-rejected|unsupported, diffs=[(kind, path, msg)], stats, mapping, exp)"""
    try:
        exp, roots, rstats = expected_ir(text, with_stats=True)
    except Rejected as e:
        return {"status": "indep-rejected", "error": str(e), "diffs": [], "stats": {}, "mapping": {}, "exp": None}
    except Unsupported as e:
        return {"status": "unsupported", "error": str(e), "diffs": [], "stats": {}, "mapping": {}, "exp": None}
    c = Comparison(exp, ker_ins, roots, compare_tags).run()
    lint = rstats.pop("lint")
    c.stats.update(rstats)
    if lint:   # the kernel accepted a schema that breaks its own mask-vs-size rule (observed: the rule is not applied to union constructors)
        c.stats["mask_vs_size_rule_not_enforced"] = 1
    return {"status": "diff" if c.diffs else "ok", "diffs": c.diffs, "stats": c.stats, "mapping": c.mapping(), "exp": exp, "roots": roots, "lint": lint}


# ----------------------------------------------------------------------------------------------- the leg

class ResolutionLeg:
    """corr:<pid>:resolution -- kernel dump vs independent derivation for every schema unit of a check.

    usage:  leg = ResolutionLeg(ctx); leg.build(); leg.run(units); ... leg.report(ctx) at the end."""

    SIG = "C11:kernel-resolution:"

    def __init__(self, ctx):
        self.ctx = ctx
        self.name = f"corr:{ctx.pid}:resolution"
        self.exe, self.exe_err = None, None
        self.stats = {"schemas_compared": 0, "schemas_equal": 0, "schemas_different": 0, "random_schemas_compared": 0,
                      "repository_schemas_compared": 0, "not_compared_unsupported": 0,
                      "kernel_rejected": 0, "kernel_rejected_predicted": 0, "kernel_accepts_what_indep_rejects": 0,
                      "checker_runs": 0, "checker_accepts": 0}
        self.totals = {}
        self.viol = []        # (sig, what, data, no_input)
        self.samples = []
        self.notes = []
        self.iso_ops = []     # (unit name, op line)

    def build(self):
        """extracted checker Tl1IsoModel.ir_iso (needs Tl1Resolve.vo: the soundness proof must still check)"""
        import vlib
        with vlib.Lock():
            rc, out = vlib.coq_make(["theories/Tl1/Tl1Resolve.vo"])
            if rc != 0:
                self.exe_err = "Tl1Resolve.v does not check: " + out[-1500:]
                return
            try:
                self.exe = vlib.build_refmodel("tl1iso")
            except RuntimeError as e:
                self.exe_err = str(e)

    def run(self, units):
        import schema_ir
        ctx = self.ctx
        d = Path(ctx.scratch) / "resolution"
        d.mkdir(exist_ok=True)
        self.iso_ops = []
        for u in units:
            random_unit = u.name.startswith("rs")
            try:
                texts = [Path(f).read_text() for f in u.files]
            except OSError as e:
                self.notes.append(f"{u.name}: cannot read schema: {e}")
                continue
            if u.kernel_rejected:
                if not random_unit:
                    continue
                self.stats["kernel_rejected"] += 1
                try:
                    r = Resolver(texts)
                    r.run()
                    predicted = r.lint is not None
                except Rejected:
                    predicted = True
                except Unsupported:
                    predicted = False
                if predicted:
                    self.stats["kernel_rejected_predicted"] += 1
                elif len(self.notes) < 10:
                    self.notes.append(f"{u.name}: kernel rejects a schema the independent resolver accepts: {(u.error or '')[-160:]}")
                continue
            if u.ins is None:
                continue
            try:
                exp, roots, rstats = expected_ir(texts, with_stats=True)
            except Rejected as e:
                self.stats["kernel_accepts_what_indep_rejects"] += 1
                self.viol.append((self.SIG + "accepts-ill-formed", f"{self.name} {u.name}: the kernel accepts a schema that is ill-formed by the language rules: {e}",
                                  {"correspondence": self.name, "unit": u.name, "schema": texts, "rule": str(e)}, not random_unit))
                continue
            except Unsupported as e:
                self.stats["not_compared_unsupported"] += 1
                if random_unit:
                    self.viol.append((f"{ctx.pid}:resolution:indep-unsupported", f"{self.name} {u.name}: independent resolver cannot handle a generated schema: {e}",
                                      {"correspondence": self.name, "unit": u.name, "schema": texts, "error": str(e)}, True))
                else:
                    self.notes.append(f"{u.name}: not compared ({e})")
                continue
            c = Comparison(exp, u.ins, roots).run()
            lint = rstats.pop("lint")
            c.stats.update(rstats)
            if lint:
                c.stats["mask_vs_size_rule_not_enforced"] = 1
                if len(self.notes) < 10:
                    self.notes.append(f"{u.name}: kernel accepts although {lint}")
            self.stats["schemas_compared"] += 1
            self.stats["random_schemas_compared" if random_unit else "repository_schemas_compared"] += 1
            for k, v in c.stats.items():
                self.totals[k] = self.totals.get(k, 0) + v
            if c.diffs:
                self.stats["schemas_different"] += 1
                kind, path, msg = c.diffs[0]
                what = f"{self.name} {u.name}: {path}: {msg}" if path else f"{self.name} {u.name}: {msg}"
                self.viol.append((self.SIG + kind, what,
                                  {"correspondence": self.name, "unit": u.name, "schema": texts, "path": path, "difference": msg,
                                   "all_differences": [f"{k}: {p}: {m}" for k, p, m in c.diffs[:20]]}, False))
                continue
            self.stats["schemas_equal"] += 1
            if len(self.samples) < 4:
                self.samples.append({"schema": u.name, "kind": "resolution", "op": f"{len(exp)} expected instances vs {len(u.ins)} dumped",
                                     "go": "equal up to renumbering", "model": f"fields {c.stats['fields']} natargs field/param {c.stats['natargs_field']}/{c.stats['natargs_param']}"})
            # second opinion by the extracted, proved checker on the two IR files
            try:
                ef = d / f"{u.name}.indep.ir.txt"
                schema_ir.write_ir_file(exp, ef)
                kf = u.ir_path
                if kf is None:
                    kf = d / f"{u.name}.kernel.ir.txt"
                    schema_ir.write_ir_file(u.ins, kf)
                r = [str(c.e2k.get(i, 0)) for i in range(len(exp))]
                self.iso_ops.append((u.name, f"iso {ef} {kf} " + " ".join(r)))
            except Exception as e:  # noqa
                self.viol.append((f"{ctx.pid}:resolution:ir-file", f"{self.name} {u.name}: cannot write the IR files: {e!r}", {"unit": u.name}, True))
        if self.iso_ops and self.exe is not None:
            import vlib
            rc, out, err = vlib.run_lines(self.exe, [], [op for _, op in self.iso_ops], timeout=900)
            if rc != 0 or len(out) != len(self.iso_ops):
                self.viol.append((f"{ctx.pid}:resolution:checker-run", f"{self.name}: extracted checker failed: rc={rc} {err[-300:]}", {"error": err[-1000:]}, True))
            else:
                for (name, op), o in zip(self.iso_ops, out):
                    self.stats["checker_runs"] += 1
                    if o == "ok true":
                        self.stats["checker_accepts"] += 1
                    else:
                        self.viol.append((f"{ctx.pid}:resolution:checker-disagrees:{name}", f"{self.name} {name}: the Python comparison found no difference but the extracted checker ir_iso says {o}",
                                          {"unit": name, "op": op[:400], "result": o}, True))

    def run_extra(self, verifdump, n, jobs=4):
        """n more random schemas that only go through the kernel (no Go code is generated for them):
        resolution is cheap to compare, so it is compared on many more schemas than the codec legs use"""
        import random
        import randschema
        import schema_ir
        from concurrent.futures import ThreadPoolExecutor
        ctx = self.ctx
        d = Path(ctx.scratch) / "resolution_extra"
        d.mkdir(exist_ok=True)

        class U:
            pass
        units = []
        for i in range(n):
            g = randschema.GenR(ctx.rng, ntypes=ctx.rng.choice([4, 6, 8, 12, 16]))
            u = U()
            u.name, u.files, u.ins, u.ir_path, u.kernel_rejected, u.error = f"rsx{i}", [d / f"rsx{i}.tl"], None, None, False, None
            u.files[0].write_text(g.text())
            units.append(u)

        def dump(u):
            ins, err = schema_ir.dump_ir(verifdump, u.files, d / f"{u.name}.json")
            if ins is None:
                u.kernel_rejected, u.error = True, err[-400:]
            u.ins = ins
        with ThreadPoolExecutor(max_workers=jobs) as ex:
            list(ex.map(dump, units))
        self.stats["extra_schemas_kernel_only"] = self.stats.get("extra_schemas_kernel_only", 0) + n
        self.run(units)

    def report_violations(self, ctx):
        """concrete differences first (they carry the schema as failing input)"""
        for sig, what, data, no_input in sorted(self.viol, key=lambda v: v[3])[:20]:
            ctx.violation(sig, what, data, no_input=no_input)
        if self.exe_err and not ctx.violations:
            ctx.violation(f"{ctx.pid}:resolution:checker-build", f"{self.name}: the extracted checker does not build: {self.exe_err[:600]}", {"error": self.exe_err}, no_input=True)

    def report_evidence(self, ctx):
        """call after the check has filled ctx.coverage"""
        t = self.totals
        ctx.coverage["resolution"] = {
            "correspondence": self.name,
            "rule": "every schema unit the kernel accepts: resolved IR re-derived from the schema text by lib/indep_ir.py (own parser and instantiation, "
                    "no /repo code) and compared with the kernel dump by a lockstep walk from every closed declaration, up to renumbering of instances; "
                    "then the extracted checker Tl1IsoModel.ir_iso (sound by C11_isomorphic_ir_same_codec) is evaluated on the two IR files and the renumbering",
            "schemas": self.stats,
            "compared": {"instances": t.get("instances", 0), "fields": t.get("fields", 0), "function_results": t.get("results", 0),
                         "constructor_tags": t.get("tags", 0), "constructor_tags_not_derived_F18": t.get("tags_not_derived", 0)},
            "nat_arg_sources_compared": {"field": t.get("natargs_field", 0), "template_parameter": t.get("natargs_param", 0), "constant": t.get("natargs_num", 0),
                                         "of_which_tuple_sizes": t.get("size_args", 0)},
            "mask_sources_compared": {"field": t.get("masks_field", 0), "template_parameter": t.get("masks_param", 0), "constant": t.get("masks_num", 0)},
            "shapes": {"count_vectors_folded(# name:[T])": t.get("folded_count_vectors", 0), "field_references_after_a_fold": t.get("field_refs_after_fold", 0),
                       "implicit_repetition_counts": t.get("implicit_counts", 0)},
            "observations": {"kernel_accepts_field_used_as_mask_and_size": t.get("mask_vs_size_rule_not_enforced", 0)},
            "differences": len([v for v in self.viol if v[0].startswith(self.SIG)]),
            "notes": self.notes[:10],
        }
        ctx.coverage["evaluations"] = ctx.coverage.get("evaluations", 0) + t.get("fields", 0)
        if self.samples:
            ctx.coverage["samples"] = (ctx.coverage.get("samples") or []) + self.samples[:3]
