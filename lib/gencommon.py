"""Common machinery of the generated-code properties: corpus of schemas, per-schema model IR and
freshly generated + built Go package, byte-string mutators."""
import os
from concurrent.futures import ThreadPoolExecutor
from pathlib import Path

import vlib
from schema_ir import *

TLS = vlib.REPO / "internal/tlcodegen/test/tls"


def repo_corpus(quick=True):
    """(name, files, tl2gen options, kernel tl2 whitelist, sanity)"""
    c = [
        ("cases", [TLS / "cases.tl"], ["--tl2WhiteList=*"], "*", True),
        ("cases_nosan", [TLS / "cases.tl"], ["--checkLengthSanity=false"], None, False),
        ("goldmaster", [TLS / "goldmaster.tl", TLS / "goldmaster2.tl", TLS / "goldmaster3.tl"],
         ["--tl2WhiteList=*", "--generateByteVersions=ch_proxy.,ab.,memcache."], "*", True),
    ]
    if not quick:
        c.append(("schema", [TLS / "schema.tl"], ["--split-internal"], None, True))
    return c


class Unit:
    """One schema set: kernel dump (model IR) + generated Go package + driver."""

    def __init__(self, name, files, options, whitelist, san):
        self.name, self.files, self.options, self.whitelist, self.san = name, files, options, whitelist, san
        self.ins = None
        self.ir_path = None
        self.gen = None
        self.error = None
        self.kernel_rejected = False
        self.gen_failed = False


def prepare_units(ctx, specs, bins, jobs=8, driver_files=None):
    """Dump IR and generate+build the Go package for every spec (parallel)."""
    units = [Unit(*s) for s in specs]

    def prep(u):
        d = ctx.scratch / f"unit_{u.name}"
        d.mkdir(exist_ok=True)
        ins, err = dump_ir(bins["verifdump"], u.files, d / "ir.json", tl2_whitelist=u.whitelist)
        if ins is None:
            u.kernel_rejected = True
            u.error = "kernel: " + err[-800:]
            return u
        u.ins = ins
        u.ir_path = d / "ir.txt"
        try:
            write_ir_file(ins, u.ir_path)
        except Exception as e:  # noqa
            u.error = f"ir: {e!r}"
            return u
        g = GenPkg(ctx.scratch, u.name, bins["tl2gen"], u.files, u.options, driver_files=driver_files)
        if not g.generate():
            u.gen_failed = True
            u.error = "tl2gen: " + g.gen_log[-800:]
            return u
        if not g.build():
            u.error = "go build: " + g.gen_log[-1500:]
            return u
        u.gen = g
        return u

    with ThreadPoolExecutor(max_workers=jobs) as ex:
        list(ex.map(prep, units))
    return units


def mutate_bytes(rng, b, tags, gentle=False):
    """One mutation of a valid encoding.  gentle=True avoids mutations that create huge element
    counts (for packages generated without the length-sanity check, whose readers allocate
    `count` elements by design)."""
    b = bytearray(b)
    k = rng.choice([0, 0, 3, 5]) if gentle else rng.randrange(8)
    if not b:
        return bytes([rng.getrandbits(8) for _ in range(rng.randrange(1, 9))])
    if k == 0:   # truncate
        return bytes(b[:rng.randrange(len(b))])
    if k == 1:   # bit flip
        i = rng.randrange(len(b))
        b[i] ^= 1 << rng.randrange(8)
    elif k == 2:  # byte replace
        b[rng.randrange(len(b))] = rng.choice([0, 1, 0xfe, 0xff, 0x80, rng.getrandbits(8)])
    elif k == 3 and len(b) >= 4:  # replace an aligned word by a schema tag
        i = rng.randrange(len(b) // 4) * 4
        b[i:i + 4] = rng.choice(tags).to_bytes(4, "little") if tags else b"\0\0\0\0"
    elif k == 4 and len(b) >= 4:  # aligned word -> small/huge count
        i = rng.randrange(len(b) // 4) * 4
        b[i:i + 4] = rng.choice([0, 1, 2, 3, 0x7fffffff, 0xffffffff, len(b), len(b) // 4]).to_bytes(4, "little")
    elif k == 5:  # append garbage
        b += bytes(rng.getrandbits(8) for _ in range(rng.randrange(1, 9)))
    elif k == 6 and len(b) >= 8:  # delete an aligned word
        i = rng.randrange(len(b) // 4) * 4
        del b[i:i + 4]
    else:  # insert an aligned word
        i = rng.randrange(len(b) // 4 + 1) * 4
        b[i:i] = bytes(rng.getrandbits(8) for _ in range(4))
    return bytes(b)
