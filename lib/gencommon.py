"""Common machinery of the generated-code properties: corpus of schemas, per-schema model IR and
freshly generated + built Go package, byte-string mutators."""
import os
from concurrent.futures import ThreadPoolExecutor
from pathlib import Path

import vlib
from schema_ir import *

TLS = vlib.REPO / "internal/tlcodegen/test/tls"


def repo_corpus(quick=True):
    """(name, files, tl2gen options, kernel tl2 whitelist, sanity)"""
    c = [
        ("cases", [TLS / "cases.tl"], ["--tl2WhiteList=*"], "*", True),
        ("cases_nosan", [TLS / "cases.tl"], ["--checkLengthSanity=false"], None, False),
        ("goldmaster", [TLS / "goldmaster.tl", TLS / "goldmaster2.tl", TLS / "goldmaster3.tl"],
         ["--tl2WhiteList=*", "--generateByteVersions=ch_proxy.,ab.,memcache."], "*", True),
    ]
    if not quick:
        c.append(("schema", [TLS / "schema.tl"], ["--split-internal"], None, True))
    return c


class Unit:
    """One schema set: kernel dump (model IR) + generated Go package + driver."""

    def __init__(self, name, files, options, whitelist, san):
        self.name, self.files, self.options, self.whitelist, self.san = name, files, options, whitelist, san
        self.ins = None
        self.ir_path = None
        self.gen = None
        self.error = None
        self.kernel_rejected = False
        self.gen_failed = False


def prepare_units(ctx, specs, bins, jobs=8, driver_files=None):
    """Dump IR and generate+build the Go package for every spec (parallel)."""
    units = [Unit(*s) for s in specs]

    def prep(u):
        d = ctx.scratch / f"unit_{u.name}"
        d.mkdir(exist_ok=True)
        ins, err = dump_ir(bins["verifdump"], u.files, d / "ir.json", tl2_whitelist=u.whitelist)
        if ins is None:
            u.kernel_rejected = True
            u.error = "kernel: " + err[-800:]
            return u
        u.ins = ins
        u.ir_path = d / "ir.txt"
        try:
            write_ir_file(ins, u.ir_path)
        except Exception as e:  # noqa
            u.error = f"ir: {e!r}"
            return u
        g = GenPkg(ctx.scratch, u.name, bins["tl2gen"], u.files, u.options, driver_files=driver_files)
        if not g.generate():
            u.gen_failed = True
            u.error = "tl2gen: " + g.gen_log[-800:]
            return u
        if not g.build():
            u.error = "go build: " + g.gen_log[-1500:]
            return u
        u.gen = g
        return u

    with ThreadPoolExecutor(max_workers=jobs) as ex:
        list(ex.map(prep, units))
    return units


def mutate_bytes(rng, b, tags, gentle=False):
    """One mutation of a valid encoding.  gentle=True avoids mutations that create huge element
    counts (for packages generated without the length-sanity check, whose readers allocate
    `count` elements by design)."""
    b = bytearray(b)
    k = rng.choice([0, 0, 3, 5]) if gentle else rng.randrange(8)
    if not b:
        return bytes([rng.getrandbits(8) for _ in range(rng.randrange(1, 9))])
    if k == 0:   # truncate
        return bytes(b[:rng.randrange(len(b))])
    if k == 1:   # bit flip
        i = rng.randrange(len(b))
        b[i] ^= 1 << rng.randrange(8)
    elif k == 2:  # byte replace
        b[rng.randrange(len(b))] = rng.choice([0, 1, 0xfe, 0xff, 0x80, rng.getrandbits(8)])
    elif k == 3 and len(b) >= 4:  # replace an aligned word by a schema tag
        i = rng.randrange(len(b) // 4) * 4
        b[i:i + 4] = rng.choice(tags).to_bytes(4, "little") if tags else b"\0\0\0\0"
    elif k == 4 and len(b) >= 4:  # aligned word -> small/huge count
        i = rng.randrange(len(b) // 4) * 4
        b[i:i + 4] = rng.choice([0, 1, 2, 3, 0x7fffffff, 0xffffffff, len(b), len(b) // 4]).to_bytes(4, "little")
    elif k == 5:  # append garbage
        b += bytes(rng.getrandbits(8) for _ in range(rng.randrange(1, 9)))
    elif k == 6 and len(b) >= 8:  # delete an aligned word
        i = rng.randrange(len(b) // 4) * 4
        del b[i:i + 4]
    else:  # insert an aligned word
        i = rng.randrange(len(b) // 4 + 1) * 4
        b[i:i] = bytes(rng.getrandbits(8) for _ in range(4))
    return bytes(b)


# --------------------------------------------------------------------------- structure-aware non-canonical TL1 encodings
class PyEnc:
    """A Python TL1 writer over the IR used ONLY as an input generator (never as an oracle): it can
    emit one deliberate non-canonical spot -- a non-minimal string length form, non-zero string
    padding, a foreign Bool tag, an unknown union tag -- at the n-th opportunity."""

    def __init__(self, ins, tweak=None, at=0):
        self.ins, self.tweak, self.at = ins, tweak, at
        self.count = {"str": 0, "bool": 0, "union": 0}
        self.applied = False

    def hit(self, kind):
        i = self.count[kind]
        self.count[kind] += 1
        if self.tweak and self.tweak.startswith(kind) and i == self.at:
            self.applied = True
            return True
        return False

    def string(self, s):
        l = len(s)
        if self.hit("str"):
            if self.tweak == "str-medium" and l <= 253:
                b = bytes([254]) + l.to_bytes(3, "little") + s
                return b + b"\0" * (-len(b) % 4)
            if self.tweak == "str-huge" and l < (1 << 24):
                b = bytes([255]) + l.to_bytes(7, "little") + s
                return b + b"\0" * (-len(b) % 4)
            if self.tweak == "str-pad":
                b = (bytes([l]) + s) if l <= 253 else (bytes([254]) + l.to_bytes(3, "little") + s)
                pad = -len(b) % 4
                if pad:
                    return b + bytes([1] + [0] * (pad - 1))
            self.applied = False
        b = (bytes([l]) + s) if l <= 253 else ((bytes([254]) + l.to_bytes(3, "little") + s) if l < (1 << 24) else (bytes([255]) + l.to_bytes(7, "little") + s))
        return b + b"\0" * (-len(b) % 4)

    def evalarg(self, a, ps, fs):
        if a["kind"] == "num":
            return a["value"]
        if a["kind"] == "param":
            return ps[a["value"]] if a["value"] < len(ps) else 0
        i = a["value"]
        return fs[i][1] if i < len(fs) and fs[i] is not None and fs[i][0] == "n" else 0

    def fields(self, x, ps, fs):
        out = b""
        for f, v in zip(x["fields"], fs):
            if v is None:
                continue
            out += self.enc(f["type"], f["bare"], [self.evalarg(a, ps, fs) for a in f.get("natArgs") or []], v)
        return out

    def enc(self, tid, bare, ps, v):
        x = self.ins[tid]
        k = x["kind"]
        if k == "prim":
            p = PRIM_MAP.get(x["name"])
            if p in ("nat", "int", "float"):
                return v[1].to_bytes(4, "little")
            if p in ("long", "double"):
                return v[1].to_bytes(8, "little")
            if p == "string":
                return self.string(v[1])
            if p == "bool":
                t = x.get("trueTag", 0) if v[1] else x.get("falseTag", 0)
                if self.hit("bool"):
                    t = 0x3fedd339
                return t.to_bytes(4, "little")
            raise ValueError("prim")
        if k == "struct":
            body = self.fields(x, ps, v[1])
            return body if bare else x["tag"].to_bytes(4, "little") + body
        if k == "union":
            vt = self.ins[x["variants"][v[1]]]
            tag = vt["tag"]
            if self.hit("union"):
                tag ^= 0x00010000
            return tag.to_bytes(4, "little") + self.fields(vt, ps, v[2])
        if k in ("array", "dict"):
            ef = x["elem"]
            eargs = [self.evalarg(a, ps, []) for a in ef.get("natArgs") or []]
            body = b"".join(self.enc(ef["type"], ef["bare"], eargs, e) for e in v[1])
            if k == "dict" or not x.get("isTuple"):
                return len(v[1]).to_bytes(4, "little") + body
            return body
        raise ValueError(k)


def noncanonical_encodings(ins, tid, boxed, v, rng, n=3):
    """up to n (tweak name, bytes) pairs: valid-looking encodings of v with one non-canonical spot"""
    out = []
    for tweak in rng.sample(["str-medium", "str-huge", "str-pad", "bool", "union"], 5):
        for at in (0, 1, 3):
            e = PyEnc(ins, tweak, at)
            try:
                b = e.enc(tid, not boxed, [], v)
            except Exception:   # generator only: anything odd is simply skipped
                break
            if e.applied:
                out.append((tweak, b))
                break
        if len(out) >= n:
            break
    return out


RANDOM_UNIT_PREFIXES = ("rs", "rt2_", "objr", "rb", "rg", "rk", "rj", "rw")


def generator_side(name, err):
    """A RANDOM schema the kernel accepts but whose generated Go package does not generate/build is
    C14's subject (accepted schemas must build; known findings F11*), not a violation of a codec property."""
    return str(name).startswith(RANDOM_UNIT_PREFIXES) and str(err).startswith(("go build:", "tl2gen:"))


def reportable_unit_errors(unit_errors, ctx=None):
    """Split unit errors: random units whose generated code does not build are listed in the evidence
    (coverage.random_units_not_building) -- unless MOST random units fail, which is reported."""
    tolerated = [(n, e) for n, e in unit_errors if generator_side(n, e)]
    rest = [(n, e) for n, e in unit_errors if not generator_side(n, e)]
    if len(tolerated) > 6:      # mass failure: something is broken in the generator or the harness
        return list(unit_errors)
    if ctx is not None and tolerated:
        ctx.coverage["random_units_not_building"] = [f"{n}: {str(e)[-200:]}" for n, e in tolerated]
    return rest
