"""Shared code of the Outdir family (C16 output directory management, C15 determinism):
overlay harness builds, the line-protocol runners, sandbox/dump helpers for end-to-end runs
of the real tl2gen / tlgen binaries, and the property statement of C16 evaluated on dumps."""
import hashlib
import os
import shutil
import subprocess
from pathlib import Path

from vlib import *

OV = VERIF / "overlay" / "internal"
T0 = 1000000000  # mtime given to every file before a generation (same as verifT0 in the Go harness)
TLS = REPO / "internal" / "tlcodegen" / "test" / "tls"


# --------------------------------------------------------------------------- builds

def build_puregen_harness(ctx):
    return build_overlay_test("internal/puregen", {
        "verif_fsutil_test.go": OV / "puregen" / "verif_fsutil_test.go",
        "verif_outdir_test.go": OV / "puregen" / "verif_outdir_test.go"}, ctx.scratch, name="puregen_outdir")


def build_legacy_harness(ctx):
    """The helper file is shared: same text, package clause rewritten (overlay files are add-only)."""
    src = (OV / "puregen" / "verif_fsutil_test.go").read_text().replace("\npackage puregen\n", "\npackage tlcodegen\n", 1)
    cp = Path(ctx.scratch) / "verif_fsutil_tlcodegen_test.go"
    cp.write_text(src)
    return build_overlay_test("internal/tlcodegen", {
        "verif_fsutil_test.go": cp,
        "verif_outdir_legacy_test.go": OV / "tlcodegen" / "verif_outdir_legacy_test.go"}, ctx.scratch, name="tlcodegen_outdir")


_TOOLS = {}


def build_tool(ctx, name):
    """Build /repo/cmd/<name> from the working tree into the scratch dir."""
    key = (str(ctx.scratch), name)
    if key in _TOOLS:
        return _TOOLS[key]
    out = Path(ctx.scratch) / "bin" / name
    out.parent.mkdir(exist_ok=True)
    rc, so, se = sh(["go", "build", "-o", str(out), f"./cmd/{name}"], cwd=REPO, env=goenv(), timeout=900)
    res = (out, "") if rc == 0 and out.exists() else (None, so + se)
    _TOOLS[key] = res
    return res


# --------------------------------------------------------------------------- sandbox helpers (python side, for the real binaries)

def hx(b):
    return b.hex() if b else "-"


def unhx(s):
    return b"" if s in ("-", "") else bytes.fromhex(s)


def short(c):
    """content token of a generated file: short contents verbatim, long ones by hash"""
    return hx(c) if len(c) <= 3 else hashlib.sha1(c).digest()[:4].hex()


def absp(root, p):
    return Path(root) if p == "." else Path(root) / p


def apply_mut(root, m):
    f = m.split(":")
    if f[0] == "d":
        absp(root, f[1]).mkdir(parents=True, exist_ok=True)
    elif f[0] == "f":
        p = absp(root, f[1])
        p.parent.mkdir(parents=True, exist_ok=True)
        p.write_bytes(unhx(f[2]))
    elif f[0] == "x":
        p = absp(root, f[1])
        if p.is_dir() and not p.is_symlink():
            shutil.rmtree(p)
        elif p.exists() or p.is_symlink():
            p.unlink()
    else:
        raise ValueError(m)


def reset_times(root):
    for d, _, fs in os.walk(root):
        for f in fs:
            p = os.path.join(d, f)
            if os.path.isfile(p) and not os.path.islink(p):
                os.utime(p, (T0, T0))


def dump_tree(root, token=short):
    res = []
    root = str(root)
    for d, ds, fs in os.walk(root):
        rel = os.path.relpath(d, root)
        pre = "" if rel == "." else rel + "/"
        for x in ds:
            p = os.path.join(d, x)
            if os.path.islink(p):
                res.append(pre + x + "?symlink")
            else:
                res.append(pre + x + "/")
        for x in fs:
            p = os.path.join(d, x)
            if os.path.islink(p) or not os.path.isfile(p):
                res.append(pre + x + "?special")
                continue
            st = os.stat(p)
            flag = "@k" if int(st.st_mtime) == T0 and st.st_mtime == float(T0) else "@w"
            res.append(pre + x + "=" + token(Path(p).read_bytes()) + flag)
    if not res:
        return "-"
    return ",".join(sorted(res, key=lambda s: s.encode()))


def split(s, sep):
    return [] if s in ("-", "") else s.split(sep)


E2E = {}   # scenario key -> list of callables (one per g-step): f(out_abs) -> (argv, env)


def run_e2e_hist(ctx, key, out, init, steps):
    """Same protocol as verifRunHist, but a generation = one run of the real generator binary."""
    top = Path(tempfile.mkdtemp(prefix="e2e-", dir=ctx.scratch))
    root = top / "root"
    root.mkdir()
    for m in split(init, ","):
        apply_mut(root, m)
    reset_times(root)
    res = ["init " + dump_tree(root)]
    if key not in E2E:
        return "e2e-not-run"
    cmds = list(E2E[key])
    gi = 0
    for s in split(steps, ";"):
        reset_times(root)
        if s.startswith("m:"):
            for m in split(s[2:], ","):
                apply_mut(root, m)
            reset_times(root)
            res.append("m " + dump_tree(root))
            continue
        argv, env = cmds[gi](str(absp(root, out)))
        gi += 1
        rc, so, se = sh(argv, env=env, timeout=300, cwd=str(top))
        text = so + se
        if rc == 0:
            res.append("ok " + dump_tree(root))
        elif "panic:" in text or "goroutine " in text or "fatal error" in text:
            res.append("panic")
            break
        elif "not empty and has no" in text:
            res.append("refused " + dump_tree(root))
        else:
            res.append("failed " + dump_tree(root))
            break
    if sorted(os.listdir(top)) != ["root"]:
        res.append("ESCAPE")
    shutil.rmtree(top, ignore_errors=True)
    return " | ".join(res)


# --------------------------------------------------------------------------- implementation side runner

RAW = {}   # id(ctx) -> raw implementation output lines (with the tree after a failed generation)


def strip_failed(line):
    """The model does not claim a particular partial state after an I/O failure: compare the verdict only.
    A crash or hang of the implementation where the model returns an error is told apart by the oracle
    (every 'panic'/'hang' is reported there), not by the correspondence."""
    segs = line.split(" | ")
    return " | ".join("failed" if (s.startswith("failed ") or s in ("panic", "hang")) else s for s in segs)


def go_runner(ctx, lines):
    groups = {"pure": [], "legacy": [], "e2e": []}
    for i, l in enumerate(lines):
        f = l.split(" ")
        if f[0] == "walk" or (f[0] == "hist" and f[1] == "pure"):
            groups["pure"].append(i)
        elif f[0] == "consts" or (f[0] == "hist" and f[1] in ("legacy", "legacycpp")):
            groups["legacy"].append(i)
        elif f[0] == "hist" and f[1].startswith("e2e"):
            groups["e2e"].append(i)
        else:
            return None, f"unknown op {l[:80]}"
    out = [None] * len(lines)
    for grp, builder, test in (("pure", build_puregen_harness, "TestVerifOutdir"),
                               ("legacy", build_legacy_harness, "TestVerifOutdirLegacy")):
        idx = groups[grp]
        if not idx:
            continue
        binp, err = builder(ctx)
        if not binp:
            return None, f"{grp} harness: {err[-1500:]}"
        rc, res, log_ = run_overlay_test(binp, test, [lines[i] for i in idx], ctx.scratch, timeout=1500)
        if rc != 0 or len(res) != len(idx):
            return None, f"{grp} harness exit {rc}, {len(res)}/{len(idx)} lines: {log_[-1500:]}"
        for i, r in zip(idx, res):
            out[i] = r
    for i in groups["e2e"]:
        f = lines[i].split(" ")
        out[i] = run_e2e_hist(ctx, f[1], f[2], f[4], f[5])
    RAW[id(ctx)] = list(out)
    return [strip_failed(o) for o in out], ""


# --------------------------------------------------------------------------- C16 statement on dumps

def parse_dump(d):
    """-> (files {path: (token, flag)}, dirs set)"""
    files, dirs = {}, set()
    for e in split(d, ","):
        if e.endswith("/"):
            dirs.add(e[:-1])
        elif "=" in e:
            p, rest = e.split("=", 1)
            tok, flag = rest.rsplit("@", 1)
            files[p] = (tok, flag)
        else:
            files[e] = ("?", "?")
    return files, dirs


def norm_join(base, name):
    """filepath.Join(base, name) on component lists"""
    acc = [] if base == "." else base.split("/")
    for c in name.split("/"):
        if c == "..":
            if acc:
                acc.pop()
        elif c not in (".", ""):
            acc.append(c)
    return "/".join(acc) if acc else "."


def clean_name(n):
    """relative, clean, and '..' only as leading components that leave the outdir"""
    cs = n.split("/")
    k = 0
    while k < len(cs) and cs[k] == "..":
        k += 1
    return all(c not in ("", ".", "..") for c in cs[k:]) and k < len(cs)


def under(out, p):
    return out == "." or p.startswith(out + "/")


def check_step(out, marker, keep_o, before, verdict, after, gen):
    """The statement of C16 for one generation, evaluated on the implementation's own dumps.
    gen: {name: token} INCLUDING the marker for the legacy writer.  Returns list of complaints."""
    bf, bd = parse_dump(before)
    bad = []
    out_is_dir = out == "." or out in bd
    files_in = {p: v for p, v in bf.items() if under(out, p)}
    marker_abs = norm_join(out, marker)
    if verdict in ("refused", "failed") or verdict == "ok":
        af, ad = parse_dump(after)
    inside = {}
    escaping = {}
    for n, tok in gen.items():
        t = norm_join(out, n)
        if under(out, t) and t != out:
            inside[t] = tok
        else:
            escaping[t] = tok
    nonempty_unmarked = out_is_dir and files_in and marker_abs not in files_in
    if nonempty_unmarked:
        if verdict != "refused":
            bad.append(f"non-empty outdir without marker was not refused (verdict {verdict})")
    elif verdict == "refused":
        bad.append("refused although the outdir is empty or has the marker")
    if verdict == "refused":
        if ({p: v[0] for p, v in af.items()}, ad) != ({p: v[0] for p, v in bf.items()}, bd) or any(v[1] != "k" for v in af.values()):
            bad.append("refused generation modified the tree")
        return bad
    # outside the outdir: untouched except the declared escaping targets (holds for ok and failed)
    for p in set(bf) | set(af):
        if under(out, p) and p != out:
            continue
        if p in escaping and verdict == "ok":
            if af.get(p) != (escaping[p], "w"):
                bad.append(f"runtime file outside outdir {p}: {af.get(p)} (expected {escaping[p]}@w)")
            continue
        if p in escaping:
            continue
        if p not in af or p not in bf or af[p][0] != bf[p][0] or af[p][1] != "k":
            bad.append(f"file outside outdir changed: {p}: {bf.get(p)} -> {af.get(p)}")
    for d in (set(bd) ^ set(ad)):
        if (under(out, d) and d != out):
            continue
        if d == out and d in ad:
            continue   # os.Mkdir(outdir)
        bad.append(f"directory outside outdir changed: {d}")
    if verdict != "ok":
        return bad
    if any(not clean_name(n) or (n.startswith("..") and under(out, norm_join(out, n))) for n in gen):
        return bad   # names that filepath.Join would change are outside the statement (generators emit clean names)
    # exactly the generated files (+ kept *.o for the legacy cpp writer)
    got = {p: v for p, v in af.items() if under(out, p)}
    want = dict(inside)
    for p, v in files_in.items():
        if keep_o and p.endswith(".o") and p not in want:
            want[p] = v[0]
    if set(got) != set(want):
        bad.append(f"files under outdir {sorted(got)} != generated {sorted(want)}")
    for p, (tok, flag) in got.items():
        if p not in want:
            continue
        if tok != want[p]:
            bad.append(f"content of {p}: {tok} != {want[p]}")
        unchanged = p in files_in and files_in[p][0] == want[p]
        if unchanged and flag != "k":
            bad.append(f"unchanged file rewritten: {p}")
        if not unchanged and flag != "w":
            bad.append(f"changed/new file {p} has the old mtime")
    # directories: exactly the ancestors of the files
    need = set()
    for p in got:
        q = p
        while "/" in q:
            q = q.rsplit("/", 1)[0]
            if under(out, q) and q != out:
                need.add(q)
    have = {d for d in ad if under(out, d) and d != out}
    if have != need:
        bad.append(f"directories under outdir {sorted(have)} != ancestors of generated files {sorted(need)}")
    return bad


def conflict_free(out, before, gen):
    """No I/O error is possible: no generated name needs a directory where a file is/will be and vice versa."""
    bf, bd = parse_dump(before)
    targets = [norm_join(out, n) for n in gen]
    tfiles = set(targets)
    tdirs = set()
    for n, t in zip(gen, targets):
        q = t
        first = True
        while "/" in q:
            q = q.rsplit("/", 1)[0]
            if n.startswith("..") and first:
                if q not in bd and q != ".":
                    return False   # no MkdirAll for names starting with ".."
            first = False
            tdirs.add(q)
        if n.startswith("..") and "/" not in t:
            pass
    if tfiles & tdirs:
        return False
    for t in tfiles:
        if t in bd or t == "." or t == out:
            return False
    for d in tdirs:
        if d in bf:
            return False
    if len(tfiles) != len(targets):
        return False
    return True
