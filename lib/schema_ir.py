"""Schema IR plumbing shared by the generated-code properties (C01, C02, C11, C17, ...).

* build_tools: builds tl2gen / tlgen / verifdump (translator T-schema, an add-only overlay main
  package) from /repo's current working tree.
* dump_ir: runs the real kernel on schema files and returns the resolved type instances.
* write_ir_file: the IR in the line format read by ocaml/tl1/schema_io.ml (the Coq model's input).
* GenPkg: generates Go code with the current tl2gen into a scratch module and builds
  harness/go/gendrv against it.
* ValueGen: type-directed generator of wire values over the IR.
"""
import json
import shutil
from pathlib import Path

from vlib import VERIF, REPO, sh, goenv, trunc

PRIM_MAP = {"uint32": "nat", "int32": "int", "float32": "float", "int64": "long", "float64": "double",
            "string": "string", "bool": "bool", "uint64": "notl1", "byte": "notl1", "bit": "notl1"}


def build_tools(scratch, which=("tl2gen", "verifdump")):
    """Returns ({name: path}, error)."""
    scratch = Path(scratch)
    bins = {}
    env = goenv()
    for w in which:
        out = scratch / "bin" / w
        out.parent.mkdir(parents=True, exist_ok=True)
        if w == "verifdump":
            ovp = scratch / "verifdump.overlay.json"
            ovp.write_text(json.dumps({"Replace": {str(REPO / "cmd/verifdump/main.go"): str(VERIF / "overlay/cmd/verifdump/main.go")}}))
            cmd = ["go", "build", "-tags", "verif", "-overlay", str(ovp), "-o", str(out), "./cmd/verifdump"]
        else:
            cmd = ["go", "build", "-o", str(out), f"./cmd/{w}"]
        rc, so, se = sh(cmd, cwd=REPO, env=env, timeout=900)
        if rc != 0:
            return bins, f"cannot build {w}: {so}{se}"
        bins[w] = out
    return bins, ""


def dump_ir(verifdump, files, out_json, tl2_whitelist=None, timeout=120, instantiate_constants=True):
    """Run the kernel; returns (instances | None, stderr).  instantiate_constants=True resolves
    instances exactly as the Go generator does (gengo sets OptionsKernel.InstantiateConstants):
    `tuple int 4` becomes the fixed array [4]int32 (Go array, no length-sanity check)."""
    cmd = [str(verifdump), f"--dumpOut={out_json}"]
    if instantiate_constants:
        cmd.append("--instantiateConstants")
    if tl2_whitelist is not None:
        cmd.append(f"--tl2WhiteList={tl2_whitelist}")
    cmd += [str(f) for f in files]
    rc, so, se = sh(cmd, timeout=timeout)
    if rc != 0:
        return None, so + se
    ins = json.loads(Path(out_json).read_text())
    for x in ins:
        x.setdefault("fields", [])
    return ins, ""


def _natarg(a):
    return f"{a['kind']}:{a['value']}"


def _field_line(f):
    mask = "-" if f.get("mask") is None else f"{_natarg(f['mask'])}@{f['bit']}"
    args = [_natarg(a) for a in f.get("natArgs") or []]
    return " ".join(["field", str(f["type"]), "1" if f["bare"] else "0", mask, str(len(args))] + args)


def key_prim_of(ins, dict_inst):
    """primitive kind of a dictionary key (following typedef structs), or None"""
    st = ins[dict_inst["elem"]["type"]]
    if st["kind"] != "struct" or len(st["fields"]) != 2:
        return None
    t = ins[st["fields"][0]["type"]]
    seen = 0
    while t["kind"] == "struct" and len(t["fields"]) == 1 and t["fields"][0].get("mask") is None and seen < 8:
        t = ins[t["fields"][0]["type"]]
        seen += 1
    if t["kind"] != "prim":
        return None
    return t


def prim_tokens(x):
    p = PRIM_MAP.get(x["name"], "notl1")
    if p == "bool":
        return ["bool", str(x.get("falseTag", 0)), str(x.get("trueTag", 0))]
    return [p]


def specialise_fixed_tuples(ins):
    """gengo turns a tuple whose size argument is a constant at the reference site into a Go array
    [c]T (no length-sanity check, no length-mismatch write error).  Mirror that in the IR: every
    reference (struct field, array/dict element, function result) to a dynamic-size tuple instance
    whose first nat argument is a number c is redirected to a synthesised `fixed:c` copy of that
    instance (nat arguments unchanged, so the element's parameter indices stay valid).
    Returns a new instance list; ids of existing instances are unchanged."""
    import copy
    out = copy.deepcopy(ins)
    cache = {}

    def fix(f):
        if f is None:
            return
        t = f.get("type", -1)
        if t is None or t < 0 or t >= len(ins):
            return
        x = ins[t]
        args = f.get("natArgs") or []
        if x["kind"] == "array" and x.get("isTuple") and x.get("dynamicSize") and args and args[0]["kind"] == "num":
            c = args[0]["value"]
            key = (t, c)
            if key not in cache:
                y = copy.deepcopy(x)
                y["id"] = len(out)
                y["dynamicSize"] = False
                y["count"] = c
                y["name"] = x["name"] + f"#fixed{c}"
                y["topLevel"] = False
                cache[key] = y["id"]
                out.append(y)
                fix(y["elem"])
            f["type"] = cache[key]

    n0 = len(out)
    for x in out[:n0]:
        for f in x.get("fields", []):
            fix(f)
        fix(x.get("elem"))
        fix(x.get("result"))
    return out


def write_ir_file(ins, path):
    lines = []
    for x in ins:
        k = x["kind"]
        if k == "prim":
            lines.append(" ".join(["prim", str(x["id"])] + prim_tokens(x)))
        elif k == "struct":
            lines.append(f"struct {x['id']} {x['tag']} {len(x['fields'])}")
            lines += [_field_line(f) for f in x["fields"]]
        elif k == "union":
            lines.append(" ".join(["union", str(x["id"]), str(len(x["variants"]))] + [str(v) for v in x["variants"]]))
        elif k == "array":
            kind = "vector" if not x.get("isTuple") else ("dyn" if x.get("dynamicSize") else f"fixed:{x.get('count', 0)}")
            lines.append(f"array {x['id']} {kind}")
            lines.append(_field_line(x["elem"]))
        elif k == "dict":
            kp = key_prim_of(ins, x)
            lines.append(" ".join(["dict", str(x["id"])] + (prim_tokens(kp) if kp else ["notl1"])))
            lines.append(_field_line(x["elem"]))
        else:
            raise ValueError("unknown instance kind " + k)
    Path(path).write_text("\n".join(lines) + "\n")


def toplevel_objects(ins):
    """(tid, factory name, instance) for closed top-level objects the generated factory can create."""
    res = []
    for x in ins:
        if x.get("topLevel") and not x.get("natParams") and x["kind"] in ("struct", "union") and x.get("tlName"):
            res.append((x["id"], x["tlName"], x))
    return res


class GenPkg:
    """Go code generated by the current tl2gen for a set of schema files, plus the gendrv driver."""

    DRIVER_FILES = ("main.go", "ops_tl1.go")

    def __init__(self, scratch, name, tl2gen, files, options=(), extra_driver_files=None, driver_files=None):
        self.driver_files = tuple(driver_files or self.DRIVER_FILES)
        self.dir = Path(scratch) / f"mod_{name}"
        self.name = name
        self.tl2gen = tl2gen
        self.files = [str(f) for f in files]
        self.options = list(options)
        self.extra = extra_driver_files or {}
        self.exe = None
        self.gen_log = ""

    def generate(self):
        if self.dir.exists():
            shutil.rmtree(self.dir)
        self.dir.mkdir(parents=True)
        cmd = [str(self.tl2gen), "--language=go", f"--outdir={self.dir / 'gen'}", "--pkgPath=verifh/gen/tl",
               "--basicPkgPath=github.com/VKCOM/tl/pkg/basictl", "--generateRandomCode"] + self.options + self.files
        rc, so, se = sh(cmd, timeout=600)
        self.gen_log = so + se
        return rc == 0

    def build(self):
        src = VERIF / "harness" / "go" / "gendrv"
        drv = self.dir / "drv"
        drv.mkdir(exist_ok=True)
        for fn in self.driver_files:   # only the op families this check needs (others may need TL2 etc.)
            shutil.copy(src / fn, drv / fn)
        for fn, content in self.extra.items():
            (drv / fn).write_text(content)
        (self.dir / "go.mod").write_text((src / "go.mod.tmpl").read_text().replace("@REPO@", str(REPO)))
        shutil.copy(REPO / "go.sum", self.dir / "go.sum")
        exe = self.dir / "gendrv"
        rc, so, se = sh(["go", "build", "-o", str(exe), "./drv"], cwd=self.dir, env=goenv(), timeout=1800)
        if rc != 0:
            self.gen_log += so + se
            return False
        self.exe = exe
        return True


# --------------------------------------------------------------------------- values

class Budget(Exception):
    pass


def vtext(v):
    """Python value -> textual syntax of ocaml/tl1/schema_io.ml"""
    t = v[0]
    if t == "n":
        return f"n{v[1]}"
    if t == "s":
        return "s" + (v[1].hex() if v[1] else "-")
    if t == "b":
        return "b1" if v[1] else "b0"
    if t == "S":
        return "( S " + " ".join("_" if f is None else vtext(f) for f in v[1]) + " )" if v[1] else "( S )"
    if t == "U":
        return f"( U {v[1]} " + " ".join("_" if f is None else vtext(f) for f in v[2]) + " )" if v[2] else f"( U {v[1]} )"
    if t == "A":
        return "( A " + " ".join(vtext(e) for e in v[1]) + " )" if v[1] else "( A )"
    raise ValueError(t)


def sgn(n, bits):
    return n - (1 << bits) if n >= (1 << (bits - 1)) else n


class ValueGen:
    """Type-directed generator of wire values (mask bits and sizes consistent by construction)."""

    STR_LENS = [0, 0, 1, 2, 3, 4, 5, 7, 8, 15, 16, 31, 100]
    STR_RARE = [252, 253, 253, 253, 254, 254, 255, 256, 257, 300]

    def __init__(self, ins, rng, max_nodes=4000, max_depth=12):
        self.ins = ins
        self.rng = rng
        self.max_nodes = max_nodes
        self.max_depth = max_depth
        self.nodes = 0
        self.used_as = {}  # struct id -> {field index: set('mask'|'arg')}
        for x in ins:
            if x["kind"] == "struct":
                u = {}
                for f in x["fields"]:
                    m = f.get("mask")
                    if m and m["kind"] == "field":
                        u.setdefault(m["value"], {"bits": set(), "arg": False})["bits"].add(f["bit"])
                    for a in f.get("natArgs") or []:
                        if a["kind"] == "field":
                            u.setdefault(a["value"], {"bits": set(), "arg": False})["arg"] = True
                if x.get("result"):
                    for a in x["result"].get("natArgs") or []:
                        if a["kind"] == "field":
                            u.setdefault(a["value"], {"bits": set(), "arg": False})["arg"] = True
                self.used_as[x["id"]] = u

    def evalarg(self, a, ps, fs):
        if a["kind"] == "num":
            return a["value"]
        if a["kind"] == "param":
            return ps[a["value"]] if a["value"] < len(ps) else 0
        i = a["value"]
        if i < len(fs) and fs[i] is not None and fs[i][0] == "n":
            return fs[i][1]
        return 0

    def top(self, tid, ps=()):
        self.nodes = 0
        return self.value(tid, list(ps), 0)

    def nat_for(self, usage, depth):
        r = self.rng
        deep = depth >= self.max_depth
        if usage is None:
            return r.choice([0, 1, 2, 0x7fffffff, 0x80000000, 0xffffffff]) if r.random() < 0.15 else r.getrandbits(32)
        if usage["arg"]:
            if deep:
                return 0
            v = r.choice([0, 0, 1, 1, 2, 3, 4, 5, 7]) if r.random() < 0.9 else r.randrange(8, 40)
            return v
        # mask only
        if deep:
            return 0
        v = 0
        for b in usage["bits"]:
            if r.random() < 0.5:
                v |= 1 << b
        if r.random() < 0.3:
            v |= r.getrandbits(32)  # bits without meaning
        return v

    def string(self):
        r = self.rng
        l = r.choice(self.STR_LENS) if r.random() < 0.9 else r.choice(self.STR_RARE)
        mode = r.random()
        if mode < 0.5:
            return bytes(r.choice(b"abcXYZ019 _") for _ in range(l))
        return bytes(r.getrandbits(8) for _ in range(l))

    def prim(self, x, usage, depth):
        p = PRIM_MAP.get(x["name"], "notl1")
        r = self.rng
        if p in ("nat",):
            return ("n", self.nat_for(usage, depth))
        if p in ("int", "float"):
            return ("n", r.choice([0, 1, 0x7fffffff, 0x80000000, 0xffffffff, 0x7fc00000, 0x3f800000]) if r.random() < 0.2 else r.getrandbits(32))
        if p in ("long", "double"):
            return ("n", r.choice([0, 1, (1 << 63) - 1, 1 << 63, (1 << 64) - 1, 0x7ff8000000000001]) if r.random() < 0.2 else r.getrandbits(64))
        if p == "string":
            return ("s", self.string())
        if p == "bool":
            return ("b", r.random() < 0.5)
        raise Budget("type not representable in TL1: " + x["name"])

    def fields(self, x, ps, depth):
        fs = []
        usage = self.used_as.get(x["id"], {})
        for i, f in enumerate(x["fields"]):
            present = True
            if f.get("mask") is not None:
                present = (self.evalarg(f["mask"], ps, fs) >> f["bit"]) & 1 == 1
            if not present:
                fs.append(None)
                continue
            args = [self.evalarg(a, ps, fs) for a in f.get("natArgs") or []]
            t = self.ins[f["type"]]
            if t["kind"] == "prim":
                v = self.prim(t, usage.get(i), depth)
                if usage.get(i) is not None and v[0] == "n" and depth < self.max_depth:
                    # distinct # fields of one struct get distinct values (when they are referenced at all), so
                    # that a size / mask / template argument taken from the WRONG field changes the encoding
                    taken = {fs[j][1] for j in usage if j < len(fs) and fs[j] is not None and fs[j][0] == "n"}
                    for _ in range(4):
                        if v[1] not in taken:
                            break
                        v = self.prim(t, usage.get(i), depth)
                fs.append(v)
            else:
                fs.append(self.value(f["type"], args, depth + 1))
        return fs

    def value(self, tid, ps, depth):
        self.nodes += 1
        if self.nodes > self.max_nodes or depth > self.max_depth + 6:
            raise Budget("value too large")
        x = self.ins[tid]
        k = x["kind"]
        r = self.rng
        if k == "prim":
            return self.prim(x, None, depth)
        if k == "struct":
            return ("S", self.fields(x, ps, depth))
        if k == "union":
            n = len(x["variants"])
            order = list(range(n))
            r.shuffle(order)
            if depth >= self.max_depth:   # prefer variants without fields when deep
                order.sort(key=lambda i: len(self.ins[x["variants"][i]]["fields"]))
            idx = order[0]
            return ("U", idx, self.fields(self.ins[x["variants"][idx]], ps, depth))
        if k in ("array", "dict"):
            ef = x["elem"]
            eargs = [self.evalarg(a, ps, []) for a in ef.get("natArgs") or []]
            if k == "array" and x.get("isTuple"):
                n = (ps[0] if ps else 0) if x.get("dynamicSize") else x.get("count", 0)
            else:
                n = 0 if depth >= self.max_depth else (r.choice([0, 0, 1, 1, 2, 3, 4]) if r.random() < 0.95 else r.randrange(5, 30))
            if n > 3000:
                raise Budget("array too large")
            es = []
            et = self.ins[ef["type"]]
            for _ in range(n):
                if et["kind"] == "prim":
                    self.nodes += 1
                    if self.nodes > self.max_nodes:
                        raise Budget("value too large")
                    es.append(self.prim(et, None, depth))
                else:
                    es.append(self.value(ef["type"], eargs, depth + 1))
            if k == "dict":
                kp = key_prim_of(self.ins, x)
                if kp is None:
                    raise Budget("dict key not primitive")
                es = self.sort_entries(PRIM_MAP.get(kp["name"]), es)
            return ("A", es)
        raise Budget("unknown kind")

    @staticmethod
    def keyof(p, e):
        k = e[1][0]
        if k is None:
            return 0
        if p == "int":
            return sgn(k[1], 32)
        if p == "long":
            return sgn(k[1], 64)
        return k[1]

    def sort_entries(self, p, es):
        seen = {}
        for e in es:
            seen[self.keyof(p, e)] = e
        return [seen[k] for k in sorted(seen)]
