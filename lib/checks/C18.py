"""C18 -- random value generation yields valid, reproducible values (generated FillRandom + basictl.RandGenerator)."""
import random
import threading
from concurrent.futures import ThreadPoolExecutor

from vlib import *
import obj_lib
from obj_lib import *

PROPS = "Props/C18"
FUEL = 1000000       # model recursion depth (Go: 256 MB stack); the draw budget (60000 draws, both sides) normally triggers first


def run_lines_e(exe, args, lines, **kw):
    """run_lines that maps no input lines to no output lines"""
    if not lines:
        return 0, [], ""
    return run_lines(exe, args, lines, **kw)


def run(ctx):
    quick = ctx.quick()
    f7dir = ctx.scratch / "f7"
    f7dir.mkdir(exist_ok=True)
    (f7dir / "s.tl").write_text(F7_SCHEMA)
    corpus = [c for c in repo_corpus(quick) if quick is False or c[0] != "cases_nosan"]
    st = family_setup(ctx, PROPS, n_random=5 if quick else 15, corpus=corpus,
                      extra_specs=[("f7", [f7dir / "s.tl"], ["--tl2WhiteList=*"], "*", True)], objx_random=1 if quick else 3)
    nseeds = 8 if quick else 24
    stats = {"schemas": 0, "types": 0, "fills": 0, "model_unsupported_types": 0, "diverging_both": 0, "kernel_rejected": 0,
             "types_terminating_by_theorem": 0, "xwf_false": 0, "max_tl1_bytes": 0, "tl2_written": 0,
             "handler_fills": 0, "handler_fills_over_budget": 0, "handler_sizes_over_1023": 0,
             "result_fills": 0, "result_fills_nat_over_1023": 0, "result_fills_over_budget": 0}
    mism, bad, samples, unit_errors, skipped, diverging = [], [], [], [], [], []
    distinct = set()     # distinct (schema, type, TL1 bytes) of values with more than 8 bytes (more than tag + one word)
    lock = threading.Lock()
    rngs = {u.name: random.Random(ctx.rng.getrandbits(64)) for u in st.units}

    def work(u):
        rng = rngs[u.name]
        if u.kernel_rejected:
            with lock:
                stats["kernel_rejected"] += 1
            return
        if u.error or not u.gen:
            with lock:
                unit_errors.append((u.name, u.error))
            return
        if st.ref is None:
            return
        margs = [str(u.ir_path), str(u.x_path)]
        tops = tops_of(u)
        rank = rank_certificate(u.ins)
        pre = ["xwf", "ranked " + " ".join(str(r) for r in rank)]
        rc, pout, err = run_lines_e(st.ref, margs, pre)
        uerr = []
        if pout[:1] != ["ok true"]:
            uerr.append((u.name, f"xwf (conditions of the validity theorem) is not true for the generator dump: {pout[:1]} {err[-300:]}"))
        if pout[1:2] != ["ok true"]:
            uerr.append((u.name, f"rank certificate rejected by the model's `ranked`: {pout[1:2]}"))
        per = 3 if u.name == "f7" else nseeds
        gl, ml, meta_ = [], [], []
        for tid, name, x in tops:
            for _ in range(per):
                seed = rng.getrandbits(rng.choice([8, 32, 64]))
                gl.append(f"orand {name} {seed}")
                ml.append(f"rand {tid} {name} {seed} {FUEL}")
                meta_.append((tid, name))
        go = run_lines_resilient(u.gen.exe, [], gl, timeout=600, max_restarts=60)
        rc, mo, err = run_lines_e(st.ref, margs, ml, timeout=900)
        if rc != 0 or len(mo) != len(ml) or len(go) != len(gl):
            uerr.append((u.name, f"driver failed: model rc={rc} lines {len(mo)}/{len(ml)} go lines {len(go)}/{len(gl)} {err[-300:]}"))
            with lock:
                unit_errors.extend(uerr)
            return
        ubad, umism, uskip, udiv = [], [], {}, {}
        udist = set()
        s_ = {"schemas": 1, "types": len(tops), "fills": 0, "diverging_both": 0, "tl2_written": 0,
              "types_terminating_by_theorem": sum(1 for tid, _, _ in tops if rank[tid] > 0)}
        maxb = 0
        for l, g, m, (tid, name) in zip(gl, go, mo, meta_):
            gf = g.split(" ")
            if m == "bad":     # outside the TL1-level model: the Go-side oracle still applies
                uskip[name] = unsupported_reason(u.ins, tid) or "model: construct outside the model"
            if gf[0] == "ok":
                s_["fills"] += 1
                maxb = max(maxb, 0 if gf[1] == "-" else len(gf[1]) // 2)
                if len(gf[1]) > 16:
                    udist.add((u.name, name, gf[1]))
                flags = dict(x.split("=") for x in gf[2:])
                if flags.get("j") != "ok":
                    ubad.append((u.name, l, g, f"C18:writer:json:{u.name}:{name}", "JSON writer/reader does not accept the random value"))
                if flags.get("t2") not in ("ok", "na"):
                    ubad.append((u.name, l, g, f"C18:writer:tl2:{u.name}:{name}", "TL2 writer/reader does not accept the random value"))
                if flags.get("t2") == "ok":
                    s_["tl2_written"] += 1
                if flags.get("rep") != "same":
                    ubad.append((u.name, l, g, f"C18:repro:{u.name}:{name}", "same seed, different value"))
                if m != "bad" and m != "ok " + gf[1]:
                    umism.append((u.name, l, m, g))
            elif g == "writeerr":
                ubad.append((u.name, l, g, f"C18:writer:tl1:{u.name}:{name}", "TL1 writer refuses the random value"))
                if m != "bad" and not m.startswith("encnone"):
                    umism.append((u.name, l, m, g))
            elif gf[0] in ("crash", "panic"):
                # never returned: stack overflow / draw budget (60000 draws) / watchdog.  Known divergence only when the
                # faithful model does not finish on the same stream either (and the type is recursive)
                if m in ("fuel", "budget") and rank[tid] == 0:
                    udiv.setdefault(name, []).append(l)
                    s_["diverging_both"] += 1
                elif m == "budget" and "verif-draw-budget" in g:
                    s_["over_budget_nonrecursive"] = s_.get("over_budget_nonrecursive", 0) + 1
                else:
                    ubad.append((u.name, l, g, f"C18:crash:{u.name}:{name}", "FillRandom crashes although the model terminates"))
            else:
                uerr.append((u.name, f"unexpected driver output {trunc(g, 100)} for {l}"))
            if gf[0] == "ok" and m == "fuel":
                pass   # already a correspondence mismatch above
        # ---- (b) user RandgeneratorContext handlers (public API: NewRandGeneratorWithContext): oracle only.  A SizeHandler may
        #      return sizes above LimitValue's 1023, a FieldMaskHandler any subset of the used bits
        def uses_nat(tid):
            return any(f.get("useSize") or f.get("useMask") for t2 in reach(u.ins, tid) for f in (u.ins[t2].get("fields") or []))
        hl = []
        for tid, name, x in tops:
            if u.name == "f7" or rank[tid] == 0 or not uses_nat(tid):
                continue
            for mode in ("big1", "mul37", "maskall", "masknone"):
                for _ in range(2 if mode == "big1" else 1):
                    hl.append(f"orandh {name} {rng.getrandbits(32)} {mode}")
        ho = run_lines_resilient(u.gen.exe, [], hl, timeout=600, max_restarts=30)
        for l, g in zip(hl, ho):
            name, mode = l.split(" ")[1], l.split(" ")[3]
            gf = g.split(" ")
            if gf[0] == "ok":
                s_["handler_fills"] = s_.get("handler_fills", 0) + 1
                if len(gf[1]) > 2 * 4096:
                    s_["handler_sizes_over_1023"] = s_.get("handler_sizes_over_1023", 0) + 1
                flags = dict(x.split("=") for x in gf[2:])
                for key, what in (("j", "JSON"), ("t2", "TL2")):
                    if flags.get(key) not in ("ok", "na"):
                        ubad.append((u.name, l, g, f"C18:writer:{key}-handler:{u.name}:{name}", f"{what} writer/reader does not accept the value filled under the {mode} handler"))
                if flags.get("rep") != "same":
                    ubad.append((u.name, l, g, f"C18:repro-handler:{u.name}:{name}", "same seed and handler, different value"))
            elif g == "writeerr":
                ubad.append((u.name, l, g, f"C18:writer:tl1-handler:{u.name}:{name}", f"TL1 writer refuses the value FillRandom produced under the {mode} handler"))
            elif "verif-draw-budget" in g:
                s_["handler_fills_over_budget"] = s_.get("handler_fills_over_budget", 0) + 1
            else:
                ubad.append((u.name, l, g, f"C18:crash-handler:{u.name}:{name}", f"FillRandom under the {mode} handler crashes"))
        # ---- (b2) concurrent use: k goroutines, each with its own generator of the same seed, must all reproduce the sequential
        #      value (package-level scratch state shared between generators shows up here); one unit also under the race detector
        def has_string(tid):
            return any(u.ins[t2]["kind"] == "prim" and u.ins[t2]["name"] == "string" for t2 in reach(u.ins, tid))
        cands = [(tid, name) for tid, name, x in tops if rank[tid] > 0 and u.name != "f7" and has_string(tid)]
        rng.shuffle(cands)
        cl = [f"oconc {name} {rng.getrandbits(32)} 12 {30 if quick else 90}" for tid, name in cands[:4 if quick else 12]]
        co = run_lines_resilient(u.gen.exe, [], cl, timeout=600, max_restarts=10)
        for l, g in zip(cl, co):
            name = l.split(" ")[1]
            if g.startswith("ok ") and g.endswith("conc=same"):
                s_["concurrent_fills_same"] = s_.get("concurrent_fills_same", 0) + 12 * int(l.split(" ")[4])
            elif g.startswith("ok ") and "conc=panic" in g:
                s_["handler_fills_over_budget"] = s_.get("handler_fills_over_budget", 0) + 1
            else:
                ubad.append((u.name, l, trunc(g[-60:], 60) if g.startswith("ok ") else g, f"C18:repro-concurrent:{u.name}:{name}",
                             "concurrent generators of one seed do not all reproduce the sequential value"))
        if u.name == "objx" and cl:
            race_exe = u.gen.dir / "gendrv_race"
            rc_b, so, se = sh(["go", "build", "-race", "-o", str(race_exe), "./drv"], cwd=u.gen.dir, env=goenv(), timeout=900)
            if rc_b == 0:
                env = goenv()
                env["GORACE"] = "halt_on_error=0"
                rc_r, out_r, err_r = run_lines(race_exe, [], cl, timeout=600, env=env)
                s_["race_detector_ops"] = len(cl)
                if "DATA RACE" in err_r:
                    i0 = err_r.find("DATA RACE")
                    ubad.append((u.name, cl[0], trunc(err_r[i0:i0 + 700].replace("\n", " | "), 700), f"C18:race:{u.name}",
                                 "the race detector reports a data race between independent RandGenerators"))
            else:
                s_["race_build_failed"] = 1
        # ---- (c) FillRandomResultTL1: the result type filled under nat arguments taken from the request, which are NOT limited to 1023
        funs = [(x["id"], x["tlName"], x) for x in u.ins
                if x["kind"] == "struct" and x.get("isFunction") and x.get("topLevel") and not x.get("natParams") and x["tlName"] in u.items
                and unsupported_reason(u.ins, x["id"]) is None and unsupported_reason(u.ins, x["result"]["type"]) is None]
        vg = ValueGen(u.ins, rng)
        el, emeta = [], []
        for ft, name, x in funs:
            r = x["result"]
            rfields = sorted({a["value"] for a in r.get("natArgs") or [] if a["kind"] == "field"})
            if not rfields or rank[r["type"]] == 0:
                continue
            for rep in range(4 if quick else 12):
                try:
                    q = vg.top(ft)
                except Budget:
                    break
                fs = list(q[1])
                big = rng.choice(rfields) if rep % 2 == 0 else None          # one size above 1023, the others small
                for i in rfields:
                    if fs[i] is not None:
                        fs[i] = ("n", rng.choice([1024, 1025, 1500, 2047, 2048, 3000]) if i == big else rng.choice([0, 1, 2, 3, 5]))
                el.append(f"enc 0 {ft} {name} 1 | {vtext(('S', fs))}")
                emeta.append((ft, name, x, big is not None))
        rc, eo, err = run_lines_e(st.ref, margs, el)
        rgl, rml, rbig = [], [], []
        for (ft, name, x, isbig), o in zip(emeta, eo if rc == 0 else []):
            if not o.startswith("ok "):
                continue
            r = x["result"]
            na = r.get("natArgs") or []
            seed = rng.getrandbits(32)
            rgl.append(f"oresgen {name} {o[3:]} {seed}")
            rml.append(f"randres {ft} {r['type']} {1 if r['bare'] else 0} {len(na)} " + " ".join(f"{a['kind']}:{a['value']}" for a in na) + f" | {o[3:]} {seed} {FUEL}")
            rbig.append(isbig)
        rgo = run_lines_resilient(u.gen.exe, [], rgl, timeout=600, max_restarts=30)
        rc, rmo, err = run_lines_e(st.ref, margs, rml, timeout=900)
        if rc != 0 or len(rmo) != len(rml):
            uerr.append((u.name, f"model driver failed (randres): rc={rc} {err[-300:]}"))
        else:
            for l, g, m, isbig in zip(rgl, rgo, rmo, rbig):
                name = l.split(" ")[1]
                if g.startswith("ok "):
                    s_["result_fills"] = s_.get("result_fills", 0) + 1
                    if isbig:
                        s_["result_fills_nat_over_1023"] = s_.get("result_fills_nat_over_1023", 0) + 1
                    if m != g:
                        umism.append((u.name, l, m, g))
                elif g == "writeerr":
                    ubad.append((u.name, l, g, f"C18:writer:result:{u.name}:{name}", "WriteResultTL1 refuses the result value FillRandomResultTL1 produced for this request"))
                elif "verif-draw-budget" in g and m == "budget":
                    s_["result_fills_over_budget"] = s_.get("result_fills_over_budget", 0) + 1
                else:
                    ubad.append((u.name, l, g, f"C18:crash-result:{u.name}:{name}", "FillRandomResultTL1 crashes / exceeds the budget although the model does not"))
        with lock:
            for k in s_:
                stats[k] = stats.get(k, 0) + s_[k]
            stats["max_tl1_bytes"] = max(stats["max_tl1_bytes"], maxb)
            stats["model_unsupported_types"] += len(uskip)
            distinct.update(udist)
            unit_errors.extend(uerr)
            bad.extend(ubad)
            mism.extend(umism)
            skipped.extend({"unit": u.name, "type": n, "why": w} for n, w in uskip.items())
            for name, ls in udiv.items():
                diverging.append({"unit": u.name, "type": name, "seeds": [x.split(" ")[2] for x in ls][:5], "of": per})
                ctx.violation(f"C18:F7:fillrandom-diverges:{name}",
                              f"{u.name}: FillRandom of {name} does not return (stack overflow or more than 60000 draws) for {len(ls)} of {per} seeds, e.g. `{ls[0]}`; the model does not finish on the same streams either",
                              {"unit": u.name, "op": ls[0], "files": [str(f) for f in u.files]})
            if len(samples) < 12 and gl:
                j = rng.randrange(len(gl))
                samples.append({"schema": u.name, "op": gl[j], "go": trunc(go[j], 140), "model": trunc(mo[j], 120)})

    with ThreadPoolExecutor(max_workers=8) as ex:
        list(ex.map(work, st.units))

    family_report(
        ctx, st, PROPS, ["Obj", "Prim"], "corr:C18:rand", mism, bad, unit_errors, stats, samples,
        rule="non-trivial = distinct (schema, type, TL1 bytes) with more than 8 bytes; per schema (repository schemas, the F7 schema, random schemas): every top-level object the generated factory creates x seeds: "
             "FillRandom driven by the scripted splitmix64 source; TL1 bytes compared with enc1(fill_random) of the extracted model on the same stream; "
             "oracle on the implementation alone: TL1/JSON/TL2 writers accept the value and what they wrote reads back to the same TL1 bytes, same seed twice gives the same bytes; "
             "a crash counts as the known divergence only when the model runs out of fuel on the same stream; "
             "additionally (oracle only) 12 goroutines with independent generators of one seed must all reproduce the sequential value (one unit also under go build -race), fills under user RandgeneratorContext handlers (sizes above 1023, all/no mask bits) and (with the model) FillRandomResultTL1 of functions whose request carries sizes above 1023",
        trusted=["translator overlay/internal/puregen/gengo/verif_objdump_test.go (real generator front half -> schema IR + Field.recursive + NatFieldUsage) and lib/schema_ir.py / lib/obj_lib.py (IR and facts file writers)",
                 "translator tools/genconsts (depth bounds, limit, probability weights, letters)",
                 "extraction ExtrOcamlBasic only; ocaml/conv.ml, ocaml/tl1/schema_io.ml, ocaml/obj/xschema_io.ml, ocaml/drv_obj.ml",
                 "Go harness harness/go/gendrv (ops_obj.go; scripted source srand of ops_tl1.go); comparison in lib/checks/C18.py"],
        assumptions=["64-bit platform", "the templates are modelled, not verified: agreement shown on the listed schemas x seeds",
                     "TL2 and JSON writers are covered by the Go-side oracle only (the Coq model is TL1-level): partial",
                     "termination is proved for the non-recursive part of a schema only (rank certificate); for recursive types it depends on the stream (and fails for F7-like types)",
                     f"non-termination is observed as out-of-fuel at fuel {FUEL} or more than 60000 draws (same budget on both sides), proved for all fuel and all streams only for the F7 schema"],
        extra={"evaluations": stats["fills"] + stats["diverging_both"], "distinct_nontrivial": len(distinct),
               "skipped_constructs": skipped[:40], "diverging_types": diverging})
