"""C34 -- JSON primitive writers emit valid, exactly-decodable JSON (pkg/basictl + generated Json2Read* helpers)."""
import base64
import json
import struct

from vlib import *

PROPS = "Props/C34"
FAMILY = "jprim"


def hx(b):
    return b.hex() if b else "-"


def unhx(s):
    return b"" if s == "-" else bytes.fromhex(s)


def u8(cp):
    return chr(cp).encode("utf-8", "surrogatepass")


# --- alphabets for the string generators -------------------------------------------------
SAFE = [bytes([c]) for c in b" !#$%&'()*+,-./0189:;<=>?@AZ[]^_`az{|}~\x7f"]
SPECIAL_ASCII = [b'"', b"\\", b"\n", b"\r", b"\t", b"\x00", b"\x01", b"\x08", b"\x0c", b"\x0b", b"\x1f", b"/", b"u", b"<", b">", b"&"]
VALID_MB = [u8(c) for c in (0x80, 0xA9, 0x7FF, 0x800, 0xFFF, 0x1000, 0x2027, 0x2028, 0x2029, 0x202A, 0xD7FF, 0xE000,
                            0xFFFD, 0xFFFE, 0xFFFF, 0x10000, 0x1F600, 0x3FFFF, 0x40000, 0xFFFFF, 0x100000, 0x10FFFF)]
INVALID = [b"\x80", b"\xbf", b"\xc0\x80", b"\xc1\xbf", b"\xc2", b"\xdf", b"\xe0\x80\x80", b"\xe0\x9f\xbf", b"\xe0\xa0", b"\xe2\x80",
           b"\xed\xa0\x80", b"\xed\xbf\xbf", b"\xef\xbf", b"\xf0\x80\x80\x80", b"\xf0\x8f\xbf\xbf", b"\xf0\x90\x80", b"\xf4\x90\x80\x80",
           b"\xf4\x8f\xbf", b"\xf5\x80\x80\x80", b"\xf8\x88\x80\x80\x80", b"\xfe", b"\xff", b"\xe2\x80\x28", b"\xe2\x28\xa8", b"\xc2\x22"]


def is_utf8(s):
    try:
        s.decode("utf-8")
        return True
    except UnicodeDecodeError:
        return False


def gen_strings(ctx):
    rng = ctx.rng
    quick = ctx.quick()
    out = []  # (kind, bytes)
    out.append(("str-exh", b""))
    for a in range(256):
        out.append(("str-exh", bytes([a])))
    for a in range(256):
        for b in range(256):
            out.append(("str-exh", bytes([a, b])))
    # every lead byte x boundary values of the accept ranges in each continuation position
    edges = [0x7F, 0x80, 0x8F, 0x90, 0x9F, 0xA0, 0xBF, 0xC0]
    for b0 in range(0xC0, 0x100):
        for b1 in edges:
            for b2 in edges:
                out.append(("str-utf8-edges", bytes([b0, b1, b2])))
                for b3 in (0x7F, 0x80, 0xBF, 0xC0):
                    out.append(("str-utf8-edges", bytes([b0, b1, b2, b3])))
    # U+2028/9 neighbourhood: e2 80 a0..af, e2 8x a8
    for b2 in range(0x80, 0xC0):
        out.append(("str-utf8-edges", bytes([0x61, 0xE2, 0x80, b2, 0x62])))
        out.append(("str-utf8-edges", bytes([0xE2, b2, 0xA8])))
        out.append(("str-utf8-edges", bytes([0xEF, 0xBF, b2])))
    n = 3000 if quick else 60000

    def pick(pool, k):
        return b"".join(rng.choice(pool) for _ in range(k))
    valid_pool = SAFE + SPECIAL_ASCII * 2 + VALID_MB * 2
    for i in range(n):
        k = rng.choice([1, 2, 3, 4, 5, 6, 8, 12, 20, 40]) if i % 50 else rng.randrange(200, 1500)
        out.append(("str-valid-adversarial", pick(valid_pool, k)))
    for i in range(n):
        k = rng.choice([0, 1, 2, 3, 5, 9, 17, 33])
        s = pick(valid_pool, k) + rng.choice(INVALID) + pick(valid_pool + INVALID, rng.choice([0, 0, 1, 2, 7]))
        out.append(("str-invalid-adversarial", s))
    for i in range(n // 3):
        out.append(("str-random-bytes", bytes(rng.getrandbits(8) for _ in range(rng.randrange(1, 24)))))
    # base64 padding / length coverage: every length 1..130 with an invalid byte somewhere
    for l in range(1, 131):
        s = bytearray(rng.getrandbits(8) for _ in range(l))
        s[rng.randrange(l)] = 0xFF
        out.append(("str-base64-lengths", bytes(s)))
    # long runs (span copying, start/i bookkeeping): escapes at the edges of long safe spans
    for l in (255, 256, 1023, 4096):
        out.append(("str-long", b"a" * l))
        out.append(("str-long", b'"' + b"a" * l + b"\\"))
        out.append(("str-long", b"a" * l + u8(0x2028) + b"b" * l + b"\n"))
        out.append(("str-long", b"a" * l + b"\xff"))
    return out


def gen_json_texts(ctx):
    """texts for the recogniser tie (model valid_json_text vs encoding/json.Valid && utf8.Valid)"""
    rng = ctx.rng
    n = 2500 if ctx.quick() else 50000
    res = []
    atoms = [b"{", b"}", b"[", b"]", b":", b",", b'"', b"\\", b"u", b"0", b"1", b"9", b"a", b"f", b"F", b"-", b"+", b".", b"e", b"E",
             b" ", b"\t", b"\n", b"\r", b"true", b"false", b"null", b'"base64"', b'"a"', b"\\u00e9", b"\\ud83d", b"\\ude00", b"\\n", b"\\/",
             b"\x01", b"\x7f", u8(0xE9), u8(0x2028), b"\xff", b"\xc0\x80", b"00", b"1e5", b"-0", b"0.5", b"1E+2", b"{}", b"[]", b'""']

    def rnd_str():
        k = rng.randrange(0, 5)
        return b'"' + b"".join(rng.choice([b"a", b"\\n", b'\\"', b"\\\\", b"\\u12aB", u8(0x416), b" ", b"\\/", b"\\b"]) for _ in range(k)) + b'"'

    def rnd_num():
        return rng.choice([b"", b"-"]) + rng.choice([b"0", b"7", b"10", b"123", b"01", b""]) + rng.choice([b"", b"", b".5", b".", b".05"]) + \
            rng.choice([b"", b"", b"e3", b"E-2", b"e+", b"e"])

    def rnd_val(d):
        r = rng.random()
        if d <= 0 or r < 0.45:
            return rng.choice([rnd_str, rnd_num, lambda: rng.choice([b"true", b"false", b"null"])])()
        ws = lambda: rng.choice([b"", b"", b" ", b"\n\t"])
        if r < 0.75:
            items = [rnd_str() + ws() + b":" + ws() + rnd_val(d - 1) for _ in range(rng.randrange(0, 3))]
            return b"{" + ws() + (ws() + b"," + ws()).join(items) + ws() + b"}"
        items = [rnd_val(d - 1) for _ in range(rng.randrange(0, 3))]
        return b"[" + ws() + (ws() + b"," + ws()).join(items) + ws() + b"]"
    for i in range(n):
        t = rnd_val(3)
        if rng.random() < 0.3:
            t = rng.choice([b" ", b"\n", b""]) + t + rng.choice([b" ", b"\r\n", b"", b"x", b","])
        if rng.random() < 0.5 and t:
            # one mutation: delete / replace / insert
            p = rng.randrange(len(t))
            m = rng.randrange(3)
            a = rng.choice(atoms)
            t = t[:p] + (b"" if m == 0 else a) + (t[p + 1:] if m < 2 else t[p:])
        res.append(("jvalid-structured", t))
    for i in range(n):
        res.append(("jvalid-soup", b"".join(rng.choice(atoms) for _ in range(rng.randrange(0, 9)))))
    for t in [b"", b" ", b"0", b"-", b"-0", b"00", b"1.", b".1", b"1e", b"1e+", b"1e+0", b"1E-007", b"-1.50e10", b'"', b'""', b'"\\', b'"\\"',
              b'"\\u"', b'"\\u123"', b'"\\u123g"', b'"\\u1234"', b"tru", b"true", b"truee", b"nul", b"null", b"[", b"[]", b"[,]", b"[1,]", b"{",
              b"{}", b'{"a"}', b'{"a":}', b'{"a":1,}', b'{"a":1}', b'{a:1}', b'{"base64":"/w=="}', b'{"base64":"/w=="} ', b"\xef\xbb\xbf1",
              b"[" * 40 + b"]" * 40, b"[" * 40 + b"]" * 39, b'{"a":' * 30 + b"1" + b"}" * 30]:
        res.append(("jvalid-fixed", t))
    return res


def gen_unesc(ctx):
    rng = ctx.rng
    n = 3000 if ctx.quick() else 60000
    hexd = "0123456789abcdefABCDEF"

    def uesc():
        r = rng.random()
        if r < 0.3:
            v = rng.choice([0xD800, 0xDBFF, 0xDC00, 0xDFFF, 0xD83D, 0xDE00])
            h = "%04x" % v
            h = h.upper() if rng.random() < 0.3 else h
        elif r < 0.5:
            h = "%04X" % rng.choice([0, 0x22, 0x5C, 0x7F, 0x80, 0x7FF, 0x800, 0xFFFF, 0xFFFD, 0x2028, 0xD7FF, 0xE000])
        else:
            h = "".join(rng.choice(hexd) for _ in range(4))
        return ("\\u" + h).encode()
    items = [lambda: rng.choice(SAFE), lambda: rng.choice([b'\\"', b"\\\\", b"\\/", b"\\b", b"\\f", b"\\n", b"\\r", b"\\t"]), uesc, uesc,
             lambda: rng.choice(VALID_MB)]
    bad = [lambda: rng.choice([b"\\x", b"\\U0041", b"\\u12", b"\\u12g4", b"\\", b"\x00", b"\x1f", b"\n", b'"', b"\\'", b"\\a", b"\\0"])]
    res = []
    for i in range(n):
        pool = items if i % 3 else items * 4 + bad
        t = b'"' + b"".join(rng.choice(pool)() for _ in range(rng.randrange(0, 7))) + b'"'
        if i % 17 == 0:
            t = t[:-1]
        if i % 19 == 0:
            t += rng.choice([b"x", b'"', b'a"'])  # (no trailing whitespace: the model decodes an exact token)
        res.append(("unesc", t))
    return res


def gen_ints(ctx):
    rng = ctx.rng
    n = 150 if ctx.quick() else 5000
    ops = []

    def logu(bits):
        return rng.getrandbits(rng.randrange(1, bits + 1))
    for k, bits in (("u8", 8), ("u32", 32), ("u64", 64)):
        vals = set([0, 1, 9, 10, 11, 99, 100, 101, (1 << bits) - 1, (1 << bits) - 2, 1 << (bits - 1), (1 << (bits - 1)) - 1])
        vals |= set(10 ** e for e in range(20) if 10 ** e < (1 << bits)) | set(10 ** e - 1 for e in range(1, 20) if 10 ** e - 1 < (1 << bits))
        if bits == 8:
            vals = set(range(256))
        else:
            vals |= set(logu(bits) for _ in range(n))
        for v in sorted(vals):
            ops.append((f"{k} {v}", "int-w", (k, v)))
    for k, bits in (("i32", 32), ("i64", 64)):
        lo, hi = -(1 << (bits - 1)), (1 << (bits - 1)) - 1
        vals = set([0, 1, -1, 9, -9, 10, -10, 99, -99, 100, -100, lo, lo + 1, hi, hi - 1])
        vals |= set(s * 10 ** e for e in range(19) for s in (1, -1) if lo <= s * 10 ** e <= hi)
        vals |= set(rng.choice([1, -1]) * logu(bits - 1) for _ in range(n))
        for v in sorted(vals):
            ops.append((f"{k} {v}", "int-w", (k, v)))
    ops.append(("bool 0", "bool-w", False))
    ops.append(("bool 1", "bool-w", True))
    # readers on number-shaped tokens (no whitespace; every non-digit besides a leading '-' must be rejected)
    for k, bits, signed in (("ru8", 8, False), ("ru32", 32, False), ("ru64", 64, False), ("ri32", 32, True), ("ri64", 64, True)):
        toks = set()
        lim = (1 << (bits - 1)) if signed else (1 << bits)
        for d in (-2, -1, 0, 1, 2):
            for base in (lim, 1 << bits, 1 << (bits - 1), 0, 10 * lim):
                v = base + d
                toks.add(str(v).encode())
                toks.add(b"-" + str(abs(v)).encode())
                toks.add(b"00" + str(abs(v)).encode())
        toks |= {b"", b"-", b"--1", b"-0", b"0", b"00", b"-00", b"+1", b"1.0", b"1e2", b"1E2", b"1.", b"1-", b"1+", b"0x10", b"1_0", b"1,", b"1:", b"1]",
                 b"12a", b"a12", b"9" * 30, b"-" + b"9" * 30, b"0" * 40 + b"7", b'"12"', b'"+12"', b'"-12"', b'"-0"', b'""', b'"1\\u0032"', b'"12', b'"1 2"', b'"999999999999999999999"', b"null", b"true", b"1e", b"-1e-1", b"1.5", b"-.5"}
        for _ in range(n):
            l = rng.randrange(1, 24)
            t = bytes(rng.choice(b"0123456789") for _ in range(l))
            r = rng.random()
            if r < 0.3:
                t = b"-" + t
            elif r < 0.4:
                p = rng.randrange(len(t) + 1)
                t = t[:p] + bytes([rng.choice(b"-+.eE")]) + t[p:]
            toks.add(t)
        for t in sorted(toks):
            ops.append((f"{k} {hx(t)}", "int-r", None))
    for t in [b"true", b"false", b"", b"t", b"tru", b"truee", b"True", b"fals", b"falsee", b"1", b"0", b"null", b'"true"', b"true,", b"truefalse"]:
        ops.append((f"rbool {hx(t)}", "bool-r", None))
    return ops


def gen_floats(ctx):
    rng = ctx.rng
    quick = ctx.quick()
    ops = []
    m64 = [0, 1, 2, (1 << 51), (1 << 52) - 1, (1 << 52) - 2, 0x5555555555555, 0xAAAAAAAAAAAAA, 0x8000000000001, 0x000FFFFFFFFFF]
    for e in range(2048):
        ms = m64[:5] + [rng.getrandbits(52), rng.getrandbits(52)] if quick else m64 + [rng.getrandbits(52) for _ in range(6)]
        for m in ms:
            for sg in (0, 1):
                ops.append((f"f64 {(sg << 63) | (e << 52) | m}", "f64", None))
    for k in range(52):  # subnormals and NaN payloads: every single mantissa bit, every low-ones run
        for e in (0, 1, 2046, 2047):
            for m in (1 << k, (1 << (k + 1)) - 1):
                for sg in (0, 1):
                    ops.append((f"f64 {(sg << 63) | (e << 52) | m}", "f64", None))
    # decimal-looking values whose shortest representation matters
    for v in [0.1, 0.2, 0.3, 1 / 3, 2 / 3, 1e21, 1e22, 1e23, 5e-324, 1.7976931348623157e308, 2.2250738585072014e-308, 2.225073858507201e-308,
              123456789012345680.0, 9007199254740993.0, 4.35, 0.000001, 1e-7, 100.0, 1e15, 1e16, 1e17]:
        for x in (v, -v):
            ops.append((f"f64 {struct.unpack('<Q', struct.pack('<d', x))[0]}", "f64", None))
    for _ in range(4000 if quick else 2000000):
        ops.append((f"f64 {rng.getrandbits(64)}", "f64", None))
    m32 = [0, 1, 2, 1 << 22, (1 << 23) - 1, (1 << 23) - 2, 0x2AAAAA, 0x555555, 0x400001]
    for e in range(256):
        ms = m32 + [1 << k for k in range(2, 22)] + [rng.getrandbits(23) for _ in range(4 if quick else 40)]
        for m in ms:
            for sg in (0, 1):
                ops.append((f"f32 {(sg << 31) | (e << 23) | m}", "f32", None))
    for v in [0.1, 0.2, 0.3, 1 / 3, 16777216.0, 16777217.0, 3.4028235e38, 1.1754944e-38, 1e-45, 1e10, 4.35, 1e-7, 1e21]:
        b = struct.unpack("<I", struct.pack("<f", v))[0]
        ops.append((f"f32 {b}", "f32", None))
        ops.append((f"f32 {b | (1 << 31)}", "f32", None))
    for _ in range(4000 if quick else 2000000):
        ops.append((f"f32 {rng.getrandbits(32)}", "f32", None))
    # regression corpus: patterns on which a past (seeded) defect manifested
    cf = VERIF / "corpus" / "C34" / "float32_hard.txt"
    if cf.exists():
        for line in cf.read_text().splitlines():
            if line.strip() and not line.startswith("#"):
                ops.append((f"f32 {int(line.strip())}", "f32", None))
    return ops


def gen_ops(ctx):
    ops = []
    for kind, s in gen_strings(ctx):
        ops.append((f"str {hx(s)}", kind, s))
    for kind, t in gen_json_texts(ctx):
        ops.append((f"jvalid {hx(t)}", kind, None))
    for kind, t in gen_unesc(ctx):
        ops.append((f"unesc {hx(t)}", kind, None))
    ops += gen_ints(ctx)
    ops += gen_floats(ctx)
    ctx.notes["float_ops_role"] = ("f32/f64 ops validate the strconv oracle (Section hypotheses of C34_float*_finite_roundtrip_partial): "
                                   "Go write -> Json2ReadFloat*/encoding/json/strconv.ParseFloat/generated type -> bits; not a model comparison for finite values")
    return ops


def py_decode_string(a):
    """independent decoder: python's json + base64"""
    v = json.loads(a.decode("utf-8"))
    if isinstance(v, str):
        return "string", v.encode("utf-8", "surrogatepass")
    if isinstance(v, dict) and list(v.keys()) == ["base64"] and isinstance(v["base64"], str):
        return "base64", base64.b64decode(v["base64"], validate=True)
    return "other", None


def oracle(ctx, ops, go_out):
    """The property evaluated on the implementation's own outputs (no model involved)."""
    bad = []
    for (op, kind, data), out in zip(ops, go_out):
        f = out.split(" ")
        ok = True
        why = kind
        if f[0] in ("panic", "variant-mismatch", "std-mismatch", "driver-error"):
            ok = False
        elif kind.startswith("str-"):
            s = data
            u = is_utf8(s)
            if not (f[0] == "ok" and len(f) == 5):
                ok = False
            else:
                a = unhx(f[1])
                ok = f[2] != "none" and unhx(f[2]) == s and f[3] == "v=1" and f[4] == ("u=1" if u else "u=0")
                if ok:
                    try:
                        form, dec = py_decode_string(a)
                        ok = dec == s and form == ("string" if u else "base64")
                    except Exception:
                        ok = False
        elif kind == "int-w":
            k, v = data
            ok = f[0] == "ok" and len(f) == 3 and unhx(f[1]) == str(v).encode() and f[2] == str(v)
        elif kind == "bool-w":
            ok = out == ("ok 74727565 true" if data else "ok 66616c7365 false")
        elif kind in ("f64", "f32"):
            bits = int(op.split(" ")[1])
            eb, mb = (11, 52) if kind == "f64" else (8, 23)
            e = (bits >> mb) & ((1 << eb) - 1)
            m = bits & ((1 << mb) - 1)
            if e == (1 << eb) - 1:
                if len(f) != 3 or f[0] != "special" or not f[2].isdigit():
                    ok = False
                else:
                    back = int(f[2])
                    if m:
                        ok = unhx(f[1]) == b'"NaN"' and (back >> mb) & ((1 << eb) - 1) == (1 << eb) - 1 and back & ((1 << mb) - 1) != 0
                    else:
                        ok = unhx(f[1]) == (b'"-Inf"' if bits >> (eb + mb) else b'"+Inf"') and back == bits
            else:
                ok = out == "fin ok"
        if not ok:
            bad.append((op, why, out))
    return bad


def go_runner(ctx, lines):
    env = goenv()
    tl2gen = ctx.scratch / "tl2gen"
    rc, so, se = sh(["go", "build", "-o", str(tl2gen), "./cmd/tl2gen"], cwd=REPO, env=env, timeout=900)
    if rc != 0:
        return None, "cannot build cmd/tl2gen: " + (so + se)[-800:]
    gdir = ctx.scratch / "jpgen"
    if gdir.exists():
        shutil.rmtree(gdir)
    gdir.mkdir()
    schema = VERIF / "harness" / "go" / "jprimdrv" / "schema.tl"
    rc, so, se = sh([str(tl2gen), "--language=go", f"--outdir={gdir}", "--pkgPath=verifh/jprimdrv/gen/tl",
                     "--basicPkgPath=github.com/VKCOM/tl/pkg/basictl", "--generateByteVersions=jp.recb", str(schema)],
                    cwd=ctx.scratch, env=env, timeout=300)
    if rc != 0:
        return None, "tl2gen failed on harness/go/jprimdrv/schema.tl: " + (so + se)[-800:]
    extra = {"gen/" + str(p.relative_to(gdir)): p.read_text() for p in gdir.rglob("*.go")}
    godrv, goerr = build_go_harness("jprimdrv", ctx.scratch, extra_files=extra)
    if not godrv:
        return None, goerr[-1500:]
    rc, out, err = run_lines(godrv, [], lines)
    if rc != 0:
        return None, f"driver exit {rc}: {err[-500:]}"
    return out, ""


def run(ctx):
    standard_run(
        ctx, props=PROPS, family=FAMILY, consts=["Prim"], go_runner=go_runner, gen_ops=gen_ops, oracle=oracle,
        corr_name="corr:C34:jprim",
        trusted=["translator tools/genconsts (go/parser; safeSet, hex, binaryJSONStringStart/End of pkg/basictl/basictl.go)",
                 "Go harness harness/go/jprimdrv (+ tl2gen built from /repo generating the Json2Read* helpers) and the comparison/oracle in lib/checks/C34.py",
                 "independent decoders used by the oracle: Go encoding/json, encoding/base64, strconv; python json + base64",
                 "finite floats: strconv.AppendFloat/ParseFloat are Section hypotheses of the *_partial theorems, validated (not proved) by the f32/f64 ops"],
        assumptions=["Go standard library functions used by the writers (utf8.Valid/DecodeRune, base64.StdEncoding, strconv.AppendUint/AppendInt) are modelled by their documented semantics; agreement is established on the operations listed under op_kinds",
                     "finite floats: bit-exact round trip holds under the stated hypotheses about strconv.AppendFloat('f', -1)/ParseFloat (validated on structured and random bit patterns, not proved)",
                     "readers are modelled for the exact texts the writers emit (no surrounding whitespace, single-key base64 object)"],
        rule="operations generated from VERIF_SEED; every op is run on pkg/basictl + freshly generated Json2Read* helpers (Go, rebuilt from /repo) and on the extracted Coq model; "
             "distinct = distinct operation lines; all are non-trivial (each exercises a writer/reader/recogniser on a different input)")
