"""C35 -- packet stream framing round-trips and detects corruption (pkg/rpc/packetconn.go, crypto.go)."""
import struct
import zlib

from vlib import *
from frame_lib import *

PROPS = "Props/C35"
FAMILY = "frame"
GO = GoSide()

MAXU32 = (1 << 32) - 1


# ---------------------------------------------------------------- python-side framing (only to build reader inputs
# and to know where the fields of a frame are; the expected *results* below are stated on packets, not bytes)

def _mk_table(poly):
    t = []
    for i in range(256):
        c = i
        for _ in range(8):
            c = (c >> 1) ^ poly if c & 1 else c >> 1
        t.append(c)
    return t


_CAST = _mk_table(0x82F63B78)


def crc_of(kind, data):
    if kind == 0:
        return zlib.crc32(data) & MAXU32
    c = MAXU32
    for b in data:
        c = _CAST[(c ^ b) & 0xFF] ^ (c >> 8)
    return c ^ MAXU32


def py_frame(seq, typ, body, crc_kind, enc):
    h = struct.pack("<III", len(body) + 16, seq & MAXU32, typ)
    k = 0 if seq < 0 else crc_kind
    return h + body + struct.pack("<I", crc_of(k, h + body)) + (b"\0" * (-len(body) % 4) if enc else b"")


PADW = struct.pack("<I", 4)


# ---------------------------------------------------------------- generators

def rand_type(rng):
    r = rng.random()
    if r < 0.3:
        return rng.choice([0, 1, 2, 0x2374df3d, 0x63aeda4e, 0x193f1b22, MAXU32, 0x80000000, 3, 5, 0x04000000])
    while True:
        t = rng.getrandbits(32)
        if t not in (TAG_PING, TAG_PONG):
            return t


def rand_body(rng, pv, big=False):
    r = rng.random()
    if big:
        n = rng.choice([4096, 5000, 16384, 20000, 30000, 66000])
    elif r < 0.45:
        n = rng.randrange(0, 24)
    elif r < 0.8:
        n = rng.randrange(24, 200)
    elif r < 0.95:
        n = rng.randrange(200, 700)
    elif r < 0.99:
        n = rng.randrange(700, 1500)
    else:
        n = rng.randrange(1500, 6000)
    if pv == 0:
        n -= n % 4
    return rng.randbytes(n)


SCHEDS = ["-", "1", "2", "3", "5", "7", "15", "16", "17", "31", "64", "4096"]
BUFS = [1, 2, 7, 15, 16, 17, 33, 64, 512, 4096, 65536]


def rand_sched(rng):
    if rng.random() < 0.6:
        return rng.choice(SCHEDS)
    l = [rng.randrange(0, 40) for _ in range(rng.randrange(1, 7))]
    if not any(l):
        l[0] = 1
    return ",".join(map(str, l))


def ops_string(ops):
    if not ops:
        return "-"
    out = []
    for o in ops:
        if o[0] == "F":
            out.append("F")
        elif o[0] == "W":
            out.append(f"W:{o[1]}:{hx(o[2])}:{hx(o[3])}")
        else:
            out.append(f"{o[0]}:{o[1]}:{hx(o[2])}")
    return ",".join(out)


def packets(ops):
    res = []
    for o in ops:
        if o[0] == "F":
            continue
        res.append((o[1], o[2] + (o[3] if o[0] == "W" else b"")))
    return res


def expect(seq0, pv, ops):
    """What the property promises for this scenario, stated on packets: ('werr', i) or (delivered, end)."""
    seq = seq0
    delivered = []
    end = "eof"
    i = -1
    for i, o in enumerate(ops):
        if o[0] == "F":
            continue
        typ, body = o[1], o[2] + (o[3] if o[0] == "W" else b"")
        pv_now = 0 if seq == -2 else pv
        if pv_now == 0 and len(body) % 4:
            return ("werr", i)
        if end == "eof":
            bad = False
            if seq < 0:
                if seq == -2 and typ != TYPE_NONCE:
                    bad = True
                if seq == -1 and typ != TYPE_HANDSHAKE:
                    bad = True
                if len(body) + 16 > 1023:
                    bad = True
            if not bad and typ == TAG_PING:
                if len(body) != 8:
                    bad = True
            elif not bad and typ == TAG_PONG:
                bad = True
            elif not bad:
                delivered.append((typ, body))
            if bad:
                end = "err"
        seq += 1
    return (delivered, end)


def rand_ops(rng, pv, n, big_at=None, flushy=0.5):
    ops = []
    for i in range(n):
        body = rand_body(rng, pv, big=(i == big_at))
        r = rng.random()
        typ = rand_type(rng)
        if r < flushy:
            ops.append(("P", typ, body))
        elif r < flushy + 0.3:
            ops.append(("N", typ, body))
        else:
            k = rng.randrange(0, len(body) + 1)
            ops.append(("W", typ, body[:k], body[k:]))
        if rng.random() < 0.12:
            ops.append(("F",))
    return ops


def gen_ops(ctx):
    rng = ctx.rng
    quick = ctx.quick()
    ops = []

    def add_stream(kind, pv, enc, crc, seq0, pops, sched=None, rb=None, wb=None):
        sched = sched if sched is not None else rand_sched(rng)
        rb = rb or rng.choice(BUFS)
        wb = wb or rng.choice(BUFS)
        line = f"stream {pv} {enc} {crc} {seq0} {rb} {wb} {sched} {ops_string(pops)}"
        ops.append((line, kind, {"exp": expect(seq0, pv, pops), "enc": enc}))

    seqs = [0, 0, 0, 1, 2, 1000, (1 << 31) - 2, (1 << 32) - 3, (1 << 32) - 1, (1 << 33) - 2, (1 << 40) + 7]
    n_plain = 220 if quick else 2500
    for i in range(n_plain):
        pv = rng.choice([0, 1, 1, 2])
        add_stream("stream-plain", pv, 0, rng.choice([0, 1]), rng.choice(seqs), rand_ops(rng, pv, rng.randrange(0, 9)))
    for i in range(n_plain):
        pv = rng.choice([0, 1, 1, 2])
        add_stream("stream-enc", pv, 1, rng.choice([0, 1]), rng.choice(seqs + [-1] * 0), rand_ops(rng, pv, rng.randrange(0, 9)))
    # every (read buffer, write buffer, chunk) combination on one fixed mixed stream
    for enc in (0, 1):
        fixed = [o if o[0] == "F" else (o[0], o[1], o[2][:120]) + o[3:] for o in rand_ops(rng, 1, 7)]
        for rb in BUFS[:8]:
            for wb in BUFS[:8]:
                add_stream("stream-bufsizes", 1, enc, 1, 5, fixed, sched=rng.choice(SCHEDS), rb=rb, wb=wb)
    # large packets
    for i in range(6 if quick else 80):
        pv = rng.choice([0, 1, 2])
        enc = rng.choice([0, 1])
        add_stream("stream-large", pv, enc, 1, rng.choice(seqs), rand_ops(rng, pv, 3, big_at=rng.randrange(0, 3)),
                   sched=rng.choice(["-", "4096", "17", "1000,1,3"]), rb=rng.choice([16, 512, 4096, 65536]), wb=rng.choice([16, 512, 4096, 65536]))
    # handshake phase: sequence numbers -2 and -1 (types and length limit are checked by the reader)
    for i in range(60 if quick else 400):
        pv = rng.choice([0, 1, 2])
        r = rng.random()
        n0 = rng.randrange(0, 250) * 4
        t0, t1 = TYPE_NONCE, TYPE_HANDSHAKE
        if r < 0.15:
            t0 = rng.choice([TYPE_HANDSHAKE, rand_type(rng), TAG_PING])
        elif r < 0.3:
            t1 = rng.choice([TYPE_NONCE, rand_type(rng), TAG_PONG])
        elif r < 0.4:
            n0 = rng.choice([1004, 1008, 1012, 2000])
        pops = [("P", t0, rng.randbytes(n0)), ("P", t1, rng.randbytes(rng.choice([0, 28, 32, 1004, 1008] if r >= 0.4 and r < 0.5 else [28, 32]) ))] + rand_ops(rng, pv, rng.randrange(0, 4))
        add_stream("stream-hsphase", pv, 0, rng.choice([0, 1]), -2, pops)
    for i in range(40 if quick else 300):  # encrypted part starts with the handshake packet
        pv = rng.choice([0, 1, 2])
        t1 = TYPE_HANDSHAKE if rng.random() < 0.8 else rand_type(rng)
        pops = [("P", t1, rng.randbytes(rng.choice([28, 32, 1004, 1008, 1012])))] + rand_ops(rng, pv, rng.randrange(0, 4))
        add_stream("stream-hsphase", pv, 1, rng.choice([0, 1]), -1, pops)
    # ping / pong in the stream
    for i in range(80 if quick else 500):
        pv = rng.choice([0, 1, 2])
        enc = rng.choice([0, 1])
        pops = rand_ops(rng, pv, rng.randrange(1, 6))
        k = rng.randrange(0, len(pops) + 1)
        r = rng.random()
        if r < 0.6:
            ins = ("P", TAG_PING, rng.randbytes(8))
        elif r < 0.75:
            ins = ("N", TAG_PING, rng.randbytes(rng.choice([0, 4, 12, 16])))
        elif r < 0.9:
            ins = ("P", TAG_PONG, rng.randbytes(8))
        else:
            ins = ("P", TAG_PONG, rng.randbytes(rng.choice([0, 4, 12])))
        pops.insert(k, ins)
        add_stream("stream-pingpong", pv, enc, rng.choice([0, 1]), rng.choice(seqs), pops)
    # writer refuses: misaligned body under protocol version 0
    for i in range(20 if quick else 100):
        pops = rand_ops(rng, 0, rng.randrange(0, 4)) + [("P", rand_type(rng), rng.randbytes(rng.choice([1, 2, 3, 5, 7, 101])))] + rand_ops(rng, 0, 1)
        add_stream("stream-werr", 0, rng.choice([0, 1]), 0, rng.choice([0, 7]), pops)

    # ---- corruption of one byte of the wire
    def add_corrupt(kind, pv, enc, crc, seq0, pops, off, x, k, cls):
        line = (f"corrupt {pv} {enc} {crc} {seq0} {rng.choice(BUFS)} {rng.choice(BUFS)} {rand_sched(rng)} "
                f"{ops_string(pops)} {off} {x}")
        ops.append((line, kind, {"sent": packets(pops), "k": k, "cls": cls, "enc": enc, "pv": pv, "crc": crc, "seq0": seq0}))

    def layout(pops):
        """unencrypted stream: (packet index, class) of every byte offset"""
        lay = []
        for k, (typ, body) in enumerate(packets(pops)):
            lay += [(k, "len")] * 4 + [(k, "seq")] * 4 + [(k, "type")] * 4 + [(k, "body")] * len(body) + [(k, "crc")] * 4
        return lay

    # exhaustive: every offset of a small stream x three masks
    for rep in range(2 if quick else 12):
        pv = rng.choice([1, 2])
        crc = rep % 2
        seq0 = rng.choice(seqs)
        pops = [(rng.choice("PN"), rand_type(rng), rng.randbytes(rng.randrange(0, 9))) for _ in range(3)]
        lay = layout(pops)
        for off, (k, cls) in enumerate(lay):
            for x in (1, 0x80, 0xFF):
                add_corrupt("corrupt-" + cls, pv, 0, crc, seq0, pops, off, x, k, cls)
    # random: larger streams, one offset of every class of a random packet
    for rep in range(120 if quick else 1500):
        pv = rng.choice([0, 1, 2])
        crc = rng.choice([0, 1])
        seq0 = rng.choice(seqs)
        pops = [o for o in rand_ops(rng, pv, rng.randrange(1, 6)) if o[0] != "F"]
        lay = layout(pops)
        byk = {}
        for off, kc in enumerate(lay):
            byk.setdefault(kc, []).append(off)
        k = rng.randrange(0, len(packets(pops)))
        for cls in ("len", "seq", "type", "body", "crc"):
            if (k, cls) in byk:
                off = rng.choice(byk[(k, cls)])
                add_corrupt("corrupt-" + cls, pv, 0, crc, seq0, pops, off, rng.choice([1, 2, 4, 8, 16, 32, 64, 128, 255, rng.randrange(1, 256)]), k, cls)
    # encrypted: any byte of the ciphertext
    for rep in range(150 if quick else 1500):
        pv = rng.choice([0, 1, 2])
        crc = rng.choice([0, 1])
        seq0 = rng.choice(seqs)
        pops = rand_ops(rng, pv, rng.randrange(1, 5))
        # ciphertext length: computed from the plaintext layout (frames padded to 16 at every flush)
        pos = 0
        for o in pops:
            if o[0] == "F":
                pos += -pos % 16
            else:
                b = o[2] + (o[3] if o[0] == "W" else b"")
                pos += 12 + len(b) + (-len(b) % 4) + 4
                if o[0] in "PW":
                    pos += -pos % 16
        pos += -pos % 16
        off = rng.randrange(0, pos)
        add_corrupt("corrupt-enc", pv, 1, crc, seq0, pops, off, rng.randrange(1, 256), None, "enc")

    # ---- the real handshake
    hs_list = [(pvreq, enc) for pvreq in (0, 1, 2, 3) for enc in (0, 1)]
    for rep in range(2 if quick else 8):
        for pvreq, enc in hs_list:
            pv = min(pvreq, 2)
            c2s = rand_ops(rng, pv, rng.randrange(0, 6))
            s2c = rand_ops(rng, pv, rng.randrange(0, 6))
            line = f"hs {pvreq} {enc} {rng.choice(BUFS)} {rng.choice(BUFS)} {rand_sched(rng).replace('0,', '1,')} {ops_string(c2s)} {ops_string(s2c)}"
            ops.append((line, "handshake", {"c2s": expect(0, pv, c2s), "s2c": expect(0, pv, s2c), "pv": pv, "enc": enc}))

    # ---- arbitrary bytes to the reader
    def add_raw(kind, pv, enc, crc, seq0, data, exp=None):
        if enc:
            data += PADW * ((-len(data) % 16) // 4) if len(data) % 4 == 0 else b""
        line = f"readraw {pv} {enc} {crc} {seq0} {rng.choice(BUFS)} {rand_sched(rng)} {hx(data)}"
        ops.append((line, kind, {"exp": exp}))

    # truncation at every prefix
    for rep in range(3 if quick else 20):
        pv = rng.choice([1, 2])
        crc = rng.choice([0, 1])
        seq0 = rng.choice(seqs)
        pk = [(rand_type(rng), rng.randbytes(rng.randrange(0, 10))) for _ in range(3)]
        frames = [py_frame(seq0 + i, t, b, crc, False) for i, (t, b) in enumerate(pk)]
        full = b"".join(frames)
        bounds = [0]
        for f in frames:
            bounds.append(bounds[-1] + len(f))
        for cut in range(len(full) + 1):
            nfull = max(i for i, b in enumerate(bounds) if b <= cut)
            add_raw("raw-truncated", pv, 0, crc, seq0, full[:cut], (pk[:nfull], "eof" if cut in bounds else "unexp"))
    # padding words between frames: at most blockSize/4 - 1 = 3 are skipped
    for rep in range(30 if quick else 200):
        pv = rng.choice([0, 1, 2])
        enc = rng.choice([0, 1])
        crc = rng.choice([0, 1])
        seq0 = rng.choice(seqs)
        pk = [(rand_type(rng), rand_body(rng, pv)[:40]) for _ in range(3)]
        if pv == 0:
            pk = [(t, b[:len(b) - len(b) % 4]) for t, b in pk]
        data = b""
        exp = []
        end = "eof"
        for i, (t, b) in enumerate(pk):
            j = rng.choice([0, 1, 2, 3, 3, 4, 5])
            data += PADW * j
            if j > 3:
                end = "err"
                break
            data += py_frame(seq0 + i, t, b, crc, enc)
            exp.append((t, b))
        tail = rng.choice([0, 1, 2, 3]) if end == "eof" else 0
        data += PADW * tail
        if enc and len(data) % 16 and end == "eof":
            # the harness would add more padding words than a reader accepts; keep this case exact
            need = (-len(data) % 16) // 4
            if tail + need > 3:
                end = "err"
        add_raw("raw-padding", pv, enc, crc, seq0, data, (exp, end))
    # one byte of a padding word of an encrypted stream's plaintext changed
    for rep in range(40 if quick else 400):
        pv = rng.choice([0, 1, 2])
        crc = rng.choice([0, 1])
        seq0 = rng.choice(seqs)
        pk = [(rand_type(rng), rand_body(rng, pv)[:40]) for _ in range(3)]
        if pv == 0:
            pk = [(t, b[:len(b) - len(b) % 4]) for t, b in pk]
        data = bytearray()
        pads = []  # (offset of a padding byte, number of packets in front of it)
        for i, (t, b) in enumerate(pk):
            j = rng.choice([1, 2, 3]) if i else 0
            pads += [(len(data) + x, i) for x in range(4 * j)]
            data += PADW * j + py_frame(seq0 + i, t, b, crc, True)
        j = (-len(data) % 16) // 4
        pads += [(len(data) + x, len(pk)) for x in range(4 * j)]
        data += PADW * j
        if not pads:
            continue
        off, k = rng.choice(pads)
        data[off] ^= rng.randrange(1, 256)
        add_raw("corrupt-padding", pv, 1, crc, seq0, bytes(data), (pk[:k], ("err", "unexp")))
    # first packet of a connection: no padding may precede it
    add_raw("raw-padding", 0, 0, 0, -2, PADW + py_frame(-2, TYPE_NONCE, b"\0" * 28, 0, False), ([], "err"))
    # non-zero alignment bytes (encrypted stream, body length not a multiple of 4)
    for rep in range(20 if quick else 150):
        pv = rng.choice([1, 2])
        crc = rng.choice([0, 1])
        seq0 = rng.choice(seqs)
        t = rand_type(rng)
        b = rng.randbytes(rng.choice([1, 2, 3, 5, 6, 7, 9]))
        f = bytearray(py_frame(seq0, t, b, crc, True))
        al = -len(b) % 4
        good = rng.random() < 0.2
        if not good:
            f[len(f) - 1 - rng.randrange(0, al)] = rng.randrange(1, 256)
        add_raw("raw-alignment", pv, 1, crc, seq0, bytes(f), ([(t, b)], "eof") if good else ([], "err"))
    # protocol version 0: a frame whose length is not a multiple of 4 is refused even with a correct CRC
    for rep in range(20 if quick else 150):
        crc = rng.choice([0, 1])
        seq0 = rng.choice(seqs)
        good = (rand_type(rng), rng.randbytes(4 * rng.randrange(0, 6)))
        t = rand_type(rng)
        b = rng.randbytes(rng.choice([1, 2, 3, 5, 6, 7, 9, 33]))
        data = py_frame(seq0, good[0], good[1], crc, False) + py_frame(seq0 + 1, t, b, crc, False)
        add_raw("raw-pv0-unaligned", 0, 0, crc, seq0, data, ([good], "err"))
        add_raw("raw-pv0-unaligned", rng.choice([1, 2]), 0, crc, seq0, data, ([good, (t, b)], "eof"))
    # length field edge cases, sequence mismatch, garbage
    for rep in range(60 if quick else 400):
        pv = rng.choice([0, 1, 2])
        crc = rng.choice([0, 1])
        seq0 = rng.choice(seqs)
        t = rand_type(rng)
        b = rand_body(rng, pv)[:64]
        if pv == 0:
            b = b[:len(b) - len(b) % 4]
        f = bytearray(py_frame(seq0, t, b, crc, False))
        r = rng.random()
        if r < 0.3:
            struct.pack_into("<I", f, 0, rng.choice([0, 1, 3, 5, 12, 15, 16, 17, 20, (1 << 24) - 1, 1 << 24, (1 << 24) + 1, MAXU32, 0x80000010]))
            exp = None
        elif r < 0.6:
            struct.pack_into("<I", f, 4, (seq0 + rng.choice([1, -1, 256, 1 << 31])) & MAXU32)
            exp = ([], "err")
        elif r < 0.8:
            f = bytearray(rng.randbytes(rng.randrange(0, 60)))
            exp = None
        else:
            exp = ([(t, b)], "eof")
        add_raw("raw-header", pv, 0, crc, seq0, bytes(f), exp)
    return ops


# ---------------------------------------------------------------- oracle (implementation outputs only)

def oracle(ctx, ops, go_out):
    bad = []
    for i, ((op, kind, data), out) in enumerate(zip(ops, go_out)):
        side = kv(GO.side[i]) if i < len(GO.side) else {}
        ok = True
        why = ""
        if out.startswith("panic") or out.startswith("driver-error") or out.startswith("hs-"):
            ok, why = False, "harness failure or panic"
        elif kind.startswith("stream"):
            exp = data["exp"]
            if exp[0] == "werr":
                ok = out == f"werr {exp[1]}"
                why = "write of a misaligned body under protocol version 0 must be refused"
            else:
                d = kv(out)
                ok = out.startswith("ok ") and parse_recv(d.get("recv", "?:")) == exp[0] and d.get("end") == exp[1]
                why = "received packets differ from the packets sent"
                if ok and data["enc"]:
                    ok = side.get("bufok") == "1" and side.get("dec") == "1" and side.get("cipher_differs") == "true"
                    why = "cipher stream is not the block-wise encryption of the plaintext stream"
        elif kind.startswith("corrupt") and kind != "corrupt-padding":
            d = side if data["enc"] else kv(out)
            recv = parse_recv(d.get("recv", "?:")) if out.startswith("ok") else None
            sent = data["sent"]
            if recv is None:
                ok, why = False, "no result"
            elif data["enc"]:
                ok = d.get("end") in ("err", "unexp") and len(recv) < len(sent) and recv == sent[:len(recv)]
                why = "corrupted encrypted stream: altered or complete delivery"
            else:
                k = data["k"]
                ok = d.get("end") in ("err", "unexp") and recv == sent[:k]
                why = f"corrupted {data['cls']} byte of packet {k}: reader must fail at that packet and deliver nothing altered"
        elif kind == "handshake":
            d = kv(out)
            pv = data["pv"]
            ok = (out.startswith("ok ") and d.get("pv") == f"{pv}/{pv}" and d.get("enc") == str(data["enc"]) and d.get("crc") == "1/1"
                  and parse_recv(d.get("rc2s", "?:")) == data["c2s"][0] and d.get("ec2s") == data["c2s"][1]
                  and parse_recv(d.get("rs2c", "?:")) == data["s2c"][0] and d.get("es2c") == data["s2c"][1])
            why = "after the real handshake the packets received differ from the packets sent"
            if ok and data["enc"]:
                ok = side.get("bufok") == "true"
                why = "cipher stream is not the block-wise encryption of the plaintext stream"
        elif (kind.startswith("raw") or kind == "corrupt-padding") and data["exp"] is not None:
            d = kv(out)
            want_end = data["exp"][1] if isinstance(data["exp"][1], tuple) else (data["exp"][1],)
            ok = out.startswith("ok ") and parse_recv(d.get("recv", "?:")) == data["exp"][0] and d.get("end") in want_end
            why = "reader verdict on a hand-made stream"
        if not ok:
            bad.append((op, kind, out + " | " + (GO.side[i] if i < len(GO.side) else ""), f"C35:oracle:{kind}:{why}"))
    return bad


# ---------------------------------------------------------------- second pass: the model reads what Go captured

def second_pass(ctx, ops, model_out, go_out):
    if go_out is None:
        return
    with Lock():
        ref = build_refmodel(FAMILY)
    lines, want, src = [], [], []
    for i, ((op, kind, data), out) in enumerate(zip(ops, go_out)):
        side = kv(GO.side[i]) if i < len(GO.side) else {}
        if kind == "corrupt-enc" and "dplain" in side:
            lines.append(f"readplain {data['pv']} 1 {data['crc']} {data['seq0']} {side['dplain']}")
            want.append(("same", f"ok recv={side['recv']} end={side['end']}"))
            src.append(op)
        elif kind == "handshake" and "full_c2s" in side:
            d = kv(out)
            for dirn in ("c2s", "s2c"):
                lines.append(f"readplain {data['pv']} 0 1 -2 {side['full_' + dirn]}")
                want.append(("hs", (d.get("r" + dirn), d.get("e" + dirn))))
                src.append(op)
    if not lines:
        ctx.notes["second_pass"] = "no captured streams"
        return
    rc, mo, err = run_lines(ref, [], lines)
    mism = 0
    for ln, (mode, w), o, op in zip(lines, want, mo, src):
        good = False
        if mode == "same":
            good = o == w
        else:
            d = kv(o)
            recv = parse_recv(d.get("recv", "?:")) if o.startswith("ok ") else []
            good = (len(recv) >= 2 and recv[0][0] == TYPE_NONCE and recv[1][0] == TYPE_HANDSHAKE
                    and recv[2:] == parse_recv(w[0]) and d.get("end") == w[1])
        if not good:
            mism += 1
            ctx.violation(f"C35:corr2:{trunc(op, 80)}",
                          f"corr:C35:captured: model reader on the bytes captured from Go disagrees with Go's reader: model={trunc(o, 120)} go={trunc(w, 120)}",
                          {"correspondence": "corr:C35:captured", "op": op, "model_op": trunc(ln, 2000), "model": o, "go": str(w)}, no_input=True)
    if rc != 0 or len(mo) != len(lines):
        ctx.violation("C35:corr2:driver", f"model driver failed on captured streams: rc={rc} {err[-300:]}", {"error": err}, no_input=True)
    ctx.notes["second_pass"] = {"captured_streams_read_by_model": len(lines), "mismatches": mism,
                                "what": "decrypted plaintext of corrupted encrypted streams and full unencrypted handshake streams (from sequence number -2), as captured from the Go connections"}
    ctx.coverage["evaluations"] = ctx.coverage.get("evaluations", 0) + len(lines)


def run(ctx):
    with Lock():
        heal_extract()
    standard_run(
        ctx, props=PROPS, family=FAMILY, consts=["Frame", "Prim"], go_runner=GO.runner, gen_ops=gen_ops, oracle=oracle,
        corr_name="corr:C35:frame", post=second_pass,
        trusted=["translator tools/genconsts (go/parser; constants of pkg/rpc/packetconn.go, rpc.go, generated TLTag methods)",
                 "Go harness overlay/pkg/rpc/verif_frame_test.go (in-memory net.Conn with a chunk schedule, recording cipher.BlockMode wrapper) and the comparison/oracle in lib/checks/C35.py",
                 "Go standard library crypto/aes, crypto/cipher (CBC), hash/crc32: modelled (CRC bitwise, CBC over an abstract block cipher), not verified"],
        assumptions=["the block cipher is a bijection on 16-byte blocks (Section hypothesis D (E x) = x); AES and the key derivation are not modelled",
                     "no read timeouts (no locally generated ping), no memcached magic on the first read",
                     "a corrupted length byte or any corrupted byte of an encrypted stream is detected only with probability 1 - 2^-32 (not a theorem; checked by the oracle on the generated cases)",
                     "Go code is modelled, not verified: agreement is established on the operations listed under op_kinds"],
        rule="operations generated from VERIF_SEED; every op drives real PacketConn objects (rebuilt from /repo with the overlay harness) and the extracted Coq model; "
             "distinct = distinct operation lines; each is a different packet sequence / chunking / corruption")
