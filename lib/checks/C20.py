"""C20 -- TL2 parser is total with in-range error positions (internal/tlast: tllexer.go with LexerLanguage = TL2,
tlparser_tl2_code.go, tlparser_error.go)."""
import lex_lib


def run(ctx):
    lex_lib.run_check(ctx, 2, "Props/C20")
