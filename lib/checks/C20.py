"""C20 -- TL2 parser is total with in-range error positions (internal/tlast: tllexer.go with LexerLanguage = TL2,
tlparser_tl2_code.go, tlparser_error.go).  Generators, harness runner and oracle are shared with C19: lib/lex_lib.py."""
import lex_lib

PROPS = "Props/C20"
FAMILY = "lex"


def run(ctx):
    lex_lib.run_check(ctx, 2, PROPS, FAMILY)
