"""C13 -- TL2 readers tolerate schema evolution and non-minimal encodings."""
import random
import threading
from concurrent.futures import ThreadPoolExecutor

from vlib import *
from gencommon import *
from tl2_lib import *

PROPS = "Props/C13"
CORR = "corr:C13:evo"


def run(ctx):
    quick = ctx.quick()
    npairs = 2 if quick else 6
    bins0, berr0 = build_tools(ctx.scratch)
    evo = evolution_specs(ctx, npairs, None if berr0 else bins0)
    cres, thm, ref, ref_err, bins, berr, units = common_setup(ctx, PROPS, 2 if quick else 6, evo + [wide_spec(ctx)])
    nrand = 3 if quick else 9
    ntl1 = 3 if quick else 9
    nre = 3 if quick else 8
    stats = {"schemas": 0, "types": 0, "valid_values": 0, "reencodings": 0, "reenc_changed": 0, "oversize_inputs": 0, "truncated_inputs": 0,
             "rw_ops": 0, "kernel_rejected": 0, "units_outside_model": 0, "evolution_pairs": 0, "evolution_values": 0, "evolution_ops": 0}
    kinds = {}
    mism, bad, samples, unit_errors, skipped = [], [], [], [], []
    lock = threading.Lock()
    rngs = {u.name: random.Random(ctx.rng.getrandbits(64)) for u in units}
    by_name = {u.name: u for u in units}

    def usable(u):
        if u.kernel_rejected:
            with lock:
                stats["kernel_rejected"] += 1
            return False
        if u.error or not u.gen:
            with lock:
                unit_errors.append((u.name, u.error))
            return False
        return ref is not None

    def modelled_unit(u, tops):
        mv = ModelView(u, ref)
        d = mv.describe(u, tops)
        if d:
            with lock:
                stats["units_outside_model"] += 1
                skipped.append(d)
        return mv

    def valid_values(u, tops, rng, src):
        valid = [(tid, name, h) for tid, name, h in src.go_random(nrand)]
        tv, e = src.tl1_values(ntl1)
        cl = [f"conv {int(bool(u.san))} {tid} {name} {boxed} {h}" for tid, name, boxed, h in (tv or [])]
        co = run_lines_resilient(u.gen.exe, [], cl, timeout=600)
        for l, o in zip(cl, co):
            f = o.split(" ")
            if o.startswith("ok ") and len(f) == 4:
                g = l.split(" ")
                valid.append((int(g[2]), g[3], f[2]))
        return valid, e

    def work(u):
        if u.name.startswith("evo"):
            return
        if not usable(u):
            return
        rng = rngs[u.name]
        ubad, umism, uerr = [], [], []
        tops = unit_tops(u)
        mv = modelled_unit(u, tops)
        src = Sources(u, tops, rng, ref)
        valid, e = valid_values(u, tops, rng, src)
        if e:
            uerr.append((u.name, e))
        st = {"schemas": 1, "types": len(tops), "valid_values": len(valid), "reencodings": 0, "reenc_changed": 0, "oversize_inputs": 0, "truncated_inputs": 0, "rw_ops": 0, "dirty_ops": 0}
        ukinds = {}
        ops = []      # (line, kind, expected rewrite or None, must be rejected)
        if True:
            # one re-encoding of every value spells EVERY size-like number in the 9-byte form (seed = 0 mod 3)
            rl = [f"reenc {tid} {name} {3 * rng.getrandbits(28) + (0 if j == 0 else rng.randrange(1, 3))} {h}"
                  for tid, name, h in valid for j in range(nre) if mv.covers(tid)]
            ro, e = model_run(ref, mv, rl, 1)
            if e:
                uerr.append((u.name, e))
                ro = []
            for l, o in zip(rl, ro):
                f, g = l.split(" "), o.split(" ")
                if o.startswith("ok ") and len(g) == 3:
                    st["reencodings"] += 1
                    if g[1] != f[4]:
                        st["reenc_changed"] += 1
                    for k in g[2].split("+"):
                        ukinds[k] = ukinds.get(k, 0) + 1
                    ops.append((f"rw2 {f[1]} {f[2]} {g[1]}", "reencoding:" + g[2], f[4], False))
                elif o not in ("none",):
                    uerr.append((u.name, f"model could not re-encode a value written by Go: {trunc(l, 200)} -> {o}"))
        for tid, name, h in valid:
            b = bytes.fromhex(h) if h != "-" else b""
            ob = oversize(rng, b) if size_prefixed(u.ins, tid) else None
            if ob is not None:
                ops.append((f"rw2 {tid} {name} {ob.hex()}", "oversize-declared-length", None, True))
                st["oversize_inputs"] += 1
            if len(b) > 1:
                cut = b[:rng.randrange(1, len(b))]
                ops.append((f"rw2 {tid} {name} {cut.hex()}", "truncated-input", None, True))
                st["truncated_inputs"] += 1
        lines = [o[0] for o in ops]
        go = run_lines_resilient(u.gen.exe, [], lines, timeout=900)
        mo, e = model_run(ref, mv, lines, 1)
        if e:
            uerr.append((u.name, e))
        st["rw_ops"] = len(lines)
        # the same reads into a REUSED object (it has decoded the largest value of the type first): the
        # result must be the one a fresh object gives -- fields missing at the end of a body are reset
        dirty = {}
        for tid, name, h in valid:
            if h != "-" and len(h) > len(dirty.get(tid, "")):
                dirty[tid] = h
        dl = [(i, f"rw2d {l.split(' ')[1]} {l.split(' ')[2]} {dirty[int(l.split(' ')[1])]} {l.split(' ')[3]}")
              for i, l in enumerate(lines) if int(l.split(" ")[1]) in dirty]
        do = run_lines_resilient(u.gen.exe, [], [x[1] for x in dl], timeout=900)
        st["dirty_ops"] = len(dl)
        for (i, l), d in zip(dl, do):
            g = go[i]
            if g.startswith(("panic", "crash", "driver-error")) or d == "dirty-err":
                continue
            if d != g:
                f = l.split(" ")
                ubad.append((u.name, l, d + " (a fresh object gives " + trunc(g, 120) + ")", f"C13:reused-object:{ops[i][1].split(':')[0]}:{u.name}:{f[2]}"))
        for i, ((l, kind, want, must_reject), g) in enumerate(zip(ops, go)):
            f = l.split(" ")
            n = 0 if f[3] == "-" else len(f[3]) // 2
            if g.startswith(("panic", "crash", "driver-error")):
                ubad.append((u.name, l, g, crash_sig("C13", mv, u, f[1], f[2], g)))
            elif want is not None and g != f"ok {n} {want}":
                # an admissible re-encoding must decode to the same value (same canonical rewrite), consuming all of it
                ubad.append((u.name, l, g + " (wanted rewrite " + trunc(want, 80) + ")", f"C13:reencoding:{kind}:{u.name}:{f[2]}"))
            elif must_reject and g != "err":
                ubad.append((u.name, l, g, f"C13:accepted-short-input:{u.name}:{f[2]}"))
            if mo is not None and mo[i] is not None and mo[i] != g:
                umism.append((u.name, l, mo[i], g))
        with lock:
            for k in st:
                stats[k] = stats.get(k, 0) + st[k]
            for k in ("boundary_values", "sparse_values"):
                stats[k] = stats.get(k, 0) + src.stats.get(k, 0)
            for k, v in ukinds.items():
                kinds[k] = kinds.get(k, 0) + v
            unit_errors.extend(uerr)
            bad.extend(ubad)
            mism.extend(umism)
            if len(samples) < 14 and lines:
                for _ in range(2):
                    j = rng.randrange(len(lines))
                    samples.append({"schema": u.name, "kind": ops[j][1], "op": trunc(lines[j], 200), "go": trunc(go[j], 120),
                                    "model": trunc(mo[j], 120) if mo and mo[j] is not None else "(type outside the model)"})

    def pair(i):
        uo, un = by_name.get(f"evo{i}_old"), by_name.get(f"evo{i}_new")
        if uo is None or un is None or not usable(uo) or not usable(un):
            return
        rng = rngs[uo.name]
        ubad, umism, uerr = [], [], []
        tops_o, tops_n = unit_tops(uo), unit_tops(un)
        mv_o = modelled_unit(uo, tops_o)
        old_tid = {name: tid for tid, name, x in tops_o}
        new_tid = {name: tid for tid, name, x in tops_n}
        src = Sources(un, [t for t in tops_n if t[1] in old_tid], rng, ref)
        vals = src.go_random(nrand * 2)
        # written by the new code, read by the old code
        l1 = [f"rw2 {old_tid[name]} {name} {h}" for tid, name, h in vals]
        g1 = run_lines_resilient(uo.gen.exe, [], l1, timeout=600)
        m1, e = model_run(ref, mv_o, l1, 1)
        if e:
            uerr.append((uo.name, e))
        # ... and into an old object that already holds another value of the type
        best = {}
        for l, g in zip(l1, g1):
            f, gf = l.split(" "), g.split(" ")
            if g.startswith("ok ") and len(gf) == 3 and gf[2] != "-" and len(gf[2]) > len(best.get(f[2], "")):
                best[f[2]] = gf[2]
        l1d = [(i1, f"rw2d {l.split(' ')[1]} {l.split(' ')[2]} {best[l.split(' ')[2]]} {l.split(' ')[3]}")
               for i1, l in enumerate(l1) if l.split(" ")[2] in best]
        g1d = run_lines_resilient(uo.gen.exe, [], [x[1] for x in l1d], timeout=600)
        for (i1, l), d in zip(l1d, g1d):
            if d != g1[i1] and d != "dirty-err" and not g1[i1].startswith(("panic", "crash")):
                ubad.append((uo.name, l, d + " (a fresh object gives " + trunc(g1[i1], 120) + ")", f"C13:reused-object:new-writer-old-reader:{l.split(' ')[2]}"))
        l2 = []
        for i1, (l, g) in enumerate(zip(l1, g1)):
            f, gf = l.split(" "), g.split(" ")
            n = 0 if f[3] == "-" else len(f[3]) // 2
            if not (g.startswith("ok ") and len(gf) == 3 and gf[1] == str(n)):
                ubad.append((uo.name, l, g, f"C13:old-reader-refuses-new-writer:{f[2]}"))
            else:
                l2.append((f"rw2 {new_tid[f[2]]} {f[2]} {gf[2]}", gf[2], f[2]))
            if m1 is not None and m1[i1] is not None and m1[i1] != g:
                umism.append((uo.name, l, m1[i1], g))
        # what the old code wrote (appended fields missing), read by the new code, and back
        g2 = run_lines_resilient(un.gen.exe, [], [x[0] for x in l2], timeout=600)
        l3 = []
        for (l, w_old, name), g in zip(l2, g2):
            gf = g.split(" ")
            n = 0 if w_old == "-" else len(w_old) // 2
            if not (g.startswith("ok ") and len(gf) == 3 and gf[1] == str(n)):
                ubad.append((un.name, l, g, f"C13:new-reader-refuses-old-writer:{name}"))
            else:
                l3.append((f"rw2 {old_tid[name]} {name} {gf[2]}", w_old, name))
        g3 = run_lines_resilient(uo.gen.exe, [], [x[0] for x in l3], timeout=600)
        for (l, w_old, name), g in zip(l3, g3):
            gf = g.split(" ")
            if not (g.startswith("ok ") and len(gf) == 3 and gf[2] == w_old):
                ubad.append((uo.name, l, g + " (wanted rewrite " + trunc(w_old, 80) + ")", f"C13:old-new-old-unstable:{name}"))
        with lock:
            stats["evolution_pairs"] += 1
            stats["evolution_values"] += len(vals)
            stats["evolution_ops"] += len(l1) + len(l1d) + len(l2) + len(l3)
            unit_errors.extend(uerr)
            bad.extend(ubad)
            mism.extend(umism)
            if l1:
                samples.append({"schema": uo.name, "kind": "new-writer-old-reader", "op": trunc(l1[0], 200), "go": trunc(g1[0], 120),
                                "model": trunc(m1[0], 120) if m1 and m1[0] is not None else "(type outside the model)"})

    with ThreadPoolExecutor(max_workers=8) as ex:
        futs = [ex.submit(work, u) for u in units] + [ex.submit(pair, i) for i in range(npairs)]
        for f in futs:
            f.result()

    for name, l, g, sig in bad[:30]:
        ctx.violation(sig, f"{name}: an admissible TL2 re-encoding / evolved encoding is not read as the same value, or a short input is accepted: {trunc(l, 160)} -> {trunc(g, 200)}",
                      {"unit": name, "op": l, "go": g})
    report_infra(ctx, "coq/theories/Props/C13.v", cres, thm, berr, ref_err, unit_errors, mism, CORR)
    ctx.coverage.update({
        "obligations": thm["obligations"], "discharged": thm["discharged"],
        "checker_cmd": f"make -f Makefile.coq theories/{PROPS}.vo (coqc 8.16.1, full .vo build, in /verif/coq)",
        "trusted_base": trusted_base(thm) + ["untrusted: ocaml/tl2/relax2.ml (generator of re-encodings) and lib/tl2_lib.evolve_schema (their outputs are judged by both readers)"],
        "theorems": thm["statements"], "assumptions_per_theorem": thm["assumptions"],
        "evaluations": stats["rw_ops"] + stats.get("dirty_ops", 0) + stats["evolution_ops"], "distinct_nontrivial": stats["reenc_changed"] + stats["evolution_values"],
        "rule": "Boundary-size values are always included (<= ~30 per run): strings of length 253/254/65535/65536/65789/65790/65791 (+1 random in the windows), vectors whose body size lands on those edges, and enclosing struct bodies of exactly those sizes (top level and nested), i.e. every edge of the 1/3/9-byte size forms; per schema and top-level type: values written in TL2 by the generated code are re-encoded by a generator of admissible "
                "re-encodings (kinds below) and read by the generated code and by the extracted model: verdict, consumed length and canonical "
                "rewrite compared; model-free oracle: the rewrite equals the original canonical bytes and the whole input is consumed; inputs whose "
                "outermost declared size exceeds the remaining input, and truncated inputs, must be rejected; every read is repeated into a REUSED object (one that decoded the largest value of the type before) and must give the result of a fresh object; a unit of structs with 8-20 fields and values whose non-default fields all lie before a cut (bodies ending on a presence-block boundary) is always included; schema pairs (random schema, copy with "
                "fields appended): bytes written by the new package are read by the old package (and by the model under the old schema), the old "
                "package's rewrite is read by the new package, and old(new(old)) is stable; non-trivial = re-encoding that differs from the canonical bytes / evolution value",
        "op_kinds": {"rw2": stats["rw_ops"], "rw2d-reused-object": stats.get("dirty_ops", 0), "rw2-evolution": stats["evolution_ops"]},
        "reencoding_kinds": kinds,
        "stats": stats, "correspondence": CORR, "correspondence_mismatches": len(mism), "oracle_failures": len(bad),
        "outside_model": skipped or "none: every unit's dump satisfies wf2",
        "samples": samples or [{"note": "no ops ran"}],
        "schemas": [{"name": u.name, "options": u.options, "instances": len(u.ins or []), "error": trunc(u.error, 200) if u.error else None} for u in units],
    })
    ctx.assumptions += ["64-bit platform (sizes <= MaxInt)", "the templates are modelled, not verified: agreement shown on the listed schemas/values",
                        "kernel resolution trusted (the IR is dumped from the kernel)"]
