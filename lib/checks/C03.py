"""C03 -- TL2 binary round trip of generated Go code."""
import random
import threading
from concurrent.futures import ThreadPoolExecutor

from vlib import *
from gencommon import *
from tl2_lib import *

PROPS = "Props/C03"
CORR = "corr:C03:tl2"


def run(ctx):
    quick = ctx.quick()
    probe = Path(ctx.scratch) / "probe_reclist.tl"
    probe.write_text(PROBE_RECLIST)
    extra = [("probe_reclist", [probe], ["--tl2WhiteList=*"], "*", True)]
    cres, thm, ref, ref_err, bins, berr, units = common_setup(ctx, PROPS, 3 if quick else 9, extra + [wide_spec(ctx)])
    # TL2-origin schemas (.tl2): not modelled, model-free oracle only
    t2units = tl2_origin_units(ctx, bins, 2 if quick else 6) if not berr else []
    t2stats = {}
    t2rngs = {u.name: random.Random(ctx.rng.getrandbits(64)) for u in t2units}
    nrand = 4 if quick else 12
    ntl1 = 4 if quick else 12
    nmut = 2 if quick else 6
    stats = {"schemas": 0, "types": 0, "valid_values": 0, "mutated_inputs": 0, "random_inputs": 0, "rw_ops": 0, "idem_ops": 0,
             "go_accepts_mutated": 0, "kernel_rejected": 0, "units_outside_model": 0}
    mism, bad, samples, unit_errors, skipped = [], [], [], [], []
    lock = threading.Lock()
    rngs = {u.name: random.Random(ctx.rng.getrandbits(64)) for u in units}

    def work(u):
        import time
        tw = time.time()
        rng = rngs[u.name]
        if u.kernel_rejected:
            with lock:
                stats["kernel_rejected"] += 1
            return
        if u.error or not u.gen:
            with lock:
                unit_errors.append((u.name, u.error))
            return
        if ref is None:
            return
        ubad, umism, uerr = [], [], []
        tops = unit_tops(u)
        if u.name == "probe_reclist":
            # default object of a type whose first union variant contains the union again: the
            # writer (EnsureRecursive) never terminates
            tid = {name: t for t, name, x in tops}.get("l.box")
            out = run_lines_resilient(u.gen.exe, [], [f"rw2 {tid} l.box 00"], timeout=300)
            if not out or not out[0].startswith("ok "):
                ubad.append((u.name, f"rw2 {tid} l.box 00", out[0] if out else "no output", f"C03:{NONTERM}:l.box"))
            with lock:
                bad.extend(ubad)
            return
        mv = ModelView(u, ref)
        d = mv.describe(u, tops)
        if d:
            with lock:
                stats["units_outside_model"] += 1
                skipped.append(d)
        src = Sources(u, tops, rng, ref)
        st = {"schemas": 1, "types": len(tops), "valid_values": 0, "mutated_inputs": 0, "random_inputs": 0, "rw_ops": 0, "idem_ops": 0, "go_accepts_mutated": 0}
        valid = [(tid, name, h, "go-random-value") for tid, name, h in src.go_random(nrand)]
        for l, o in src.write_crashes:
            nm = l.split(" ")[1]
            ubad.append((u.name, l, o, crash_sig("C03", mv, u, src.tid_of[nm], nm, o)))
        tv, e = src.tl1_values(ntl1)
        if e:
            uerr.append((u.name, e))
        cl = [f"conv {int(bool(u.san))} {tid} {name} {boxed} {h}" for tid, name, boxed, h in (tv or [])]
        co = run_lines_resilient(u.gen.exe, [], cl, timeout=600)
        # the TL2 bytes Go writes for a TL1-decoded value are the ones the model writes for it
        cm, e = model_run(ref, mv, cl, 2)
        if e:
            uerr.append((u.name, e))
        for l, o, m in zip(cl, co, cm or [None] * len(cl)):
            if m is not None and o.startswith("ok ") and o.split(" ")[:3] != m.split(" ")[:3]:
                umism.append((u.name, l, m, o))
        for l, o in zip(cl, co):
            f = o.split(" ")
            if o.startswith("ok ") and len(f) == 4:
                g = l.split(" ")
                valid.append((int(g[2]), g[3], f[2], "tl1-decoded-value"))
            elif o.startswith(("panic", "crash")):
                g = l.split(" ")
                ubad.append((u.name, l, o, crash_sig("C03", mv, u, g[2], g[3], o)))
        st["valid_values"] = len(valid)
        ops = [(f"rw2 {tid} {name} {h}", kind) for tid, name, h, kind in valid]
        for tid, name, h, kind in valid:
            b = bytes.fromhex(h) if h != "-" else b""
            for _ in range(nmut):
                m = mutate2(rng, b)
                ops.append((f"rw2 {tid} {name} {m.hex() or '-'}", "mutated"))
                st["mutated_inputs"] += 1
        for tid, name, x in tops:
            for _ in range(2):
                r = bytes(rng.choice([0, 1, 2, 3, 4, 5, 8, rng.getrandbits(8)]) for _ in range(rng.randrange(0, 12)))
                ops.append((f"rw2 {tid} {name} {r.hex() or '-'}", "random-bytes"))
                st["random_inputs"] += 1
        lines = [o[0] for o in ops]
        go = run_lines_resilient(u.gen.exe, [], lines, timeout=900)
        mo, e = model_run(ref, mv, lines, 1)
        if e:
            uerr.append((u.name, e))
        st["rw_ops"] = len(lines)
        st["model_ops"] = sum(1 for m in (mo or []) if m is not None)
        idem = []
        for i, ((l, kind), g) in enumerate(zip(ops, go)):
            f = l.split(" ")
            if g.startswith(("panic", "crash", "driver-error")):
                ubad.append((u.name, l, g, crash_sig("C03", mv, u, f[1], f[2], g)))
                continue
            if kind in ("go-random-value", "tl1-decoded-value"):
                n = 0 if f[3] == "-" else len(f[3]) // 2
                if g != f"ok {n} {f[3]}":     # the property on the implementation's own bytes
                    ubad.append((u.name, l, g, f"C03:roundtrip:{u.name}:{f[2]}"))
            elif g.startswith("ok "):
                st["go_accepts_mutated"] += 1
            if g.startswith("ok "):
                idem.append(f"idem2 {f[1]} {f[2]} {f[3]}")
            if mo is not None and mo[i] is not None and mo[i] != g:
                umism.append((u.name, l, mo[i], g))
        io = run_lines_resilient(u.gen.exe, [], idem, timeout=900)
        st["idem_ops"] = len(idem)
        for l, g in zip(idem, io):
            if g != "ok":
                ubad.append((u.name, l, g, f"C03:idempotence:{u.name}:{l.split(' ')[2]}"))
        log(f"[C03] unit {u.name}: {len(lines)} rw2 + {len(idem)} idem2 in {time.time() - tw:.1f}s")
        with lock:
            for k in st:
                stats[k] = stats.get(k, 0) + st[k]
            for k, v in src.stats.items():
                stats[k] = stats.get(k, 0) + v
            unit_errors.extend(uerr)
            bad.extend(ubad)
            mism.extend(umism)
            if len(samples) < 14 and lines:
                for _ in range(2):
                    j = rng.randrange(len(lines))
                    samples.append({"schema": u.name, "kind": ops[j][1], "op": trunc(lines[j], 200), "go": trunc(go[j], 120),
                                    "model": trunc(mo[j], 120) if mo and mo[j] is not None else "(type outside the model)"})

    def work2(u):
        if u.error or not u.gen:
            with lock:
                unit_errors.append((u.name, u.error))
            return
        ubad, st = oracle_only_run("C03", u, t2rngs[u.name], 6 if quick else 18, nmut)
        with lock:
            bad.extend(ubad)
            t2stats[u.name] = st

    with ThreadPoolExecutor(max_workers=8) as ex:
        futs = [ex.submit(work, u) for u in units] + [ex.submit(work2, u) for u in t2units]
        for f in futs:
            f.result()

    for name, l, g, sig in bad[:30]:
        ctx.violation(sig, f"{name}: TL2 write/read/write is not the identity or the code panics: {trunc(l, 160)} -> {trunc(g, 160)}", {"unit": name, "op": l, "go": g})
    report_infra(ctx, "coq/theories/Props/C03.v", cres, thm, berr, ref_err, unit_errors, mism, CORR)
    ctx.coverage.update({
        "obligations": thm["obligations"], "discharged": thm["discharged"],
        "checker_cmd": f"make -f Makefile.coq theories/{PROPS}.vo (coqc 8.16.1, full .vo build, in /verif/coq)",
        "trusted_base": trusted_base(thm),
        "theorems": thm["statements"], "assumptions_per_theorem": thm["assumptions"],
        "evaluations": stats["rw_ops"] + stats["idem_ops"] + sum(v["ops"] for v in t2stats.values()), "distinct_nontrivial": stats["valid_values"] + stats["go_accepts_mutated"],
        "rule": "Boundary-size values are always included (<= ~30 per run): strings of length 253/254/65535/65536/65789/65790/65791 (+1 random in the windows), vectors whose body size lands on those edges, and enclosing struct bodies of exactly those sizes (top level and nested), i.e. every edge of the 1/3/9-byte size forms; per schema (cases.tl, goldmaster*.tl, random schemas, all generated with --tl2WhiteList=*): values from FillRandom and from "
                "TL1-decoded type-directed wire values are written in TL2 by the generated code; those bytes, mutations of them and random "
                "bytes are read and re-written by the generated code and by the extracted model (verdict, consumed length, re-written bytes "
                "compared); model-free oracle on the Go side: write(read(b)) == b and exact consumption for written b, and for every accepted "
                "input: re-read of the rewrite is idempotent, independent of what follows, of the size buffer and of the object being fresh; "
                "panics/crashes are violations; non-trivial = valid value or mutated input the Go reader accepts",
        "op_kinds": {"rw2": stats["rw_ops"], "idem2": stats["idem_ops"]},
        "stats": stats, "correspondence": CORR, "correspondence_mismatches": len(mism), "oracle_failures": len(bad),
        "outside_model": skipped or "none: every unit's dump satisfies wf2",
        "oracle_only_units_not_modelled": {"what": "TL2-origin schemas: internal/tlcodegen/test/tls/cases.tl2 and random .tl2 schemas (structs with 1-20 fields, "
                                                   "optional fields, bits, reserved `_:T` fields incl. on the presence-block boundaries 7/15, unions, enums, arrays, maps, aliases): "
                                                   "FillRandom values and byte mutations through the model-free oracle only (write/read/write identity, exact consumption, idempotence, reused object, no panic)",
                                           "units": t2stats},
        "model_ops": stats.get("model_ops", 0),
        "not_modelled": ["TL2-origin (.tl2) schemas: bit arrays, byte/uint64/bit primitives, omitted `_` fields, TL2 aliases (oracle only, see oracle_only_units_not_modelled)",
                         "bytes versions of generated types (--generateByteVersions)", "error classification (every read error is one verdict)",
                         "union elements without fields as stand-alone factory objects (their TL2 methods are no-ops of the registry item)"],
        "samples": samples or [{"note": "no ops ran"}],
        "schemas": [{"name": u.name, "options": u.options, "instances": len(u.ins or []), "error": trunc(u.error, 200) if u.error else None} for u in units],
    })
    ctx.assumptions += ["64-bit platform (sizes <= MaxInt)", "the templates are modelled, not verified: agreement shown on the listed schemas/values",
                        "kernel resolution trusted (the IR is dumped from the kernel)"]
