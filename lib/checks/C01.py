"""C01 -- TL1 binary round trip of generated Go code."""
from vlib import *
from gencommon import *
import os as _os
OP_LIMIT_ENV = dict(_os.environ, VERIF_OP_LIMIT="10")   # per-operation time limit of the extracted model (ocaml/conv.ml)

PROPS = "Props/C01"
FAMILY = "tl1"
F6_SIG = "C01:F6:length-sanity-rejects-written-value"


def run(ctx, props=PROPS, random_only=False, nrand=None, leg=None):
    PROPS = props
    quick = ctx.quick()
    with Lock():
        cres = run_genconsts()
        thm = check_theorems(PROPS)
        try:
            ref = build_refmodel(FAMILY)
            ref_err = None
        except RuntimeError as e:
            ref, ref_err = None, str(e)
    import indep_ir
    own_leg = leg is None
    if own_leg:     # corr:<pid>:resolution -- the kernel dump against an independent derivation of the IR
        leg = indep_ir.ResolutionLeg(ctx)
        leg.build()
    bins, berr = build_tools(ctx.scratch)
    units = []
    if not berr:
        import randschema
        specs = ([] if random_only else repo_corpus(quick)) + randschema.make_specs(ctx, nrand or (8 if quick else 24), gen_cls=randschema.GenR)
        units = prepare_units(ctx, specs, bins)
        leg.run(units)
        if own_leg:
            leg.run_extra(bins["verifdump"], 40 if quick else 400)
    nvals = 16 if quick else 48
    stats = {"schemas": 0, "types": 0, "values": 0, "rw_ops": 0, "go_rand_values": 0, "budget_skips": 0,
             "model_enc_none": 0, "kernel_rejected": 0, "wf_false": 0}
    import random
    mism, bad, samples, unit_errors = [], [], [], []
    import threading
    from concurrent.futures import ThreadPoolExecutor
    lock = threading.Lock()
    rngs = {u.name: random.Random(ctx.rng.getrandbits(64)) for u in units}

    def work(u):
        rng = rngs[u.name]
        if u.kernel_rejected and u.name.startswith("rs"):
            with lock:
                stats["kernel_rejected"] += 1
            return
        if u.error or not u.gen:
            with lock:
                unit_errors.append((u.name, u.error))
            return
        if ref is None:
            return
        rc, items, err = run_lines(u.gen.exe, [], ["items"])
        have = {x.split(",")[0] for x in items[0][3:].split(";")} if items and items[0].startswith("ok ") else set()
        tops = [t for t in toplevel_objects(u.ins) if t[1] in have]   # unions are factory items only when TL2 is generated
        vg = ValueGen(u.ins, rng)
        san = "1" if u.san else "0"
        enc_lines = []
        st = {"schemas": 1, "types": 0, "values": 0, "rw_ops": 0, "go_rand_values": 0, "budget_skips": 0, "model_enc_none": 0, "wf_false": 0}
        for tid, name, x in tops:
            st["types"] += 1
            for _ in range(nvals):
                try:
                    v = vg.top(tid)
                except Budget:
                    st["budget_skips"] += 1
                    break
                for boxed in (0, 1):
                    if x["kind"] == "union" and not boxed:
                        continue
                    enc_lines.append(f"enc 0 {tid} {name} {boxed} | {vtext(v)}")
        uerr, ubad, umism = [], [], []
        rc, wf_out, err = run_lines(ref, [str(u.ir_path)], ["wf"])
        if wf_out != ["ok true"]:
            st["wf_false"] += 1
            uerr.append((u.name, f"wf_schema is not true for the kernel dump: {wf_out} {err[-300:]}"))
        rc, enc_out, err = run_lines(ref, [str(u.ir_path)], enc_lines)
        if rc != 0 or len(enc_out) != len(enc_lines):
            uerr.append((u.name, f"model driver failed: rc={rc} {err[-300:]}"))
            with lock:
                unit_errors.extend(uerr)
            return
        rw = []
        for l, o in zip(enc_lines, enc_out):
            if o.startswith("ok "):
                f = l.split(" ")
                rw.append((f"rw1 {san} {f[2]} {f[3]} {f[4]} {o[3:]}", "model-value"))
                st["values"] += 1
            else:
                st["model_enc_none"] += 1
        # values produced by the implementation itself (FillRandom), independent of the model's writer
        rl = [f"rand1 {name} {rng.getrandbits(48)}" for tid, name, x in tops for _ in range(max(3, nvals // 6))]
        rout = run_lines_resilient(u.gen.exe, [], rl, timeout=600)
        tid_of = {name: tid for tid, name, x in tops}
        for l, o in zip(rl, rout):
            if o.startswith("ok "):
                name = l.split(" ")[1]
                rw.append((f"rw1 {san} {tid_of[name]} {name} 1 {o[3:]}", "go-random-value"))
                st["go_rand_values"] += 1
            elif o == "writeerr":   # a value FillRandom produced is refused by the writer
                ubad.append((u.name, l, o, f"C01:fillrandom-writeerr:{u.name}:{l.split(' ')[1]}"))
            else:                   # panics / crashes of FillRandom itself belong to C18
                st["fillrandom_failures_left_to_C18"] = st.get("fillrandom_failures_left_to_C18", 0) + 1
        # second sentence of the property: a value whose tuple length disagrees with its size field is a write error
        lm = []
        for l, o in zip(enc_lines, enc_out):
            f = l.split(" ")
            if not o.startswith("ok ") or f[4] != "0":
                continue
            x = u.ins[int(f[2])]
            if x["kind"] != "struct":
                continue
            for fj in x["fields"]:
                tj = u.ins[fj["type"]]
                a = fj.get("natArgs") or []
                if fj.get("mask") is None and tj["kind"] == "array" and tj.get("isTuple") and tj.get("dynamicSize") and a and a[0]["kind"] == "field":
                    fi = x["fields"][a[0]["value"]]
                    if fi.get("mask") is None:
                        goname = "".join(p[:1].upper() + p[1:] for p in fi["name"].split("_"))
                        lm.append(f"lenmis {f[3]} {goname} {rng.choice([1, 2, -1]) if True else 1} {o[3:]}")
                        break
        lm = lm[:200]
        if lm:
            lmo = run_lines_resilient(u.gen.exe, [], lm, timeout=300, mem_gb=4)
            for l, o in zip(lm, lmo):
                st["length_mismatch_ops"] = st.get("length_mismatch_ops", 0) + 1
                if o == "writeerr":
                    st["length_mismatch_write_errors"] = st.get("length_mismatch_write_errors", 0) + 1
                elif o.startswith("ok "):
                    ubad.append((u.name, l, o, f"C01:length-mismatch-encoded:{u.name}:{l.split(' ')[1]}"))
                elif o.startswith(("panic", "crash")):
                    ubad.append((u.name, l, o, f"C01:length-mismatch-crash:{u.name}:{l.split(' ')[1]}"))
                else:
                    st["length_mismatch_skipped"] = st.get("length_mismatch_skipped", 0) + 1
        # the list-based extracted model needs seconds to minutes on megabyte-sized values (FillRandom occasionally produces them);
        # values above 128 KB are left out of the model comparison and counted
        big = [x for x in rw if len(x[0]) > 262144]
        if big:
            st["oversized_values_skipped"] = st.get("oversized_values_skipped", 0) + len(big)
            rw = [x for x in rw if len(x[0]) <= 262144]
        lines = [x[0] for x in rw]
        rc1, mo, err1 = run_lines(ref, [str(u.ir_path)], lines, env=OP_LIMIT_ENV)
        rc2, go, err2 = run_lines(u.gen.exe, [], lines, timeout=900)
        if rc1 != 0 or rc2 != 0 or len(mo) != len(lines) or len(go) != len(lines):
            uerr.append((u.name, f"driver failed: model rc={rc1} go rc={rc2} {err1[-200:]} {err2[-300:]}"))
            with lock:
                unit_errors.extend(uerr)
                bad.extend(ubad)
            return
        st["rw_ops"] += len(lines)
        lines0 = [l.replace("rw1 1 ", "rw1 0 ", 1) for l in lines] if u.san else None
        mo0 = run_lines(ref, [str(u.ir_path)], lines0, env=OP_LIMIT_ENV)[1] if lines0 else None
        kf = []
        for i, (l, m, g) in enumerate(zip(lines, mo, go)):
            f = l.split(" ")
            inp_len = 0 if f[5] == "-" else len(f[5]) // 2
            want = f"ok {inp_len} {f[5]}"
            if m.startswith("crash model-timeout") and g == want:   # model exceeded its per-operation time limit; Go satisfies the property
                st["model_timeout_skipped"] = st.get("model_timeout_skipped", 0) + 1
                continue
            if g != want:   # the property itself, on the implementation: written bytes read back and rewritten identically
                if m == g and mo0 and mo0[i] == want:
                    kf.append((u.name, l, g))
                else:
                    ubad.append((u.name, l, g, f"C01:roundtrip:{u.name}:{f[3]}"))
            if m != g:
                umism.append((u.name, l, m, g))
        with lock:
            for k in st:
                stats[k] = stats.get(k, 0) + st[k]
            unit_errors.extend(uerr)
            bad.extend(ubad)
            mism.extend(umism)
            for name, l, g in kf[:3]:
                ctx.violation(F6_SIG, f"{name}: written value rejected by the reader's length sanity check: {trunc(l, 120)} -> {g}", {"unit": name, "op": l, "go": g})
            if len(samples) < 12 and lines:
                j = rng.randrange(len(lines))
                samples.append({"schema": u.name, "kind": rw[j][1], "op": trunc(lines[j], 200), "go": trunc(go[j], 120), "model": trunc(mo[j], 120)})

    with ThreadPoolExecutor(max_workers=8) as ex:
        list(ex.map(work, units))

    pid = ctx.pid
    for name, l, g, sig in bad[:30]:
        ctx.violation(sig, f"{name}: TL1 write/read/write is not the identity: {trunc(l, 160)} -> {trunc(g, 120)}", {"unit": name, "op": l, "go": g})
    if own_leg:
        leg.report_violations(ctx)
    if not ctx.violations:
        if cres.get("Prim"):
            ctx.violation(f"{pid}:tconst", "translator T-const failed: " + cres["Prim"], {"theorem": "coq/theories/Props/C01.v", "error": cres["Prim"]}, no_input=True)
        elif not thm["ok"]:
            ctx.violation(f"{pid}:theorem", f"theorem no longer checks: {thm['failing_at']}", {"theorem_file": thm["props_file"], "failing_at": thm["failing_at"], "log": thm["log_tail"]}, no_input=True)
        if berr:
            ctx.violation(f"{pid}:tools", "cannot build tl2gen/verifdump from /repo: " + trunc(berr, 600), {"error": berr}, no_input=True)
        if ref_err:
            ctx.violation(f"{pid}:model-build", "reference model does not build: " + trunc(ref_err, 600), {"error": ref_err}, no_input=True)
        for name, e in reportable_unit_errors(unit_errors, ctx)[:10]:
            ctx.violation(f"{pid}:unit:{name}", f"schema unit {name}: {trunc(e, 600)}", {"unit": name, "error": e}, no_input=True)
        for name, l, m, g in mism[:30]:
            ctx.violation(f"{pid}:corr:{name}:{trunc(l, 60)}", f"corr:C01:tl1 {name}: model and generated code differ on {trunc(l, 140)}: model={trunc(m, 90)} go={trunc(g, 90)}",
                          {"correspondence": "corr:C01:tl1", "unit": name, "op": l, "model": m, "go": g}, no_input=True)
    ctx.coverage.update({
        "obligations": thm["obligations"], "discharged": thm["discharged"],
        "checker_cmd": f"make -f Makefile.coq theories/{PROPS}.vo (coqc 8.16.1, full .vo build, in /verif/coq)",
        "trusted_base": ["Coq 8.16.1 kernel", "translator overlay/cmd/verifdump (kernel dump -> schema IR) and lib/schema_ir.py (IR file writer)",
                         "translator tools/genconsts (string markers)", "extraction ExtrOcamlBasic only; ocaml/conv.ml, ocaml/tl1/schema_io.ml, ocaml/drv_tl1.ml",
                         "Go harness harness/go/gendrv; comparison in lib/checks/C01.py",
                         "lib/indep_ir.py (independent IR derivation + lockstep comparison), ocaml/drv_tl1iso.ml (extracted Tl1IsoModel.ir_iso)",
                         "axioms: " + (", ".join(thm["axioms"]) if thm["axioms"] else "none (every theorem closed under the global context)")],
        "theorems": thm["statements"], "assumptions_per_theorem": thm["assumptions"],
        "evaluations": stats["rw_ops"], "distinct_nontrivial": stats["values"] + stats["go_rand_values"],
        "rule": "per schema (repository schemas under several generator options + random schemas): type-directed wire values from the model side and FillRandom values from the Go side; "
                "each is read and re-written by freshly generated Go code and by the extracted model; non-trivial = value accepted by the model writer / produced by Go",
        "stats": stats, "correspondence": "corr:C01:tl1", "correspondence_mismatches": len(mism), "oracle_failures": len(bad),
        "samples": samples or [{"note": "no ops ran"}],
        "schemas": [{"name": u.name, "options": u.options, "instances": len(u.ins or []), "error": trunc(u.error, 200) if u.error else None} for u in units],
    })
    if own_leg:
        leg.report_evidence(ctx)
    ctx.assumptions += ["64-bit platform", "the templates are modelled, not verified: agreement shown on the listed schemas/values",
                        "the IR is dumped from the kernel; its resolution is cross-checked against the independent derivation lib/indep_ir.py on every schema unit "
                        "(leg corr:" + ctx.pid + ":resolution); what that derivation does not model (TL2 bits, Go naming, !X wrappers) stays trusted"]
