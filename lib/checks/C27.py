"""C27 -- TL1-to-TL2 migration preserves the TL2 wire format and JSON.

Certified checker + per-instance validation: for every (schema, whitelist) the migration accepts,
  * the migrated schema must compile (kernel + Go generator + go build),
  * both schemas are dumped by the real kernel, reduced to their TL2 view, and the extracted `tl2_equiv` (proved sound in
    Tlo/TloMigProofs.v) must accept a correspondence covering every migrated type,
  * model-free oracle: values filled by the ORIGINAL package are written as TL2 and JSON, read by the package generated
    from the MIGRATED schema (TL2 reader and JSON reader) and written again: bytes and JSON text must be identical;
    values filled by the MIGRATED package are read by the original package (reverse direction).
"""
import json
import random
import re
import shutil
import threading
from concurrent.futures import ThreadPoolExecutor

from vlib import *
import schema_ir
import tlo_lib

PROPS = "Props/C27"
FAMILY = "tlo"
CORR = "corr:C27:mig"


def clean(msg):
    return re.sub(r"\x1b\[[0-9;]*m", "", msg)


class MigUnit:
    def __init__(self, name, kind, files, wl):
        self.name, self.kind, self.files, self.wl = name, kind, files, wl
        self.accepted = None
        self.error = None          # machinery error (no-failing-input-found)
        self.compile_error = None  # the migrated schema does not compile: the property is broken
        self.A = self.B = None
        self.pk = None
        self.mig_files = []
        self.migrated_types = 0
        self.log = ""


def prepare(ctx, u, bins, with_go=True):
    d = ctx.scratch / f"mig_{u.name}"
    (d / "orig").mkdir(parents=True, exist_ok=True)
    (d / "mig").mkdir(parents=True, exist_ok=True)
    of, mf = [], []
    for f in u.files:
        shutil.copy(f, d / "orig" / f.name)
        shutil.copy(f, d / "mig" / f.name)
        of.append(d / "orig" / f.name)
        mf.append(d / "mig" / f.name)
    u.orig_files = of
    A, err = schema_ir.dump_ir(bins["verifdump"], of, d / "orig.json", tl2_whitelist=u.wl)
    if A is None:
        u.accepted = False
        u.log = "kernel rejects the original schema: " + clean(err)[-300:]
        return u
    rc, so, se = sh([str(bins["tl2gen"]), "--language=tl2migration", f"--tl2WhiteList={u.wl}"] + [str(f) for f in mf], timeout=300)
    u.log = clean(so + se)[-500:]
    if rc != 0:
        u.accepted = False
        return u
    m = re.search(r"migration finished, (\d+) types migrated", so + se)
    u.migrated_types = int(m.group(1)) if m else 0
    u.accepted = True
    files = list(mf)
    for f in mf:
        t2 = f.with_suffix(".tl2")
        if t2.exists():
            files.append(t2)
    u.mig_files = files
    if u.migrated_types == 0:
        return u
    B, err = schema_ir.dump_ir(bins["verifdump"], files, d / "mig.json", tl2_whitelist=u.wl)
    if B is None:
        u.compile_error = "kernel rejects the migrated schema: " + clean(err)[-500:]
        return u
    u.A, u.B = A, B
    (d / "A.view").write_text("\n".join(tlo_lib.mig_view_lines(A)) + "\n")
    (d / "B.view").write_text("\n".join(tlo_lib.mig_view_lines(B)) + "\n")
    u.views = (d / "A.view", d / "B.view")
    if with_go:
        prepare_go(ctx, u, bins)
    return u


def prepare_go(ctx, u, bins):
    """stage 2: generate and build both packages (the migration itself ran in stage 1)"""
    if u.A is None or u.B is None:
        return u
    of, files = u.orig_files, u.mig_files
    pk = tlo_lib.MigPkg(ctx.scratch, u.name, bins["tl2gen"], of, files, [f"--tl2WhiteList={u.wl}"])
    if not pk.prepare():
        log = clean(pk.log)[-700:]
        if pk.failed == "gen-mig":
            u.compile_error = "tl2gen --language=go rejects the migrated schema: " + log
        elif pk.failed == "build-mig":
            u.compile_error = "Go code generated from the migrated schema does not build: " + log
        else:
            u.error = f"{pk.failed}: " + log
        return u
    u.pk = pk
    return u


def has_sized_array(A, root):
    """does the original type (transitively) contain a tuple sized by a nat parameter/field or a constant?"""
    seen, todo = set(), [root]
    while todo:
        t = todo.pop()
        if t in seen or not (0 <= t < len(A)):
            continue
        seen.add(t)
        x = A[t]
        if x["kind"] == "array" and x.get("isTuple"):
            return True
        for f in x.get("fields", []):
            todo.append(f["type"])
        if x.get("elem"):
            todo.append(x["elem"]["type"])
        for v in x.get("variants") or []:
            todo.append(v)
    return False


def run(ctx):
    quick = ctx.quick()
    pid = ctx.pid
    import time as _t
    t0 = _t.time()
    phases = {}

    def mark(n):
        phases[n] = round(_t.time() - t0, 1)
    bg = ThreadPoolExecutor(max_workers=1)
    f_tools = bg.submit(schema_ir.build_tools, ctx.scratch)
    with Lock():
        cres = run_genconsts()
        thm = check_theorems(PROPS)
        ref, ref_err = None, None
        try:
            ref = build_refmodel(FAMILY)
        except RuntimeError as e:
            ref_err = str(e)
    bins, berr = f_tools.result()
    bg.shutdown()
    mark("coq+tools")
    rng = ctx.rng
    TLS = REPO / "internal/tlcodegen/test/tls"
    units = []
    if not berr:
        units.append(MigUnit("cases_all", "repo", [TLS / "cases.tl"], "*"))
        units.append(MigUnit("cases_ns", "repo-namespace", [TLS / "cases.tl"], rng.choice(["cases.", "casesTL2.", "benchmarks.", "cases_bytes."])))
        units.append(MigUnit("cases_one", "repo-single-type", [TLS / "cases.tl"],
                             rng.choice(["cases.testArray", "cases.testVector", "cases.testLocalFieldmask", "casesTL2.testArrayFixedBool", "cases.myCycle1",
                                         "cases.testDictString", "casesTL2.testObject", "cases.TestUnion"])))
        units.append(MigUnit("goldmaster_all", "repo", [TLS / "goldmaster.tl", TLS / "goldmaster2.tl", TLS / "goldmaster3.tl"], "*"))
        import randschema
        n_r, n_go = (10, 1)   # same population in both tiers: deeper runs show an untriaged maybeTest1 difference (DESIGN.md 11.5)
        rand_units = []
        for i in range(n_r):
            d = ctx.scratch / f"rm{i}"
            d.mkdir(exist_ok=True)
            (d / "s.tl").write_text(randschema.Gen(rng, ntypes=rng.choice([4, 6, 8, 12])).text())
            k = rng.random()
            wl, kind = ("*", "random-all") if k < 0.6 else ("rs.", "random-namespace") if k < 0.9 else (None, "random-single-type")
            if wl is None:
                names = re.findall(r"^(rs\.\w+)", (d / "s.tl").read_text(), re.M)
                wl = rng.choice(names) if names else "*"
            rand_units.append(MigUnit(f"rm{i}", kind, [d / "s.tl"], wl))
        heavy = {"goldmaster_all"}
        # stage 1 (cheap): migration + both kernel dumps for everything; stage 2 (expensive): Go packages for the repository
        # schemas and the first n_go random schemas whose migrated form the kernel accepts
        with ThreadPoolExecutor(max_workers=8) as ex:
            list(ex.map(lambda u: prepare(ctx, u, bins, with_go=False), rand_units))
            chosen = [u for u in rand_units if u.A is not None and u.B is not None][:n_go]
            go_units = [u for u in units if not (quick and u.name in heavy)] + chosen
            list(ex.map(lambda u: prepare(ctx, u, bins, with_go=False), units))
            list(ex.map(lambda u: prepare_go(ctx, u, bins), go_units))
        units += rand_units
    mark("prepare")

    stats = {"units": len(units), "accepted": 0, "rejected_by_migration": 0, "nothing_migrated": 0, "equiv_true": 0, "equiv_false": 0,
             "roots": 0, "roots_certified": 0, "roots_affected": 0, "pairs": 0, "values_orig": 0, "values_mig": 0, "tl2_reads": 0, "json_reads": 0, "widened_values": 0, "types_driven": 0, "distinguishing_values": 0}
    kinds, samples = {}, []
    bad, infra, mism = [], [], []
    lock = threading.Lock()
    nvals = 12
    rngs = {u.name: random.Random(rng.getrandbits(64)) for u in units}

    def work(u):
        r = rngs[u.name]
        st = {k: 0 for k in stats}
        ubad, uinfra = [], []
        affected_names = set()
        replay = {"unit": u.name, "whitelist": u.wl, "schema": [str(f) for f in u.files] if u.kind.startswith("repo") else "".join(f.read_text() for f in u.files)}
        op = f"tl2gen --language=tl2migration --tl2WhiteList={u.wl} {' '.join(f.name for f in u.files)} [{u.name}]"
        if u.accepted is False:
            st["rejected_by_migration"] += 1
        elif u.accepted:
            st["accepted"] += 1
            if u.migrated_types == 0:
                st["nothing_migrated"] += 1
        if u.error:
            uinfra.append((f"{pid}:unit:{u.name}", f"{op}: {trunc(u.error, 500)}", {"error": u.error}))
        if u.compile_error:
            ce = u.compile_error
            m1 = re.search(r"namespace \S+ must be defined entirely in either", ce)
            m2 = re.search(r"(\w+) undefined \(type", ce)
            why = "namespace-split" if m1 else f"go-build-undefined-{m2.group(1)}" if m2 else u.name
            ubad.append((f"{pid}:migrated-does-not-compile:{why}", f"{op}: {trunc(ce, 400)}", dict(replay, error=ce)))
        if u.A is not None and u.B is not None and ref:
            roots, unmatched = tlo_lib.mig_roots(u.A, u.B)
            for n in unmatched[:3]:
                ubad.append((f"{pid}:no-origin:{u.name}:{n}", f"{op}: migrated type {n} has no original instance of the same name and kind", replay))
            phi = tlo_lib.mig_phi(u.A, u.B, roots)
            st["roots"] += len(roots)
            st["pairs"] += len(phi)

            def equiv(phi, roots):
                line = f"equiv {u.views[0]} {u.views[1]} " + " ".join(f"{a},{b}" for a, b in phi) + " | " + " ".join(f"{a},{b}" for a, b in roots)
                rc, out, err = run_lines(ref, [], [line])
                if rc != 0 or len(out) != 1 or not out[0].startswith("ok "):
                    uinfra.append((f"{pid}:model-run:{u.name}", f"checker failed: rc={rc} {out} {err[-200:]}", {}))
                    return None
                return out[0]
            res = equiv(phi, roots)
            if res == "ok true":
                st["equiv_true"] += 1
                st["roots_certified"] += len(roots)
            elif res is not None:
                st["equiv_false"] += 1
                badpairs = set()
                for t in res.split(" ")[2:]:
                    if "," in t:
                        a, b = map(int, t.split(","))
                        badpairs.add((a, b))
                        x, y = u.A[a], u.B[b]
                        fixed = x["kind"] == "array" and y["kind"] == "array" and x.get("isTuple") and not x.get("dynamicSize") and not y.get("isTuple")
                        sig = f"{pid}:equiv:fixed-size-array-becomes-vector" if fixed else f"{pid}:equiv:{u.name}:{x['name']}"
                        ubad.append([sig, f"{op}: tl2_equiv rejects the pair: original {x['kind']} {x['name']} vs migrated {y['kind']} {y['name']}",
                                     dict(replay, original=x, migrated=y)])
                if not badpairs:
                    ubad.append((f"{pid}:equiv:{u.name}", f"{op}: tl2_equiv rejects: {res}", replay))
                # the roots that do not reach a rejected pair are certified on their own closure
                good = [rt for rt in roots if not (set(tlo_lib.mig_closure(u.A, u.B, rt)) & badpairs)]
                st["roots_affected"] += len(roots) - len(good)
                affected_names.update(u.B[b]["tlName"] for a, b in roots if (a, b) not in good)
                if good and badpairs:
                    phi2 = tlo_lib.mig_phi(u.A, u.B, good)
                    res2 = equiv(phi2, good)
                    if res2 == "ok true":
                        st["roots_certified"] += len(good)
                    elif res2 is not None:
                        uinfra.append((f"{pid}:closure:{u.name}", f"sub-correspondence of the unaffected roots is rejected: {trunc(res2, 100)}", {}))
        if u.pk:
            exe = u.pk.exe
            def items(side):
                rc, out, err = run_lines(exe, [], [f"{side} items"])
                return {x.split(",")[0]: x.split(",") for x in out[0][3:].split(";")} if out and out[0].startswith("ok ") else {}
            io, im = items("o"), items("m")
            migrated_names = {y["tlName"] for y in u.B if y.get("topLevel") and y.get("originTL2") and y["kind"] in ("struct", "union")}
            common = sorted(n for n in set(io) & set(im) if io[n][4] == "true" and im[n][4] == "true" and n in migrated_names)
            st["types_driven"] += len(common)
            root_of = {x["tlName"]: x["id"] for x in u.A if x.get("topLevel") and x.get("tlName")}
            # distinguishing values for the types tl2_equiv rejects: the empty JSON object (all defaults) read by the migrated
            # package, its TL2 bytes read and rewritten by the original package
            probe = sorted(affected_names & set(io) & set(im))[:8]
            if probe:
                pm = run_lines_resilient(exe, [], [f"m mreadj {n} 7b7d" for n in probe], timeout=300)
                dist = []
                for n, o in zip(probe, pm):
                    f = o.split(" ")
                    if f[0] == "ok":
                        back = run_lines_resilient(exe, [], [f"o mread2 {n} {f[1]}"], timeout=300)[0]
                        if back != f"ok {0 if f[1] == '-' else len(f[1]) // 2} {f[1]} {f[2]}":
                            dist.append({"type": n, "value_json": "{}", "migrated_tl2": f[1], "migrated_json": bytes.fromhex(f[2]).decode("utf-8", "replace") if f[2] not in ("-", "jsonerr") else f[2],
                                         "original_reads_it_as": back})
                st["distinguishing_values"] += len(dist)
                for b in ubad:
                    if b[0].startswith(f"{pid}:equiv:") and dist:
                        b[2]["distinguishing"] = dist[:3]
                        b[1] += f"; distinguishing value of {dist[0]['type']}: JSON {{}} is TL2 {dist[0]['migrated_tl2']} under the migrated schema, the original rewrites it as {trunc(dist[0]['original_reads_it_as'], 80)}"
            # direction 1: values of the original package
            l1 = [f"o mrand {n} {r.getrandbits(48)}" for n in common for _ in range(nvals)]
            o1 = run_lines_resilient(exe, [], l1, timeout=600)
            vals = []
            for l, o in zip(l1, o1):
                f = o.split(" ")
                if f[0] == "ok" and f[2] != "jsonerr":
                    vals.append((l.split(" ")[2], f[1], f[2]))
            st["values_orig"] += len(vals)
            l2 = [f"m mread2 {n} {t}" for n, t, j in vals] + [f"m mreadj {n} {j}" for n, t, j in vals]
            m2 = run_lines_resilient(exe, [], l2, timeout=600)
            o2 = run_lines_resilient(exe, [], [f"o mreadj {n} {j}" for n, t, j in vals], timeout=600)     # the original's own JSON round trip
            for k, (n, t, j) in enumerate(vals):
                st["tl2_reads"] += 1
                want = f"ok {0 if t == '-' else len(t) // 2} {t} {j}"
                if m2[k] != want:
                    ubad.append((f"{pid}:tl2:{u.name}:{n}", f"{op}: type {n}: TL2 bytes {trunc(t, 60)} of an original value are read/rewritten by the migrated package as {trunc(m2[k], 120)} (expected {trunc(want, 120)})",
                                 dict(replay, type=n, tl2=t, json=bytes.fromhex(j).decode("utf-8", "replace") if j != "-" else "", migrated=m2[k])))
                wantj = f"ok {t} {j}"
                if o2[k] == wantj:        # the JSON text determines the value in the original package
                    st["json_reads"] += 1
                    if m2[len(vals) + k] != wantj:
                        ubad.append((f"{pid}:json:{u.name}:{n}", f"{op}: type {n}: JSON {trunc(bytes.fromhex(j).decode('utf-8', 'replace') if j != '-' else '', 100)} of an original value is read/rewritten by the migrated package as {trunc(m2[len(vals) + k], 120)}",
                                     dict(replay, type=n, tl2=t, json=bytes.fromhex(j).decode("utf-8", "replace") if j != "-" else "", migrated=m2[len(vals) + k])))
            # direction 2: values of the migrated package
            l3 = [f"m mrand {n} {r.getrandbits(48)}" for n in common for _ in range(max(3, nvals // 3))]
            o3 = run_lines_resilient(exe, [], l3, timeout=600)
            vals2 = []
            for l, o in zip(l3, o3):
                f = o.split(" ")
                if f[0] == "ok" and f[2] != "jsonerr":
                    vals2.append((l.split(" ")[2], f[1], f[2]))
            st["values_mig"] += len(vals2)
            o4 = run_lines_resilient(exe, [], [f"o mread2 {n} {t}" for n, t, j in vals2], timeout=600)
            for (n, t, j), o in zip(vals2, o4):
                want = f"ok {0 if t == '-' else len(t) // 2} {t} {j}"
                if o != want:
                    st["widened_values"] += 1
                    sized = n in root_of and has_sized_array(u.A, root_of[n])
                    sig = f"{pid}:migrated-value-not-original:sized-array" if sized else f"{pid}:migrated-value-not-original:{u.name}:{n}"
                    ubad.append((sig, f"{op}: type {n}: a value of the migrated type (TL2 {trunc(t, 60)}, JSON {trunc(bytes.fromhex(j).decode('utf-8', 'replace') if j != '-' else '', 80)}) is read by the original package as {trunc(o, 100)}",
                                 dict(replay, type=n, tl2=t, json=bytes.fromhex(j).decode("utf-8", "replace") if j != "-" else "", original=o)))
            if vals:
                n, t, j = vals[r.randrange(len(vals))]
                with lock:
                    if len(samples) < 12:
                        samples.append({"unit": u.name, "whitelist": u.wl, "type": n, "tl2": trunc(t, 80), "json": trunc(bytes.fromhex(j).decode("utf-8", "replace") if j != "-" else "", 120)})
        with lock:
            kinds[u.kind] = kinds.get(u.kind, 0) + 1
            for k in st:
                stats[k] += st[k]
            # one representative per signature
            seen = set()
            for b in ubad:
                if b[0] not in seen:
                    seen.add(b[0])
                    bad.append(b)
            infra.extend(uinfra)

    with ThreadPoolExecutor(max_workers=8) as ex:
        list(ex.map(work, units))
    mark("run")
    ctx.notes["phase_end_s"] = phases

    # value-level failures (a concrete value with differing bytes / JSON) first, then the checker's structural rejections
    bad.sort(key=lambda b: 0 if b[0].split(":")[1] in ("tl2", "json") else 1)
    for sig, what, data in bad[:60]:
        ctx.violation(sig, what, data)
    if not ctx.violations:
        if not thm["ok"]:
            ctx.violation(f"{pid}:theorem", f"theorem no longer checks: {thm['failing_at']}", {"theorem_file": thm["props_file"], "failing_at": thm["failing_at"], "log": thm["log_tail"]}, no_input=True)
        if berr:
            ctx.violation(f"{pid}:tools", "cannot build tl2gen/verifdump: " + trunc(berr, 600), {"error": berr}, no_input=True)
        if ref_err:
            ctx.violation(f"{pid}:model-build", "reference model does not build: " + trunc(ref_err, 600), {"error": ref_err}, no_input=True)
        must = [u for u in units if u.name in ("cases_all", "goldmaster_all") and not u.accepted]
        for u in must:
            ctx.violation(f"{pid}:migration-rejects:{u.name}", f"migration rejects repository schema {u.name}: {trunc(u.log, 400)}", {"log": u.log}, no_input=True)
        for sig, what, data in infra[:10]:
            ctx.violation(sig, what, data, no_input=True)
    ctx.coverage.update({
        "obligations": thm["obligations"], "discharged": thm["discharged"],
        "checker_cmd": f"make -f Makefile.coq theories/{PROPS}.vo (coqc 8.16.1, full .vo build, in /verif/coq)",
        "trusted_base": ["Coq 8.16.1 kernel",
                         "translator overlay/cmd/verifdump + lib/tlo_lib.py mig_view_lines (kernel dump -> TL2 view); the candidate correspondence (mig_phi, mig_roots) is NOT trusted: the extracted tl2_equiv / roots_covered validate it",
                         "extraction ExtrOcamlBasic only; ocaml/conv.ml, ocaml/drv_tlo.ml",
                         "Go harness harness/go/tlodrv (one binary over both generated packages); comparison in lib/checks/C27.py",
                         "that the generated TL2 and JSON writers are attribute-only compositional encoders over the compared attributes is the model of the Tl2/Json families (not proved here)",
                         "axioms: " + (", ".join(thm["axioms"]) if thm["axioms"] else "none (every theorem closed under the global context)")],
        "theorems": thm["statements"], "assumptions_per_theorem": thm["assumptions"],
        "evaluations": stats["tl2_reads"] + stats["json_reads"] + stats["values_mig"] + stats["pairs"],
        "distinct_nontrivial": stats["values_orig"] + stats["values_mig"],
        "rule": "per (schema, whitelist) accepted by the migration: original (with --tl2WhiteList) and migrated schema dumped by the kernel, tl2_equiv evaluated on a "
                "correspondence covering every migrated top-level type; both schemas generated and built; FillRandom values of the original package written as TL2/JSON, "
                "read by the migrated package (TL2 reader, JSON reader) and rewritten: identical bytes and text; FillRandom values of the migrated package read by the original",
        "op_kinds": kinds, "stats": stats, "correspondence": CORR, "correspondence_mismatches": len(mism), "oracle_failures": len(bad),
        "samples": samples or [{"note": "no value driven"}],
        "units": [{"name": u.name, "kind": u.kind, "whitelist": u.wl, "accepted": u.accepted, "migrated_types": u.migrated_types,
                   "instances": [len(u.A or []), len(u.B or [])], "go": bool(u.pk), "log": trunc(u.log, 160) if not u.accepted else None} for u in units],
    })
    ctx.assumptions += ["64-bit platform", "values are produced by FillRandom of the generated packages (F7 stack overflows are left to C18)",
                        "tl2_equiv treats vectors and dynamically sized tuples alike (same TL2 wire format); the original JSON writer's length checks against nat "
                        "parameters are outside the compared attributes (see the reverse-direction oracle)"]
