"""C04 -- TL1-to-TL2 conversion preserves values."""
import random
import threading
from concurrent.futures import ThreadPoolExecutor

from vlib import *
from gencommon import *
from tl2_lib import *

PROPS = "Props/C04"
CORR = "corr:C04:conv"
NEGZERO_SIG = "C04:negative-zero-float-field-lost"


def run(ctx):
    quick = ctx.quick()
    cres, thm, ref, ref_err, bins, berr, units = common_setup(ctx, PROPS, 3 if quick else 9, [wide_spec(ctx)])
    nrand = 5 if quick else 15
    ntl1 = 10 if quick else 30
    stats = {"schemas": 0, "types": 0, "conv_ops": 0, "json_ops": 0, "tl1_values": 0, "go_random_values": 0, "kernel_rejected": 0,
             "units_outside_model": 0, "negzero_cases": 0, "fillrandom_failures_left_to_C18": 0, "budget_skips": 0, "model_enc1_none": 0}
    mism, bad, negz, samples, unit_errors, skipped = [], [], [], [], [], []
    lock = threading.Lock()
    rngs = {u.name: random.Random(ctx.rng.getrandbits(64)) for u in units}

    def work(u):
        rng = rngs[u.name]
        if u.kernel_rejected:
            with lock:
                stats["kernel_rejected"] += 1
            return
        if u.error or not u.gen:
            with lock:
                unit_errors.append((u.name, u.error))
            return
        if ref is None:
            return
        ubad, umism, uerr, unegz = [], [], [], []
        tops = unit_tops(u)
        mv = ModelView(u, ref)
        d = mv.describe(u, tops)
        if d:
            with lock:
                stats["units_outside_model"] += 1
                skipped.append(d)
        src = Sources(u, tops, rng, ref)
        tid_of = src.tid_of
        ops = []
        tv, e = src.tl1_values(ntl1)
        if e:
            uerr.append((u.name, e))
        for tid, name, boxed, h in (tv or []):
            ops.append((f"conv {int(bool(u.san))} {tid} {name} {boxed} {h}", "model-written-tl1-value"))
        rl = [f"rand12 {name} {rng.getrandbits(48)}" for tid, name, x in tops for _ in range(nrand)]
        ro = run_lines_resilient(u.gen.exe, [], rl, timeout=600)
        nr = 0
        for l, o in zip(rl, ro):
            name = l.split(" ")[1]
            if o.startswith("ok "):
                ops.append((f"conv {int(bool(u.san))} {tid_of[name]} {name} 1 {o[3:]}", "go-random-value"))
                nr += 1
            elif o != "writeerr":
                src.stats["fillrandom_failures_left_to_C18"] += 1
        lines = [o[0] for o in ops]
        go = run_lines_resilient(u.gen.exe, [], lines, timeout=900)
        jl = [l.replace("conv ", "convj ", 1) for l in lines]
        jo = run_lines_resilient(u.gen.exe, [], jl, timeout=900)
        mo, e = model_run(ref, mv, lines, 2)
        if e:
            uerr.append((u.name, e))
        st_rej = [0]
        for i, ((l, kind), g, j) in enumerate(zip(ops, go, jo)):
            f = l.split(" ")
            n = 0 if f[5] == "-" else len(f[5]) // 2
            gf = g.split(" ")
            # the property on the implementation: TL1 -> TL2 -> TL1 gives the original bytes, JSON unchanged
            ok = g.startswith("ok ") and len(gf) == 4 and gf[1] == str(n) and gf[3] == f[5] and j == "ok"
            if g.startswith(("panic", "crash", "driver-error")) or j.startswith(("panic", "crash", "driver-error")):
                ubad.append((u.name, l, g + " | json: " + trunc(j, 200), crash_sig("C04", mv, u, f[2], f[3], g + j)))
            elif g == "err1":
                # the generated TL1 reader refuses these bytes (length sanity check, F6 of C01): not a
                # value decoded from TL1, nothing to convert
                st_rej[0] += 1
            elif j.startswith("diff json-panic-after-tl2-read"):
                ubad.append((u.name, l, g + " | json: " + trunc(j, 200), f"C04:json-writer-panics-after-tl2-read:{f[3]}"))
            elif not ok:
                if mo is not None and mo[i] == g and g.startswith("ok ") and len(gf) == 4 and gf[1] == str(n) and not gf[3].startswith(("write", "read", "trail")):
                    # the model predicts exactly this loss: the only value the TL2 writer drops is a
                    # non-optional float/double field holding -0.0 (item.F != 0 is false)
                    unegz.append((u.name, l, g))
                else:
                    ubad.append((u.name, l, g + " | json: " + trunc(j, 200), f"C04:conversion:{u.name}:{f[3]}"))
            if mo is not None and mo[i] is not None and mo[i] != g:
                umism.append((u.name, l, mo[i], g))
        with lock:
            stats["schemas"] += 1
            stats["types"] += len(tops)
            stats["conv_ops"] += len(lines)
            stats["json_ops"] += len(jl)
            stats["go_random_values"] += nr
            stats["negzero_cases"] += len(unegz)
            stats["tl1_rejected_by_reader"] = stats.get("tl1_rejected_by_reader", 0) + st_rej[0]
            for k, v in src.stats.items():
                if k != "go_random_values":
                    stats[k] = stats.get(k, 0) + v
            unit_errors.extend(uerr)
            bad.extend(ubad)
            mism.extend(umism)
            negz.extend(unegz)
            if len(samples) < 14 and lines:
                for _ in range(2):
                    k = rng.randrange(len(lines))
                    samples.append({"schema": u.name, "kind": ops[k][1], "op": trunc(lines[k], 200), "go": trunc(go[k], 160),
                                    "model": trunc(mo[k], 160) if mo and mo[k] is not None else "(type outside the model)", "json_oracle": trunc(jo[k], 80)})

    with ThreadPoolExecutor(max_workers=8) as ex:
        list(ex.map(work, units))

    for name, l, g in negz[:3]:
        ctx.violation(NEGZERO_SIG, f"{name}: a non-optional float/double field holding -0.0 is dropped by the TL2 writer and comes back as +0.0: {trunc(l, 160)} -> {trunc(g, 160)}",
                      {"unit": name, "op": l, "go": g})
    for name, l, g, sig in bad[:30]:
        ctx.violation(sig, f"{name}: TL1 -> TL2 -> TL1 does not give back the value: {trunc(l, 160)} -> {trunc(g, 200)}", {"unit": name, "op": l, "go": g})
    report_infra(ctx, "coq/theories/Props/C04.v", cres, thm, berr, ref_err, unit_errors, mism, CORR)
    ctx.coverage.update({
        "obligations": thm["obligations"], "discharged": thm["discharged"],
        "checker_cmd": f"make -f Makefile.coq theories/{PROPS}.vo (coqc 8.16.1, full .vo build, in /verif/coq)",
        "trusted_base": trusted_base(thm),
        "theorems": thm["statements"], "assumptions_per_theorem": thm["assumptions"],
        "evaluations": stats["conv_ops"] + stats["json_ops"], "distinct_nontrivial": stats["tl1_values"] + stats["go_random_values"],
        "rule": "Boundary-size values are always included (<= ~30 per run): strings of length 253/254/65535/65536/65789/65790/65791 (+1 random in the windows), vectors whose body size lands on those edges, and enclosing struct bodies of exactly those sizes (top level and nested), i.e. every edge of the 1/3/9-byte size forms; per schema (cases.tl, goldmaster*.tl, random schemas, generated with --tl2WhiteList=*) and top-level type: TL1 bytes of "
                "type-directed wire values (written by the TL1 model) and of FillRandom values (written by Go) go through generated "
                "ReadTL1 -> WriteTL2 -> ReadTL2 (fresh object) -> WriteTL1General and through the model (dec1, enc2, dec2, enc1): "
                "consumed length, TL2 bytes and final TL1 bytes compared; model-free oracle: final TL1 bytes == original and the JSON "
                "of the TL1-decoded and the TL2-decoded object are equal",
        "op_kinds": {"conv": stats["conv_ops"], "convj": stats["json_ops"]},
        "stats": stats, "correspondence": CORR, "correspondence_mismatches": len(mism), "oracle_failures": len(bad) + len(negz),
        "outside_model": skipped or "none: every unit's dump satisfies wf2",
        "samples": samples or [{"note": "no ops ran"}],
        "schemas": [{"name": u.name, "options": u.options, "instances": len(u.ins or []), "error": trunc(u.error, 200) if u.error else None} for u in units],
    })
    ctx.assumptions += ["64-bit platform (sizes <= MaxInt)", "the templates are modelled, not verified: agreement shown on the listed schemas/values",
                        "kernel resolution trusted (the IR is dumped from the kernel)", "JSON equality is an implementation-side oracle only (no JSON model in this family)"]
