"""C10 -- []byte variants (--generateByteVersions) behave like the string variants."""
from reg_lib import *

PROPS = "Props/C10"
DRV = ["main.go", "ops_tl1.go", "ops_reg.go", "ops_regbytes.go"]
F_SPLIT_SIG = "C10:gen-does-not-compile:split-internal+byte-versions"
F_TL2_SIG = "C10:bytes-dict-tl2-read-loses-entries"     # known_findings uses sig_regex "<this>:.*"


class DictGen(randschema.Gen):
    """random schemas rich in dictionaries and strings (what the bytes variants change)"""

    def texpr(self, scope, depth=0, guarded=False):
        r = self.r
        if depth < 3 and r.random() < 0.3:
            inner = self.texpr(scope, depth + 1, guarded)
            if inner in ("true", "#"):
                inner = "string"
            k = r.random()
            if k < 0.5:
                return f"(dictionary {inner})"
            if k < 0.75:
                return f"(dictionaryAny string {inner})"
            return f"(dictionaryAny {r.choice(['int', 'long'])} {inner})"
        if r.random() < 0.2:
            return "string"
        return super().texpr(scope, depth, guarded)


class Tl1Enc:
    """small TL1 writer over the kernel dump, used ONLY to place structure-aware mutations (its unmutated output is
    checked against the model's encoder before use).  site = ('s'|'b', k): the k-th string / Bool written;
    mode: pad (non-zero padding byte), medium / huge (non-minimal length form), lenplus (length byte + 1), badtag."""

    def __init__(self, ins, site=None, mode=None, rng=None):
        self.ins, self.site, self.mode, self.rng = ins, site, mode, rng
        self.nstr = self.nbool = 0
        self.empty_strs = []

    @staticmethod
    def le(n, k):
        return int(n).to_bytes(k, "little")

    def string(self, b):
        k = self.nstr
        self.nstr += 1
        if not b:
            self.empty_strs.append(k)
        mode = self.mode if self.site == ("s", k) else None
        l = len(b)
        if mode == "pad" and (l + 1) % 4 == 0 and l < 254:
            mode = "medium"      # no padding byte to spoil
        if mode == "huge":
            hdr, p = b"\xff" + self.le(l, 7), l
        elif mode == "medium" or l >= 254:
            hdr, p = b"\xfe" + self.le(l, 3), l
        elif mode == "lenplus":
            hdr, p = bytes([min(l + 1, 253)]), l + 1
        else:
            hdr, p = bytes([l]), l + 1
        pad = bytearray((-p) % 4)
        if mode == "pad" and pad:
            pad[self.rng.randrange(len(pad))] = self.rng.choice([1, 1, 0x80, 0xff])
        return hdr + b + bytes(pad)

    def value(self, tid, v, bare):
        x = self.ins[tid]
        k = x["kind"]
        if k == "prim":
            p = PRIM_MAP.get(x["name"], "notl1")
            if p in ("nat", "int", "float"):
                return self.le(v[1], 4)
            if p in ("long", "double"):
                return self.le(v[1], 8)
            if p == "string":
                return self.string(v[1])
            if p == "bool":
                i = self.nbool
                self.nbool += 1
                tag = x["trueTag"] if v[1] else x["falseTag"]
                if self.site == ("b", i):
                    tag = self.rng.choice([tag ^ 1, 0, 0xffffffff, x["trueTag"] ^ x["falseTag"]])
                return self.le(tag, 4)
            raise ValueError("not TL1")
        if k == "struct":
            return (b"" if bare else self.le(x["tag"], 4)) + self.fields(x, v[1])
        if k == "union":
            var = self.ins[x["variants"][v[1]]]
            return self.le(var["tag"], 4) + self.fields(var, v[2])
        if k in ("array", "dict"):
            ef = x["elem"]
            out = b"" if (k == "array" and x.get("isTuple")) else self.le(len(v[1]), 4)
            for e in v[1]:
                out += self.value(ef["type"], e, ef["bare"])
            return out
        raise ValueError(k)

    def fields(self, x, fs):
        out = b""
        for f, fv in zip(x["fields"], fs):
            if fv is not None:
                out += self.value(f["type"], fv, f["bare"])
        return out

    def top(self, tid, v):
        return self.value(tid, v, False)


class AsciiGen(ValueGen):
    """mostly printable strings, so that the JSON form can be read back (non-UTF-8 strings in JSON are C05's subject)"""

    def string(self):
        x = self.rng.random()
        if x < 0.65:
            l = self.rng.choice([0, 1, 1, 2, 3, 5, 8, 13, 40])
            return bytes(self.rng.choice(b"abcdefXYZ019_-") for _ in range(l))
        if x < 0.85:
            # every character the JSON string writers treat specially (valid UTF-8, so the JSON is still re-readable):
            # the two writers (string / []byte flavour) must escape them identically
            l = self.rng.choice([1, 2, 3, 5, 8])
            special = [bytes([c]) for c in range(0x20)] + [b'"', b"\\", b"/", b"<", b">", b"&", b"\x7f",
                                                           "\u2028".encode(), "\u2029".encode(), "\u00e9".encode(), "\U0001f600".encode()]
            return b"".join(self.rng.choice(special) if self.rng.random() < 0.7 else bytes([self.rng.choice(b"abXY01")]) for _ in range(l))
        return super().string()

    def sort_entries(self, p, es):
        # dictionary KEYS stay plain: the generated dictionary JSON readers do not unescape keys (C05's finding F17), which makes
        # both variants hold the same wrong key but emit entries in different orders -- not a disagreement between the variants
        if p == "string":
            plain = []
            for e in es:
                k = e[1][0]
                if k is not None and any(c < 0x20 or c >= 0x7f or c in b'"\\/<>&' for c in k[1]):
                    k = (k[0], bytes(c for c in k[1] if 0x20 <= c < 0x7f and c not in b'"\\/<>&'))
                    e = (e[0], [k] + list(e[1][1:]))
                plain.append(e)
            es = plain
        return super().sort_entries(p, es)


class UnsortedGen(ValueGen):
    """dictionary content in arbitrary order, with repeated keys"""

    def sort_entries(self, p, es):
        es = list(es)
        if es and (len(es) == 1 or self.rng.random() < 0.5):
            for _ in range(self.rng.choice([1, 1, 2])):
                e = self.rng.choice(es)
                if self.rng.random() < 0.5 and len(e[1]) == 2 and e[1][1] is not None:
                    other = self.rng.choice(es)
                    e = ("S", [e[1][0], other[1][1]])      # same key, another entry's value
                es.insert(self.rng.randrange(len(es) + 1), e)
        self.rng.shuffle(es)
        return es


def specs_for(ctx, fam):
    quick = ctx.quick()
    c = [
        ("goldmaster", [TLS / "goldmaster.tl", TLS / "goldmaster2.tl", TLS / "goldmaster3.tl"],
         ["--tl2WhiteList=*", "--generateByteVersions=ch_proxy.,ab.,memcache."], "*", True),
        ("cases_bytes", [TLS / "cases.tl"], ["--tl2WhiteList=*", "--generateByteVersions=cases_bytes."], "*", True),
        ("cases_bytes_notl2", [TLS / "cases.tl"], ["--checkLengthSanity=false", "--generateByteVersions=cases_bytes."], None, False),
    ]

    # minimal reproduction of the known finding (generated code does not compile), always part of the run
    d = Path(ctx.scratch) / "f_split"
    d.mkdir(exist_ok=True)
    (d / "s.tl").write_text(randschema.HEADER + "rs.t a:(dictionary (dictionaryAny int string)) = rs.T;\n")
    c.append(("bytes_split_min", [d / "s.tl"], ["--split-internal", "--generateByteVersions=rs."], None, True))

    def accept(ins):
        return any(x["kind"] == "dict" for x in ins)

    return c + rand_specs(ctx, 2 if quick else 6, prefix="rb", extra_opts=["--generateByteVersions=rs."], gen_cls=DictGen,
                          verifdump=fam.bins.get("verifdump"), accept=accept)


def norm_flags(v):
    """'t1=1,js=1,t2=-' -> ok"""
    if v in ("-", None):
        return v
    if v.startswith("readerr:"):
        return v
    return "ok" if all(p.split("=")[1] in ("1", "-") for p in v.split(",")) else v


def run(ctx):
    fam = Family(ctx, PROPS, "corr:C10:bytes")
    fam.prepare(specs_for(ctx, fam), driver_files=DRV)
    nvals = 10 if ctx.quick() else 30
    bytes_items = {}
    skipped = {}

    def work(u, rng):
        if (u.error or "").startswith("go build") and "imported and not used" in u.error and "--split-internal" in u.options \
                and any(o.startswith("--generateByteVersions") for o in u.options):
            # a concrete failing input of the property's quantifier (accepted schema, generated with byte versions): not a machinery error
            import re as _re
            ctx.violation(F_SPLIT_SIG, f"{u.name}: code generated with {' '.join(u.options)} does not compile: "
                          + trunc(_re.sub(r'\x1b\[[0-9;]*m', '', u.error[u.error.find('# verifh'):]), 300),
                          {"unit": u.name, "options": u.options, "schema": Path(u.files[0]).read_text(), "error": u.error[-1500:]})
            fam.add(units_hitting_known_codegen_defect=1)
            return
        if not fam.usable(u):
            return
        ins = u.ins
        rc, bi, err = run_lines(u.gen.exe, [], ["bytesitems"])
        names = bi[0].split(" ")[1:] if bi and bi[0].startswith("ok") else []
        for n in names:
            if n.endswith("!factory"):
                fam.oracle_fail(u, f"C10:factory:{u.name}:{n}", "factory_bytes / factory do not create the types the registry item creates", {"item": n})
        names = [n for n in names if "!" not in n]
        with fam.lock:
            bytes_items[u.name] = names
        tops = [t for t in toplevel_objects(ins) if t[1] in names]
        san = "1" if u.san else "0"
        sg, ug = AsciiGen(ins, rng), UnsortedGen(ins, rng)
        enc_lines, kinds, vals = [], [], []
        for tid, name, x in tops:
            for k in range(nvals):
                g, op, kind = (sg, "enc", "sorted") if k % 2 == 0 else (ug, "encb", "unsorted")
                try:
                    v = g.top(tid)
                except Budget as e:
                    with fam.lock:
                        skipped.setdefault("value generator budget / type not representable in TL1", []).append(f"{u.name}:{name}")
                    break
                enc_lines.append(f"{op} {san} {tid} {name} 1 | {vtext(v)}")
                kinds.append(kind)
                vals.append(v)
        if not enc_lines:
            fam.add(schemas_without_bytes_items=1)
            return
        rc, eo, err = fam.model(u, enc_lines)
        if rc != 0 or len(eo) != len(enc_lines):
            with fam.lock:
                fam.unit_errors.append((u.name, f"model driver failed on enc: rc={rc} {err[-300:]}"))
            return
        lines, lk = [], []
        valid = []     # (tid, name, value, hex) of sorted duplicate-free inputs: seeds of the mutated stream
        for l, o, k, v in zip(enc_lines, eo, kinds, vals):
            if o.startswith("ok "):
                f = l.split(" ")
                lines.append(f"brw {san} {f[2]} {f[3]} {o[3:]}")
                lk.append(k)
                if k == "sorted":
                    valid.append((int(f[2]), f[3], v, o[3:]))
            else:
                fam.add(model_enc_none=1)
        rc1, mo, e1 = fam.model(u, lines)
        go = run_lines_resilient(u.gen.exe, [], lines, timeout=600)
        if rc1 != 0 or len(mo) != len(lines) or len(go) != len(lines):
            with fam.lock:
                fam.unit_errors.append((u.name, f"driver failed: model rc={rc1} lines={len(lines)}/{len(mo)}/{len(go)} {e1[-300:]}"))
            return
        nm, ng = [], []
        nsorted = nunsorted = 0
        for l, m, g in zip(lines, mo, go):
            dm = dict(p.split("=", 1) for p in m.split(" ") if "=" in p)
            dg = dict(p.split("=", 1) for p in g.split(" ") if "=" in p)
            name = l.split(" ")[3]
            both_ok = dm.get("s", "").startswith("ok:") and dm.get("b", "").startswith("ok:")
            # the model's statement, in Go's vocabulary
            exp = f"s={dm.get('s')} b={dm.get('b')}"
            if both_ok:
                exp += " direct=" + ("ok" if dm.get("sorted") == "1" else "-")
                if dm.get("sorted") == "1":
                    nsorted += 1
                else:
                    nunsorted += 1
                if dm.get("norm") != "1":
                    exp += " MODEL-norm-theorem-violated"
            got = f"s={dg.get('s')} b={dg.get('b')}"
            if "direct" in dg:
                got += " direct=" + norm_flags(dg["direct"])
            nm.append(exp)
            ng.append(got if "=" in g else g)
            # model-free oracle: formats agree on sorted duplicate-free content
            sig = f"C10:{u.name}:{name}"
            data = {"op": l, "go": g}
            if "canon" in dg and norm_flags(dg["canon"]) != "ok":
                fam.oracle_fail(u, sig, f"bytes variant re-encodes the string variant's (sorted, duplicate-free) output differently: {dg['canon']}", data)
            if "json" in dg:
                j = norm_flags(dg["json"])
                if j == "readerr:true/true":
                    fam.add(json_not_rereadable_by_either_variant_left_to_C05=1)
                elif j != "ok":
                    fam.oracle_fail(u, sig, f"the two variants disagree after reading the same JSON: {dg['json']}", data)
            if dg.get("direct") not in (None, "-") and norm_flags(dg["direct"]) != "ok":
                fam.oracle_fail(u, sig, f"same sorted input, the variants' encodings differ: {dg['direct']}", data)
            if dg.get("s", "").startswith("ok:") != dg.get("b", "").startswith("ok:") and dg.get("s") and dg.get("b"):
                fam.oracle_fail(u, sig, f"one variant accepts the input, the other does not: s={dg['s'][:20]} b={dg['b'][:20]}", data)
        for kind in ("sorted", "unsorted"):
            idx = [i for i, k in enumerate(lk) if k == kind]
            fam.compare(u, [lines[i] for i in idx], [nm[i] for i in idx], [ng[i] for i in idx], "brw-" + kind)
        fam.add(schemas=1, bytes_items=len(tops), inputs_sorted_distinct=nsorted, inputs_unsorted_or_duplicates=nunsorted)
        # ---- reused objects (model-free): content B read in every format by every variant into a fresh object, into an
        # object that held A before, and into one that held A and was Reset(): all must hold B
        by_name = {}
        for l, k in zip(lines, lk):
            if k == "sorted":
                f = l.split(" ")
                by_name.setdefault((f[2], f[3]), []).append(f[4])
        rl = []
        for (tid, name), hs in by_name.items():
            hs = sorted(set(hs), key=lambda h: -len(h))     # long content first: stale data of A shows in the shorter B
            for i in range(len(hs) - 1):
                rl.append(f"breuse {san} {tid} {name} {hs[i]} {hs[i + 1]}")
                if rng.random() < 0.5:
                    rl.append(f"breuse {san} {tid} {name} {hs[i + 1]} {hs[i]}")
        ro = run_lines_resilient(u.gen.exe, [], rl, timeout=600)
        fam.add(evaluations=len(rl), reuse_ops=len(rl))
        fam.kind("reuse-fresh-vs-reused-vs-reset", len(rl))
        for l, o in zip(rl, ro):
            name = l.split(" ")[3]
            if not o.startswith("ok "):
                if o.startswith("crash") and not Family.not_ours("", o):
                    fam.oracle_fail(u, f"C10:reuse-crash:{u.name}:{name}", f"process died: {o[:120]}", {"op": l, "go": o})
                continue
            with fam.lock:
                fam.distinct.add(hash((u.name, l)))
            codes = dict(p.split("=") for p in o[3:].split(" "))
            if codes.get("s:js") in ("readerr", "readerr2", "rt") and codes.get("b:js") == codes.get("s:js"):
                # the JSON of this content is not re-readable / not reproduced by EITHER variant in the same way: a JSON round-trip
                # matter (C05's subject and findings), not a disagreement between the variants
                fam.add(json_not_rereadable_by_either_variant_left_to_C05=1)
                codes.pop("s:js"), codes.pop("b:js")
            for vf, c in codes.items():
                if c in ("ok", "-"):
                    continue
                data = {"op": l, "go": o, "unit": u.name, "options": u.options}
                if vf == "b:t2" and c == "rt":
                    fam.oracle_fail(u, f"{F_TL2_SIG}:{name}", f"{name}: the bytes variant does not read back its own TL2 encoding (TL1 -> bytes object -> WriteTL2 -> fresh bytes object ReadTL2 -> different TL1/JSON/TL2)", data)
                else:
                    what = {"rt": "a fresh object does not reproduce the content", "reuse": "an object that held other content before reads differently from a fresh object",
                            "reset": "an object that was Reset() reads differently from a fresh object"}.get(c, c)
                    fam.oracle_fail(u, f"C10:reuse:{u.name}:{name}:{vf}", f"{name} {vf}: {what}", data)
        # ---- mutated inputs (model-free): both variants must give the same verdict, consume the same bytes and, on
        # accept, re-encode the same (modulo sort + dedup of dictionaries)
        tags = sorted({x["tag"] for x in ins if x.get("tag")})
        ml = []      # (op line, kind)
        for tid, name, v, hx_ in valid:
            base = Tl1Enc(ins)
            try:
                plain = base.top(tid, v)
            except Exception:   # noqa: a construct the small encoder does not know
                fam.add(mutation_encoder_skips=1)
                plain = None
            if plain is not None and plain.hex() != hx_:
                fam.add(mutation_encoder_disagrees_with_model=1)
                plain = None
            if plain is not None:
                sites = [("s", i) for i in range(base.nstr)] + [("b", i) for i in range(base.nbool)]
                rng.shuffle(sites)
                empties = [("s", i) for i in base.empty_strs]
                for site in (empties[:1] + sites)[:3]:
                    mode = rng.choice(["pad", "pad", "medium", "huge", "lenplus"]) if site[0] == "s" else "badtag"
                    if site in empties and rng.random() < 0.7:
                        mode = "pad"
                    m = Tl1Enc(ins, site=site, mode=mode, rng=rng).top(tid, v)
                    if m != plain:
                        ml.append((f"bmut t1 {name} {m.hex()}", "mut-" + ("string-" + mode if site[0] == "s" else "bool-tag")))
            raw = bytes.fromhex(hx_)
            for _ in range(2 if u.san else 0):   # without --checkLengthSanity a mutated count word makes the reader allocate gigabytes (by design)
                ml.append((f"bmut t1 {name} {mutate_bytes(rng, raw, tags).hex() or '-'}", "mut-random-tl1"))
        # TL2 inputs: what the string variant writes for the valid contents, mutated
        t2src = [f"btl2 {name} {hx_}" for tid, name, v, hx_ in valid]
        t2o = run_lines_resilient(u.gen.exe, [], t2src, timeout=600)
        for l, o in zip(t2src, t2o):
            if o.startswith("ok "):
                raw = b"" if o[3:] == "-" else bytes.fromhex(o[3:])
                name = l.split(" ")[1]
                ml.append((f"bmut t2 {name} {raw.hex() or '-'}", "tl2-valid"))
                for _ in range(2):
                    ml.append((f"bmut t2 {name} {mutate_bytes(rng, raw, tags).hex() or '-'}", "mut-random-tl2"))
        mo_ = run_lines_resilient(u.gen.exe, [], [x[0] for x in ml], timeout=600)
        fam.add(evaluations=len(ml), mutated_inputs=len(ml))
        acc = rej = 0
        for (l, kind), o in zip(ml, mo_):
            fam.kind(kind)
            name = l.split(" ")[2]
            if not o.startswith("s="):
                if o.startswith(("crash", "panic")) and not Family.not_ours("", o):
                    fam.oracle_fail(u, f"C10:mutated-input-crash:{u.name}:{name}", f"{kind}: {o[:140]}", {"op": l, "go": o})
                continue
            d = dict(p.split("=", 1) for p in o.split(" "))
            data = {"op": l, "go": o, "kind": kind, "unit": u.name, "options": u.options}
            if d["s"] != d["b"]:
                fam.oracle_fail(u, f"C10:accept-differs:{u.name}:{name}",
                                f"{name}: {kind} input {trunc(l.split(' ')[3], 80)} ({l.split(' ')[1]}): string variant {d['s']}, bytes variant {d['b']}", data)
            elif d["s"].startswith("ok"):
                acc += 1
                with fam.lock:
                    fam.distinct.add(hash((u.name, l)))
                if d.get("enc") not in ("same", "norm", "writeerr:true/true"):    # both refusing to write TL1 (size field vs array length) is agreement
                    fam.oracle_fail(u, f"C10:accept-differs:{u.name}:{name}", f"{name}: both variants accept the {kind} input but re-encode differently: {d.get('enc')}", data)
            else:
                rej += 1
        fam.add(mutated_accepted_by_both=acc, mutated_rejected_by_both=rej)

    fam.run_units(work)
    fam.report(
        "bytes variant differs",
        "per schema generated with --generateByteVersions: for EVERY registry item whose CreateObjectBytes() is a different Go type: boxed TL1 inputs "
        "(type-directed values; dictionaries sorted and duplicate-free, or shuffled with repeated keys) are read by both variants and re-encoded: TL1 of both variants "
        "compared with the model (map-backed: sort + last-wins; slice-backed: order preserved); Go-side: the string variant's output re-read by the bytes variant must "
        "give identical TL1 / JSON / TL2, the string variant's JSON read by both variants must give identical TL1 / JSON / TL2, and for sorted inputs both variants agree directly; "
        "reused objects: content B read (TL1 / JSON / TL2) into a fresh object, an object that held A, and one that held A and was Reset() must agree, per variant; "
        "mutated inputs: structure-aware TL1 mutations (non-zero padding incl. on empty strings and dictionary keys, non-minimal medium / huge length forms, length+1, bad Bool tags), "
        "random byte mutations of TL1 (units with the length-sanity check only) and of TL2 encodings: both variants must give the same verdict and consumed length and, "
        "when both accept, the same re-encodings (modulo sort + dedup)",
        extra_cov={"items_with_bytes_variant": {k: v[:80] for k, v in sorted(bytes_items.items())},
                   "skipped_constructs": {k: sorted(set(v))[:40] for k, v in skipped.items()} or "none",
                   "not_modelled": ["JSON and TL2 text/bytes (compared Go-vs-Go between the variants, not with the model)",
                                    "which types get a bytes variant (listed from the generated registry, not predicted)"]},
        assumptions=["malformed inputs are not part of this property (C02); JSON the writer produces but no reader accepts is left to C05"])
